"""C13 — compiler argument lists: append/override/dedup contract (DESIGN §2 C13)."""
from __future__ import annotations

import ast
import re
import typing as T

from ..core import AnalysisError, Module, Repo, Undecided, attr_chain, norm, short, walk_no_nested
from ..report import Rule, RuleCtx
from ..paths import enumerate_paths
from ..tables import canon as tables_canon
from . import c13_lazy as lazy
from . import c13_tables as tabs
from . import c13_state as state
from . import c13_consume as cons

ARGLIST = 'mesonbuild/arglist.py'
ROOT = 'CompilerArgs'

EXPLANATION = (
    'Decides the typestate skeleton and the tables of the lazily flushed CompilerArgs: '
    'R1 every read/write of X._container anywhere in the package is preceded on every CFG path by X.flush_pre_post() on the same '
    'receiver (or X is a fresh copy()/constructor result), with no queueing operation in between; the effect of each method is '
    'summarised from its own body; the by-design dirty reader (__iadd__, and private helpers only it calls) must test membership in _container, pre and post together; '
    '__len__ is held to the flush-before-read rule (counting the three stores is not the eager length while overridden duplicates are pending); '
    'R2 the decision table of _can_dedup equals bare-prefix > OVERRIDDEN > UNIQUE > NO_DEDUP on every world of its atoms, each table is consulted '
    'in the way its role allows and both prefix tables have an "is itself the prefix" test; _should_prepend is equivalent to startswith(prepend_prefixes) '
    'on every world; the folded class tables of CLikeCompilerArgs equal (prepend/dedup2) or contain (dedup1) the reference sets; the language of '
    'dedup1_regex contains lib*.so with up to three numeric components and is disjoint from the neighbouring spellings (sa.rx NFA); '
    'R3 flush_pre_post empties both queues on every path, walks pre forward keeping the first and post backward keeping the last '
    'occurrence, drops container entries named in either override set and assembles pre + kept + post; __iadd__ prepends a batch in its own order. '
    'R4 the routing table of extend_preserving_lflags: exactly the -l/-L arguments outside always_dedup_args take the direct route. '
    'R5 a method that selects `X = self.copy() if flag else self` (to_native) applies every change through X, none to self by name; '
    'R5 caller side (typestate consumed-after-native): when such a method changes the list through X, a call that does not request the copy consumes its receiver; '
    'on no CFG path is the consumed object read or rendered again before the name is rebound (parameters rendered without a copy are summarised by fixpoint, so handing '
    'the object to NinjaBuildElement.add_item consumes it); judged where the source declares the class (annotation, T.cast, assert isinstance, family constructor, or a '
    'compiler_args-style factory on a receiver with a declared class, also one call deep through a function returning the factory result of its parameter) and the class cone '
    'contains a consuming renderer; objects of a declared non-consuming class are discharged; '
    'R6 __add__/__radd__ build a fresh object from the left operand and add the right one with += (no raw splice, operand order kept); no returning path hands back '
    'an operand itself (the sum must not alias self or the other list); the addition may be left out only on a path that has tested the other operand empty. '
    'objects derived from self (copy, +) are built with type(self), never a literal family class that has subclasses; '
    'R7 every value stored in X._container is a list created for the object (copy/display/locally built), on every path; '
    'R2 also strips hand-written memoisation of the classifiers and requires the cache key to contain the class. '
    'R8 who-may-write on the pending queues: outside the classified writer (__iadd__ and its private helpers, read by R3) and the flush, every statement that '
    'puts entries into X.pre / X.post (a state transfer such as a lazy copy) sets X.needs_override_check on the same path - to True or to the flag of the object the '
    'entries come from; R1 accepts the read of an unflushed _container only as part of such a transfer of all three stores to a new object. '
    'R9 a batch stays a batch: extend() is defined by the family (the inherited MutableSequence.extend appends element by element) and hands its argument to += whole; '
    'no family method forwards the elements of an iterable unconditionally one by one to append / += [x] / extend([x]). '
    'R1 reads a module-level guard decorator (one inner wrapper, optionally @wraps / returned through T.cast) whose prologue is only X.flush_pre_post() as a flush at method entry; '
    'R3 also reads the declarative form of a queue walk: override set stated as `{x for x in S if kind(x) is OVERRIDDEN}`, winner stated as last-index map / S.index(x) of the same store. '
    'Normal form (all rules): `for x in self._gen(..)` over a private generator is read as the producer body with each `yield e` replaced by `x = e; <loop body>` '
    'when the lock-step correspondence is exact (no break, no try/with around a yield, no send/return value). '
    'Does NOT decide the equivalence of lazy and eager meaning over operation sequences (a run-time relation), the classification of concrete argument '
    'strings (only the tables, the chain and the regex language are decided, no body is evaluated on sample arguments), the DCompilerArgs tables, nor the callers in the backends. '
    'Not decided: which arguments to_native puts between --start-group/--end-group (the language of GROUP_FLAGS is applied with search over three alternatives with their own anchors '
    'and a negative lookahead; the full-match NFA of sa.rx does not model per-alternative anchors, so membership of lib*.so.N.N.N "as used" cannot be stated exactly - seed 7/2); '
    'whether the backends add each argument source as an increment of its own (`commands += project + global` merges two -I batches into one - seed 7/1; '
    'the pinned Compiler.get_build_link_args does the same for link arguments, so no source-level condition separates the two). '
    'Not decided (R5 caller side): renderings on objects whose family class the source does not declare (listed in the evidence notes: e.g. the vala and single-compile sites), '
    'aliases of a consumed object under another name, objects stored in attributes/containers and read from another function, and whether a particular list contains the two '
    'libraries that make the second rendering differ (value-level). '
    'Out of scope by design (not armed): the constructor and list + CompilerArgs take the initial list verbatim (copy() depends on it), '
    'extend_preserving_lflags reorders within a batch, append_direct/extend_direct arguments are never re-de-duplicated and are queued per element '
    '(a per-element route selected by a test on the element is not judged by R9).')
ASSUMPTIONS = [
    'collections.abc.MutableSequence mixin methods (pop, remove, reverse, clear, index, count, __contains__, __reversed__) are built from the abstract methods as documented',
    'list/deque/set methods (append, appendleft, extend, extendleft, add, clear, slice assignment) behave as documented',
    'objects reaching a parameter annotated or tested as CompilerArgs may hold pending pre/post entries (any caller may have used +=)',
    'a name declared with class K may hold an object of any class of the package derived from K (bases read by their last name); a call expression used as receiver/argument is a temporary',
]
TECHNIQUE = ('typestate (clean/dirty per receiver; consumed-after-native per local) as a may-dataflow over the CFG with method and parameter summaries by fixpoint; class cones from declared types; who-may-write on the queues with path enumeration; '
             'MRO lookup against the documented abc mixins; path enumeration; decision tables over canonical atoms '
             'compared on every world; set comparison of folded constant tables; regex-language facts (membership, empty intersection)')

STORES = (lazy.STORE,) + lazy.QUEUES

EXAMPLE = '''
from .arglist import CompilerArgs

def peek_dirty(a: CompilerArgs):
    return a._container

def peek_clean(a: CompilerArgs):
    a.flush_pre_post()
    return a._container

def peek_requeued(a: CompilerArgs):
    a.flush_pre_post()
    a.append('-DX')
    return a._container

def peek_copy(a: CompilerArgs):
    b = a.copy()
    return b._container

def peek_captured(a: CompilerArgs, xs):
    a.flush_pre_post()
    put = a._container.append
    for x in xs:
        a.append(x)
        put(x)
'''
EXAMPLE_REL = 'mesonbuild/_c13_builtin_example.py'
EXAMPLE_WANT = {'peek_dirty': [lazy.DIRTY], 'peek_clean': [lazy.CLEAN], 'peek_requeued': [lazy.DIRTY], 'peek_copy': [lazy.CLEAN],
                'peek_captured': [lazy.CLEAN, lazy.DIRTY]}   # capture while flushed, use of the captured bound method after a re-queue


def family(repo: Repo) -> lazy.Family:
    cached = repo.__dict__.get('_c13_family')
    if cached is None:
        cached = _family(repo)
        repo.__dict__['_c13_family'] = cached
    return cached


def _family(repo: Repo) -> lazy.Family:
    root_mod = repo.module(ARGLIST)
    root_cls = root_mod.cls(ROOT)
    members: T.List[T.Tuple[Module, ast.ClassDef]] = [(root_mod, root_cls)]
    names = {ROOT}
    texts = {rel: repo.read(rel) for rel in repo.py_files('mesonbuild')}
    for _ in range(6):
        grew = False
        pat = re.compile(r'^[ \t]*class\s+\w+\s*\([^)]*\b(' + '|'.join(map(re.escape, sorted(names))) + r')\b', re.M)
        for rel, src in texts.items():
            if not pat.search(src):      # candidates only; membership is decided by resolving the bases
                continue
            mod = repo.module(rel)
            for q, c in mod.classes().items():
                if any(c is x[1] for x in members):
                    continue
                based = False
                for b in c.bases:
                    bn = attr_chain(b.value if isinstance(b, ast.Subscript) else b)
                    if bn and bn.split('.')[-1] in names:
                        r = repo.resolve_class(mod, bn)
                        if r is not None and any(r[1] is x[1] for x in members):
                            based = True
                if based:
                    members.append((mod, c))
                    if c.name not in names:
                        names.add(c.name)
                        grew = True
        if not grew:
            break
    fam = lazy.Family(repo, root_mod, ROOT, members)
    fam.compute_roles(texts)
    fam.texts = texts  # type: ignore[attr-defined]
    fam.solve()
    return fam


def _accessing_functions(repo: Repo) -> T.List[T.Tuple[Module, str, ast.AST]]:
    out: T.List[T.Tuple[Module, str, ast.AST]] = []
    for rel in repo.py_files('mesonbuild'):
        if not re.search(r'\.' + lazy.STORE + r'\b', repo.read(rel)):
            continue
        mod = repo.module(rel)
        in_funcs: T.Set[int] = set()
        for q, fn in mod.funcs().items():
            hit = False
            for n in walk_no_nested(fn, include_root=False):
                if isinstance(n, ast.Attribute) and n.attr == lazy.STORE:
                    hit = True
            for n in ast.walk(fn):
                if isinstance(n, ast.Attribute) and n.attr == lazy.STORE:
                    in_funcs.add(id(n))
            if hit:
                out.append((mod, q, fn))
        for n in ast.walk(mod.tree):
            if isinstance(n, ast.Attribute) and n.attr == lazy.STORE and id(n) not in in_funcs:
                raise Undecided(f'{rel}:{n.lineno}: {lazy.STORE} is accessed outside any function')
    return out


def _by_design(ctx: RuleCtx, mod: Module, qn: str, fn: ast.AST, accs: T.List[lazy.Access]) -> None:
    """The dirty readers of the by-design table must look at all three stores together."""
    member: T.List[lazy.Access] = []
    others: T.List[lazy.Access] = []
    for a in accs:
        cmp_ = [c for c in ast.walk(a.top) if isinstance(c, ast.Compare) and len(c.ops) == 1 and isinstance(c.ops[0], (ast.In, ast.NotIn))
                and c.comparators[0] is a.node]
        if cmp_:
            member.append(a)
            continue
        others.append(a)
    cls_name = qn.rsplit('.', 1)[0] if '.' in qn else ''
    fn_in = tabs._inline(mod, cls_name, fn) if cls_name and mod.has_cls(cls_name) else fn
    paths = enumerate_paths(fn_in.body, unroll=1, bool_returns=True)  # type: ignore[attr-defined]
    bad: T.Dict[str, T.Tuple[ast.AST, str]] = {}
    n_obs = 0
    for p in paths:
        seen: T.Dict[str, T.Dict[str, T.Tuple[bool, ast.AST]]] = {}
        for ev in p.events:
            e = ev.node
            if ev.kind != 'cond' or not (isinstance(e, ast.Compare) and len(e.ops) == 1 and isinstance(e.ops[0], (ast.In, ast.NotIn))):
                continue
            c = e.comparators[0]
            if isinstance(c, ast.Attribute) and c.attr in STORES and attr_chain(c.value) == 'self':
                val = ev.val if isinstance(e.ops[0], ast.In) else not ev.val
                seen.setdefault(norm(e.left), {})[c.attr] = (val, e)
        for left, obs in seen.items():
            if any(v for v, _ in obs.values()):
                continue
            n_obs += 1
            missing = [s for s in STORES if s not in obs]
            if missing and tabs._opaque_on(p):
                raise Undecided(f'{qn}: `{left}` is judged absent after looking at {sorted(obs)} and calling `{tabs._opaque_on(p)}`, which may consult the rest')
            if missing:
                first = next(iter(obs.values()))[1]
                bad.setdefault(norm(first) + '|' + ','.join(missing),
                               (first, f'on the path [{p.describe()[:160]}] `{left}` is judged absent after looking only at {sorted(obs)}; '
                                       f'self.{", self.".join(missing)} may already hold it (UNIQUE test must read _container, pre and post)'))
    for key, (node, msg) in bad.items():
        ctx.violation(mod, qn, node, msg, node)
    if bad:
        return
    # reads that are not literally `x in self._container` (any(... for store in (...)), sums ...): understood only when the
    # same expression reads all three stores and, after normalisation, shows up as membership tests checked above
    for a in others:
        loads = {n.attr for n in ast.walk(a.top) if isinstance(n, ast.Attribute) and n.attr in STORES and attr_chain(n.value) == a.key and isinstance(n.ctx, ast.Load)}
        if not (set(lazy.QUEUES) <= loads and n_obs > 0):
            raise Undecided(f'{qn}: `{short(a.top, 70)}` reads {a.key}._container unflushed in a form that is not a membership test over the three stores')
    if not bad:
        if n_obs == 0 and not member and not others:
            return
        if n_obs == 0:
            raise Undecided(f'{qn}: membership read of a possibly unflushed _container, but no path observes it as absent')
        ctx.ok(f'{qn}: on all {n_obs} path(s) that judge an argument absent, _container, pre and post are all consulted ({len(paths)} paths)')


def _caller_context(fam: lazy.Family, mod: Module, fn: T.Any, qn: str, cls_key: T.Optional[str], acc: lazy.Access) -> T.Optional[T.Tuple[int, str]]:
    """A block extracted into a *private* helper that receives the list as a parameter: the state of the parameter is the
    join of the states of the arguments at all its call sites (the helper must be private, every mention of its name must be
    a resolvable call from the family classes / its own module).  None: not applicable, the parameter stays dirty."""
    name = getattr(fn, 'name', '')
    root = (acc.key or '').split('.')[0]
    params = [a.arg for a in fn.args.posonlyargs + fn.args.args + fn.args.kwonlyargs]
    if not name.startswith('_') or name.endswith('__') or root == 'self' or root not in params or acc.key != root:
        return None
    # is the access dirty only because of the entry state?  (re-run with the parameter assumed flushed)
    again = lazy.Analysis(fam, mod, fn, qn, cls_key, entry={root: (lazy.CLEAN, 'assumed flushed at the call')}).run()
    same = [x for x in again.accesses if x.node is acc.node]
    if not same or same[0].status[0] != lazy.CLEAN:
        return None
    pat = re.compile(r'\b' + re.escape(name) + r'\b')
    mentions = sum(len(pat.findall(src)) for src in fam.texts.values())  # type: ignore[attr-defined]
    callers: T.List[T.Tuple[Module, str, T.Any, T.Optional[str]]] = []
    for m, c in fam.members:
        for st in c.body:
            if isinstance(st, (ast.FunctionDef, ast.AsyncFunctionDef)):
                callers.append((m, f'{c.name}.{st.name}', st, fam.cls_key(m, c)))
    for q, f in mod.funcs().items():
        if '.' not in q:
            callers.append((mod, q, f, None))
    fam.sites.pop((id(fn), root), None)
    found = 1   # the def itself
    for m, q, f, ck in callers:
        probe = lazy.Analysis(fam, m, f, q, ck)
        chains = set()
        for n in ast.walk(f):
            if isinstance(n, ast.Call):
                r = fam.resolve_callee(probe, n)
                if r is not None and r[1] is fn:
                    found += 1
                    b = fam.bind(fn, n, r[3])
                    if b is None:
                        return (lazy.UNKNOWN, f'call in {q} cannot be bound to the signature')
                    hit = [x for x in list(n.args) + [k.value for k in n.keywords] if b.get(id(x)) == root]
                    if not hit or attr_chain(hit[0]) is None:
                        return (lazy.UNKNOWN, f'call in {q} passes `{short(hit[0]) if hit else "nothing"}` for {root}')
                    chains.add(attr_chain(hit[0]))
        if chains:
            lazy.Analysis(fam, m, f, q, ck, extra_tracked=chains).run()
    sites = fam.sites.get((id(fn), root), [])
    if found != mentions or not sites:
        return None      # referenced in a way that is not a resolvable call (or from elsewhere): keep the conservative entry state
    worst = max(sites, key=lambda x: x[0][0])
    return (worst[0][0], f'{len(sites)} call site(s): ' + ', '.join(sorted({w for _, w in sites})) + (f'; {worst[0][1]}' if worst[0][0] != lazy.CLEAN else ''))


def _state_clone(fam: lazy.Family, mod: Module, fn: T.Any, acc: lazy.Access) -> T.Optional[T.Tuple[str, str]]:
    """A read of the unflushed self._container that is one third of a *state transfer*: `N = <family constructor>(..., copy of
    self._container)` followed, on every path to the return of N, by `N.pre = <copy of self.pre>` and `N.post = <copy of
    self.post>` - the new object is as unflushed as self, nothing is lost (whether the override flag travels with the
    queues is R8's clause).  ('ok'|'undecided', text), or None when this is not such a transfer (the finding stands)."""
    if acc.key != 'self' or not isinstance(acc.node.ctx, ast.Load):
        return None
    site: T.Optional[ast.stmt] = None
    for n in walk_no_nested(fn, include_root=False):
        if isinstance(n, (ast.Assign, ast.AnnAssign)) and getattr(n, 'value', None) is not None and isinstance(n.value, ast.Call):
            tg = n.targets[0] if isinstance(n, ast.Assign) and len(n.targets) == 1 else getattr(n, 'target', None)
            call = n.value
            is_ctor = norm(call.func) in ('type(self)', 'self.__class__') or fam.resolve_member(mod, attr_chain(call.func) or '?') is not None
            if isinstance(tg, ast.Name) and is_ctor and any(x is acc.node for a in list(call.args) + [k.value for k in call.keywords] for x in ast.walk(a)):
                site = n
    if site is None:
        return None
    new = (site.targets[0] if isinstance(site, ast.Assign) else site.target).id  # type: ignore[attr-defined,union-attr]
    paths = [p for p in enumerate_paths(fn.body, unroll=1) if any(ev.kind == 'stmt' and ev.node is site for ev in p.events)]
    if not paths:
        return None
    odd = ''
    for p in paths:
        moved: T.Set[str] = set()
        after = False
        for ev in p.events:
            e = ev.node
            if ev.kind == 'stmt' and e is site:
                after = True
                continue
            if not after or ev.kind == 'cond' or e is None:
                continue
            if ev.kind != 'stmt':
                odd = odd or short(e, 50)
                continue
            if isinstance(e, ast.Return):
                if p.outcome != 'return' or attr_chain(e.value) != new:
                    odd = odd or short(e, 50)
                continue
            pairs: T.List[T.Tuple[ast.AST, ast.AST]] = []
            if isinstance(e, ast.Assign) and len(e.targets) == 1:
                t0 = e.targets[0]
                pairs = list(zip(t0.elts, e.value.elts)) if isinstance(t0, ast.Tuple) and isinstance(e.value, ast.Tuple) and len(t0.elts) == len(e.value.elts) else [(t0, e.value)]
            elif isinstance(e, ast.AnnAssign) and e.value is not None:
                pairs = [(e.target, e.value)]
            if not pairs:
                odd = odd or short(e, 50)
            for t, v in pairs:
                if isinstance(t, ast.Attribute) and attr_chain(t.value) == new and t.attr in lazy.QUEUES:
                    src = lazy._queue_copy_of(v)
                    if src is not None and attr_chain(src.value) == 'self' and src.attr == t.attr and not (isinstance(v, ast.Call) and attr_chain(v.func) in ('reversed', 'iter')):
                        moved.add(t.attr)
                    else:
                        odd = odd or short(e, 50)
                elif isinstance(t, ast.Attribute) and attr_chain(t.value) == new and t.attr == state.FLAG:
                    continue
                else:
                    odd = odd or short(e, 50)
        if p.outcome != 'return':
            odd = odd or 'a path that does not return the new object'
        if moved != set(lazy.QUEUES):
            return None         # a queue is left behind: the read misses its entries
    if odd:
        return ('undecided', f'state transfer to `{new}` (both queues copied) mixed with `{odd}`')
    return ('ok', f'state transfer: _container, pre and post of self are all copied into the new object on {len(paths)} path(s)')


def _builtin_example(ctx: RuleCtx, fam2: lazy.Family) -> None:
    mod = Module(ctx.repo, EXAMPLE_REL, EXAMPLE)   # parsed in memory, never written
    for name, want in EXAMPLE_WANT.items():
        if name == 'peek_copy':
            # what a copy of a possibly unflushed list is, is the repository's business (summary of copy()); the example
            # only shows that the summary reaches the access
            sm = fam2.summary(fam2.cls_key(*fam2.root), 'copy')
            if sm is None:
                continue
            want = [sm.ret[1][0]]
        an = lazy.Analysis(fam2, mod, mod.func(name), name, None).run()
        got = [a.status[0] for a in an.accesses]
        if got != want:
            raise AnalysisError(f'built-in example {name}: expected the accesses to be {[lazy.LEVEL[w] for w in want]}, analysis says {[lazy.LEVEL[g] for g in got]}')
    ctx.note(f'built-in example: {len(EXAMPLE_WANT)} synthetic accessors classified as expected (dirty/clean/re-queued/copy/captured handle in a loop)')


def r1(ctx: RuleCtx) -> None:
    repo = ctx.repo
    fam = family(repo)
    ctx.note(f'family: {[f"{m.rel}:{c.name}" for m, c in fam.members]}; method summaries converged in {fam.rounds} round(s)')
    ctx.floor('classes in the argument-list family', len(fam.members), 1)
    root_key = fam.cls_key(*fam.root)
    dirtying = sorted(m for (ck, m), s in fam.summaries.items() if ck == root_key and s.exit_self[0][0] == lazy.DIRTY)
    cleaning = sorted(m for (ck, m), s in fam.summaries.items() if ck == root_key and s.exit_self[1][0] == lazy.CLEAN)
    ctx.note(f'summaries ({ROOT}): leave entries pending: {dirtying}; end flushed: {cleaning}')
    for need in ('__iadd__', 'append', 'extend'):
        # (an operation the family does not define is read through the documented MutableSequence mixin: fam.summary)
        if need != '__iadd__' and fam.find(root_key, need) is None:
            continue        # inherited from MutableSequence: R9 reports it; the typestate reads the documented mixin
        sm = fam.summary(root_key, need)
        if sm is None or sm.exit_self[0][0] != lazy.DIRTY:
            raise Undecided(f'{ROOT}.{need} is not recognised as queueing into pre/post (summaries: {dirtying})')
    inherited = {n: r for n, r in fam.roles.items() if n not in ('__init__', lazy.FLUSH) + lazy.DESIGN_READERS}
    if inherited:
        ctx.note(f'private helpers that inherit a role through the call graph (only called as self.helper() from methods of that role): {inherited}')
    _builtin_example(ctx, fam)

    funcs = _accessing_functions(repo)
    undecided: T.List[str] = []
    n_acc = 0
    n_fn = 0
    for mod, qraw, fn in funcs:
        qn = qraw.split('#')[0]      # overload stubs are indexed name#n by the engine
        cls_key = None
        foreign = False
        if '.' in qn:
            cq = qn.rsplit('.', 1)[0]
            if mod.has_cls(cq):
                c = mod.cls(cq)
                hit = [(m, x) for m, x in fam.members if x is c]
                if hit:
                    cls_key = fam.cls_key(*hit[0])
                else:
                    foreign = True
        an = lazy.Analysis(fam, mod, fn, qn, cls_key).run()  # type: ignore[arg-type]
        n_fn += 1
        design: T.List[lazy.Access] = []
        for a in an.accesses:
            if foreign and a.key == 'self':
                ctx.note(f'{mod.rel}: {qn}: {norm(a.node)} belongs to a class outside the family, not a lazy list')
                continue
            n_acc += 1
            what = f'{mod.rel}: {qn}: {norm(a.node)} in `{short(a.top, 60)}`'
            if a.exempt:
                ctx.ok(f'{what}: by design ({"initialisation" if a.exempt == "init" else "the flush itself"})', nontrivial=False)
            elif a.status[0] == lazy.CLEAN:
                ctx.ok(f'{what}: flushed on every path ({a.status[1]})')
            elif a.status[0] == lazy.UNKNOWN:
                undecided.append(f'{what}: {a.status[1]}')
            elif cls_key is not None and a.key == 'self' and an.role == 'design' and isinstance(a.node.ctx, ast.Load):
                design.append(a)
            else:
                sc = _state_clone(fam, mod, fn, a) if cls_key is not None else None
                if sc is not None and sc[0] == 'ok':
                    ctx.ok(f'{what}: {sc[1]}')
                    continue
                if sc is not None:
                    undecided.append(f'{what}: {sc[1]}')
                    continue
                cc = _caller_context(fam, mod, fn, qn, cls_key, a)
                if cc is not None and cc[0] == lazy.CLEAN:
                    ctx.ok(f'{what}: private helper, every caller hands over a flushed list ({cc[1]})')
                    continue
                if cc is not None and cc[0] == lazy.UNKNOWN:
                    undecided.append(f'{what}: private helper, state of the argument at a call site is unknown ({cc[1]})')
                    continue
                ctx.violation(mod, qn, a.node,
                              f'{norm(a.node)} is {"written" if not isinstance(a.node.ctx, ast.Load) else "read"} in `{short(a.top, 90)}` while `{a.key}` may hold unflushed '
                              f'pre/post entries: {a.status[1]}; no {a.key}.flush_pre_post() on that path', a.node)
        if design:
            _by_design(ctx, mod, qn, fn, design)
    ctx.floor('functions touching _container', n_fn, 1)
    ctx.floor('_container accesses', n_acc, 1)
    if undecided:
        raise Undecided('; '.join(undecided[:4]))


# ---------------------------------------------------------------------------------------------------------------
# R5: a method that works on `X = self.copy() if flag else self` must not change `self` by name (to_native(copy=True)
#     is a read: "reads and copies in between" must leave the list as it was)
# ---------------------------------------------------------------------------------------------------------------
ABC_MUTATORS = {'pop', 'remove', 'clear', 'reverse', 'sort', 'append', 'extend', 'insert', '__iadd__', '__setitem__', '__delitem__'}
LIST_MUTATORS = {'append', 'extend', 'insert', 'pop', 'remove', 'clear', 'sort', 'reverse', 'appendleft', 'extendleft', 'popleft', '__setitem__', '__delitem__'}


def _mutating_methods(fam: lazy.Family) -> T.Dict[T.Tuple[str, str], bool]:
    """(class key, method) -> does calling it change the logical content of self?  Fixpoint over the call graph; the flush
    (and helpers that inherit its role) only changes the representation."""
    mut: T.Dict[T.Tuple[str, str], bool] = {}
    keys = [fam.cls_key(m, c) for m, c in fam.members]

    def direct(fn: T.Any) -> bool:
        for n in walk_no_nested(fn, include_root=False):
            if isinstance(n, ast.Attribute) and attr_chain(n.value) == 'self' and n.attr in STORES and isinstance(n.ctx, (ast.Store, ast.Del)):
                return True
            if isinstance(n, ast.Subscript) and isinstance(n.ctx, (ast.Store, ast.Del)) and attr_chain(n.value) in ('self', 'self._container', 'self.pre', 'self.post'):
                return True
            if isinstance(n, ast.AugAssign) and attr_chain(n.target) in ('self', 'self._container', 'self.pre', 'self.post'):
                return True
            if isinstance(n, ast.Call) and isinstance(n.func, ast.Attribute) and attr_chain(n.func.value) in ('self._container', 'self.pre', 'self.post') \
                    and n.func.attr in LIST_MUTATORS:
                return True
        return False
    for _ in range(8):
        changed = False
        for ck in keys:
            for meth in fam.all_methods(ck):
                found = fam.find(ck, meth)
                if found is None or fam.roles.get(meth) == 'flush':
                    continue
                fn = found[2]
                val = direct(fn)
                if not val:
                    for n in walk_no_nested(fn, include_root=False):
                        if isinstance(n, ast.Call) and isinstance(n.func, ast.Attribute) and attr_chain(n.func.value) == 'self':
                            callee = n.func.attr
                            if fam.roles.get(callee) == 'flush':
                                continue
                            if fam.find(ck, callee) is not None:
                                val = val or mut.get((ck, callee), False)
                            elif callee in ABC_MUTATORS:
                                val = True
                if mut.get((ck, meth), False) != val and val:
                    mut[(ck, meth)] = True
                    changed = True
                mut.setdefault((ck, meth), val)
        if not changed:
            break
    return mut


def r5(ctx: RuleCtx) -> None:
    fam = family(ctx.repo)
    mut = _mutating_methods(fam)
    n_sel = 0
    consuming: T.List[cons.Spec] = []
    all_specs: T.Dict[str, T.List[T.Any]] = {}
    for m, c in fam.members:
        ck = fam.cls_key(m, c)
        for st in c.body:
            if not isinstance(st, (ast.FunctionDef, ast.AsyncFunctionDef)):
                continue
            qn = f'{c.name}.{st.name}'
            an = lazy.Analysis(fam, m, st, qn, ck)
            # a local that is bound to `self` on one arm and to a fresh copy of self on another
            srcs: T.Dict[str, T.Set[str]] = {}
            for a_, b_ in an._assign_pairs():
                srcs.setdefault(a_, set()).add(b_ or '?')
            selected = sorted(x for x, v in srcs.items() if 'self' in v and any(y == '<recv>self' for y in v))
            if not selected:
                continue
            n_sel += 1
            bad: T.List[T.Tuple[ast.AST, str]] = []
            for n in walk_no_nested(st, include_root=False):
                why = None
                if isinstance(n, ast.Call) and isinstance(n.func, ast.Attribute) and attr_chain(n.func.value) == 'self':
                    callee = n.func.attr
                    if fam.roles.get(callee) == 'flush' or callee == 'copy':
                        continue
                    if fam.find(ck, callee) is not None:
                        if mut.get((ck, callee), False):
                            why = f'self.{callee}(...) changes the list'
                    elif callee in ABC_MUTATORS:
                        why = f'self.{callee}(...) (MutableSequence) changes the list'
                    elif callee.startswith('__') or callee in lazy.ABC_MIXINS:
                        continue
                    else:
                        raise Undecided(f'{qn}: self.{callee}(...) cannot be resolved; cannot tell whether it changes self')
                elif isinstance(n, ast.AugAssign) and attr_chain(n.target) == 'self':
                    why = '`self += ...`'
                elif isinstance(n, ast.Subscript) and isinstance(n.ctx, (ast.Store, ast.Del)) and attr_chain(n.value) == 'self':
                    why = 'item assignment/deletion on self'
                elif isinstance(n, ast.Attribute) and attr_chain(n.value) == 'self' and n.attr == lazy.STORE and isinstance(n.ctx, (ast.Store, ast.Del)):
                    why = 'self._container is replaced'
                elif isinstance(n, ast.Call) and isinstance(n.func, ast.Attribute) and attr_chain(n.func.value) == 'self._container' and n.func.attr in LIST_MUTATORS:
                    why = f'self._container.{n.func.attr}(...)'
                if why:
                    bad.append((n, why))
            for n, why in bad:
                ctx.violation(m, qn, n, f'{qn} works on `{selected[0]}`, which is a copy of self when a copy was asked for, but {why} by name: '
                              f'with the copy requested the original list is modified (and `{selected[0]}` is not)', n)
            if not bad:
                ctx.ok(f'{m.rel}: {qn}: all changes go through `{selected[0]}` (self or its copy), none is applied to self by name')
            # caller side: is the receiver itself changed when no copy is requested?
            fs = cons.flag_spec(st, selected[0], qn)
            all_specs.setdefault(st.name, []).append((qn, fs))
            if fs is not None:
                chg = cons.changes_through(st, selected[0], lambda mname, ck=ck: mname in ABC_MUTATORS or mut.get((ck, mname), False))
                if chg is not None:
                    consuming.append(cons.Spec(st.name, fs[0], fs[1], fs[2], fs[3], f'{qn} ({short(chg, 50)})', c.name))
    if n_sel == 0:
        raise Undecided('no method selects between self and a copy of self; the copy-isolation clause has nothing to read')
    ctx.floor('methods that select between self and a copy', n_sel, 1)
    _r5_callers(ctx, fam, consuming, all_specs)


CONSUME_EXAMPLE = '''
def twice(a: CompilerArgs, elem):
    elem.line = a.to_native()
    return tuple(a)

def through_param(a: CompilerArgs, elem):
    sink(elem, a)
    return a.to_native(copy=True)

def sink(elem, args):
    elem.line = args.to_native()

def copied(a: CompilerArgs):
    x = a.to_native(copy=True)
    return x, list(a)

def rebound(a: CompilerArgs):
    a = a.to_native()
    return a

def last_use(a: CompilerArgs, elem):
    key = tuple(a)
    sink(elem, a)
'''
CONSUME_WANT = {'twice': 1, 'through_param': 1, 'sink': 0, 'copied': 0, 'rebound': 0, 'last_use': 0}


def _consume_scan(mods: T.List[T.Tuple[T.Optional[Module], T.Dict[str, T.Any]]], specs: T.Dict[str, 'cons.Spec'], fam_names: T.Set[str], oracle: T.Optional['cons.ClassOracle'] = None,
                  ) -> T.Tuple[T.List[T.Tuple[T.Optional[Module], 'cons.Hit']], T.Dict[str, int], T.List[str]]:
    """Typestate consumed-after-native over the given (module, {qualname: fn}) sets.  Returns hits, counters, undecided notes."""
    # index of definitions by bare name (per module first, then package-wide)
    defs: T.Dict[str, T.List[T.Tuple[int, str, T.Any]]] = {}
    for mi, (_m, fns) in enumerate(mods):
        for q, fn in fns.items():
            defs.setdefault(fn.name, []).append((mi, q, fn))

    def resolve(mi: int, name: str) -> T.List[T.Tuple[int, str, T.Any]]:
        ds = defs.get(name, [])
        own = [d for d in ds if d[0] == mi]
        return own or ds

    rxf = re.compile(r'\b(' + '|'.join(sorted(map(re.escape, fam_names))) + r')\b')

    def returns_family(mi: int) -> T.Callable[[ast.Call], bool]:
        def f(call: ast.Call) -> bool:
            nm = call.func.attr if isinstance(call.func, ast.Attribute) else (call.func.id if isinstance(call.func, ast.Name) else None)
            if nm is None:
                return False
            if nm in fam_names:
                return True
            return any(d[2].returns is not None and rxf.search(ast.unparse(d[2].returns)) for d in resolve(mi, nm))
        return f

    summ: T.Dict[T.Tuple[int, str], T.Set[T.Tuple[str, int]]] = {}      # (module index, qualname) -> consumed params
    notes: T.List[str] = []
    counts = {'direct': 0, 'via_param': 0, 'temporary': 0, 'copied': 0, 'unknown_arg': 0, 'unknown_class': 0, 'never': 0, 'render_calls': 0}
    unknown_why: T.List[str] = []
    hits: T.List[T.Tuple[T.Optional[Module], cons.Hit]] = []

    calls_cache: T.Dict[T.Tuple[int, str], T.List[T.Tuple[ast.Call, str]]] = {}

    def events(mi: int, q: str, fn: T.Any) -> T.List[T.Tuple[ast.Call, ast.AST, str, bool]]:
        """(call, consumed expression, description, direct?)"""
        out = []
        if (mi, q) not in calls_cache:
            cl = []
            for n in walk_no_nested(fn, include_root=False):
                if isinstance(n, ast.Call):
                    nm = n.func.attr if isinstance(n.func, ast.Attribute) else (n.func.id if isinstance(n.func, ast.Name) else None)
                    if nm is not None and (nm in specs or nm in defs):
                        cl.append((n, nm))
            calls_cache[(mi, q)] = cl
        for n, nm in calls_cache[(mi, q)]:
            if isinstance(n.func, ast.Attribute) and nm in specs:
                sp = specs[nm]
                fv = cons.flag_value(n, sp)
                if fv is None:
                    notes.append(f'{q}: `{short(n, 50)}`: the flag `{sp.flag}` is not a constant')
                    continue
                if fv != sp.consumes_when:
                    out.append((n, n.func.value, 'copy', True))
                    continue
                out.append((n, n.func.value, f'rendered by .{nm}() without a copy', True))
            elif nm is not None:
                for dmi, dq, dfn in resolve(mi, nm):
                    for pname, ppos in sorted(summ.get((dmi, dq), ())):
                        a = cons.arg_for(n, pname, ppos)
                        if a is not None:
                            out.append((n, a, f'handed to {dfn.name}(.. {pname} ..), which renders it without a copy', False))
        return out

    views: T.Dict[T.Tuple[int, str], cons.FnView] = {}
    for _round in range(5):
        grew = False
        for mi, (_m, fns) in enumerate(mods):
            for q, fn in fns.items():
                is_meth = '.' in q and fn.args.args and fn.args.args[0].arg in ('self', 'cls')
                ppos = cons.param_pos(fn, bool(is_meth))
                for call, obj, how, _d in events(mi, q, fn):
                    if how == 'copy' or not isinstance(obj, ast.Name) or obj.id not in ppos:
                        continue
                    view = views.setdefault((mi, q), cons.FnView(q, fn))
                    cns = view.cfg.node_containing(call)
                    kills = [k for k in view.cfg.nodes if view._stores(k.expr(), obj.id, k.kind, k.ast)]
                    if any(view.cfg.can_reach(view.cfg.entry, c, [k for k in kills if k.id != c.id]) for c in cns):
                        s = summ.setdefault((mi, q), set())
                        if (obj.id, ppos[obj.id]) not in s:
                            s.add((obj.id, ppos[obj.id]))
                            grew = True
        if not grew:
            break
    else:
        raise Undecided('consumed-parameter summaries did not stabilise')

    direct_meths = set(specs)
    for mi, (m, fns) in enumerate(mods):
        for q, fn in fns.items():
            view = None
            for call, obj, how, direct in events(mi, q, fn):
                if direct:
                    counts['render_calls'] += 1
                if how == 'copy':
                    counts['copied'] += 1
                    continue
                if isinstance(obj, ast.Call) or isinstance(obj, (ast.BinOp, ast.List, ast.ListComp, ast.Constant, ast.JoinedStr, ast.Starred)):
                    counts['temporary'] += 1
                    continue
                root = cons._root_name(obj)
                if root is None:
                    notes.append(f'{q}: consumed expression `{short(obj, 50)}` has no local root')
                    continue
                if not direct:
                    ev = cons.family_evidence(fn, root, fam_names, returns_family(mi), direct_meths) if isinstance(obj, ast.Name) else None
                    if ev is None:
                        counts['unknown_arg'] += 1
                        continue
                if oracle is not None and isinstance(obj, ast.Name):
                    vd, why = oracle.verdict(fn, obj.id, lambda nm, mi=mi: [d[2] for d in resolve(mi, nm)])
                    if vd == 'never':
                        counts['never'] += 1
                        continue
                    if vd == 'unknown':
                        counts['unknown_class'] += 1
                        unknown_why.append(f'{q}: `{obj.id}` ({why})')
                        continue
                counts['direct' if direct else 'via_param'] += 1
                view = view or views.setdefault((mi, q), cons.FnView(q, fn))
                for rd, what in view.reads_after(call, obj):
                    hits.append((m, cons.Hit(cons.Site(q, call, obj, how), rd, what)))
    counts['unknown_why'] = unknown_why     # type: ignore[assignment]
    counts['summaries'] = len(summ)
    return hits, counts, notes


def _r5_callers(ctx: RuleCtx, fam: lazy.Family, consuming: T.List['cons.Spec'], all_specs: T.Dict[str, T.List[T.Any]]) -> None:
    """Typestate consumed-after-native (see c13_consume)."""
    if not consuming:
        ctx.ok('no self-or-copy method changes the list through the selected object: rendering never consumes its receiver')
        return
    specs: T.Dict[str, cons.Spec] = {}
    for sp in consuming:
        for qn, fs in all_specs.get(sp.meth, []):
            if fs is None or fs[:2] != (sp.flag, sp.pos) or fs[2] != sp.default or fs[3] != sp.consumes_when:
                raise Undecided(f'{qn} and {sp.where} disagree on the copy flag of {sp.meth}; a call site cannot be read without the receiver class')
        specs[sp.meth] = sp
    fam_names = {c.name for _m, c in fam.members}

    # built-in example
    ex_tree = ast.parse(CONSUME_EXAMPLE)
    ex_fns = {st.name: st for st in ex_tree.body if isinstance(st, ast.FunctionDef)}
    ex_spec = {'to_native': cons.Spec('to_native', 'copy', 0, False, False, 'example')}
    ex_hits, _c, ex_notes = _consume_scan([(None, ex_fns)], ex_spec, {'CompilerArgs'})
    got = {k: 0 for k in CONSUME_WANT}
    for _m, h in ex_hits:
        got[h.site.fn_q] += 1
    if got != CONSUME_WANT or ex_notes:
        raise AnalysisError(f'C13.R5 built-in consumed-after-native example: wanted {CONSUME_WANT}, got {got} {ex_notes}')
    ctx.note(f'built-in example: {len(CONSUME_WANT)} synthetic callers judged as expected (read after rendering / through a consuming parameter / copy / rebound / last use)')

    # the package: the modules that render (a consumed parameter is summarised and followed inside these modules)
    pat = re.compile('|'.join(r'\.' + re.escape(k) + r'\s*\(' for k in specs))
    rels = [rel for rel in ctx.repo.py_files('mesonbuild') if pat.search(ctx.repo.read(rel))]
    mods = []
    for rel in rels:
        m = ctx.repo.module(rel)
        mods.append((m, dict(m.funcs())))
    oracle = cons.ClassOracle(ctx.repo, fam.members, {sp.cls for sp in consuming}, set(specs))
    hits, counts, notes = _consume_scan(mods, specs, fam_names, oracle)
    seen: T.Set[T.Tuple[str, str, str]] = set()
    by_site: T.Dict[int, T.List[cons.Hit]] = {}
    for m, h in hits:
        key = (m.rel, h.site.fn_q, norm(h.read)[:200])
        if key in seen:
            continue
        seen.add(key)
        sp_where = ', '.join(s.where for s in specs.values())
        ctx.violation(m, h.site.fn_q, f'{cons.shape(h.site.call, h.site.obj)[:120]} ; {cons.shape(h.read, h.site.obj)[:160]}',
                      f'{h.site.fn_q}: `{norm(h.site.obj)}` is {h.site.how} ({sp_where} changes its receiver when no copy is requested), and is read again '
                      f'{h.what}: `{short(h.read, 90)}` - the second reader sees the arguments the first rendering put in (e.g. a second --start-group/--end-group pair)',
                      h.read)
        by_site.setdefault(id(h.site.call), []).append(h)
    n_sites = counts['direct'] + counts['via_param']
    n_summ = counts['summaries']
    for _ in range(n_sites - len(by_site)):
        ctx.ok('a CompilerArgs object rendered without a copy is not read again on any path')
    for _ in range(counts['never']):
        ctx.ok('a rendering without a copy on an object whose declared class renders without changing its receiver')
    ctx.note(f'consuming renderings judged: {counts["direct"]} direct on a named object, {counts["via_param"]} through a consuming parameter; '
             f'{counts["never"]} on objects of a declared non-consuming class, {counts["temporary"]} on a temporary, {counts["copied"]} with a copy; not judged: '
             f'{counts["unknown_arg"]} arguments of consuming parameters without source-level evidence of being a CompilerArgs, '
             f'{counts["unknown_class"]} objects whose family class the source does not declare')
    for w in counts['unknown_why'][:12]:      # type: ignore[index]
        ctx.note('class not declared: ' + w)
    ctx.note(f'functions with a consumed parameter: {n_summ}')
    ctx.floor('call sites of the rendering method read in the package', counts['render_calls'], 8)
    if notes:
        raise Undecided('consumed-after-native: ' + '; '.join(notes[:4]))


# ---------------------------------------------------------------------------------------------------------------
# R6: `+` and reflected `+` are defined through `+=` on a fresh object (so the operand added last gets the
#     prepend/override/once-only treatment), never by splicing raw
# ---------------------------------------------------------------------------------------------------------------
def r6(ctx: RuleCtx) -> None:
    fam = family(ctx.repo)
    mod, root = fam.root
    for name, fresh_from, added in (('__add__', 'self', 'ARG'), ('__radd__', 'ARG', 'self')):
        found = fam.find(fam.cls_key(mod, root), name)
        if found is None:
            raise Undecided(f'{root.name}.{name} is not defined in the family')
        fm, fc, fn0 = found
        qn = f'{fc.name}.{name}'
        fn = tabs._inline(fm, fc.name, fn0)
        params = [a.arg for a in fn.args.args if a.arg != 'self']
        if len(params) != 1:
            raise Undecided(f'{qn}: expected one operand')
        other = params[0]
        role = {'self': 'self', 'ARG': other}
        paths = [p for p in enumerate_paths(fn.body, unroll=1) if p.outcome == 'return']
        if not paths:
            raise Undecided(f'{qn}: no returning path')
        n_ok = 0
        for p in paths:
            def fresh_from_operand(v: ast.AST) -> T.Optional[str]:
                if isinstance(v, ast.Call) and attr_chain(v.func) == 'self.copy' and not v.args:
                    return 'self'
                if isinstance(v, ast.Call) and (norm(v.func) == 'type(self)' or fam.resolve_member(fm, attr_chain(v.func) or '?')) and len(v.args) == 2 \
                        and attr_chain(v.args[1]) in ('self', other):
                    return 'self' if attr_chain(v.args[1]) == 'self' else 'ARG'
                return None
            rebound = {t.id for ev in p.events if ev.kind == 'stmt' and ev.node is not None for t in ast.walk(ev.node)
                       if isinstance(t, ast.Name) and isinstance(t.ctx, ast.Store)}
            if isinstance(p.value, ast.Name) and p.value.id in ('self', other) and p.value.id not in rebound:
                # the sum IS one of its operands: `x = a + b; x += c` also changes a (or b) - and the other way round
                ctx.violation(fm, qn, p.value, f'{qn} returns the {"left" if (p.value.id == "self") == (name == "__add__") else "right"} operand itself (`return {p.value.id}`) on the path '
                              f'[{p.describe()[:120]}]: the result of `+` must be a new object; a later += / append / insert on the sum would also change the operand '
                              '(and additions to the operand would show up in a sum taken earlier)', p.value)
                continue
            origin: T.Optional[str] = None
            if isinstance(p.value, ast.Name):
                r = p.value.id
            elif p.value is not None and fresh_from_operand(p.value) is not None:
                r = '<returned>'        # `return self.copy()` is read as `_r = self.copy(); return _r`
                origin = fresh_from_operand(p.value)
            else:
                raise Undecided(f'{qn}: returns `{short(p.value)}`, not a local holding the new object')
            added_ok = False
            # on a path that has established that the other operand is empty, adding it is the identity and may be left out
            empty_other = False
            raw: T.Optional[ast.AST] = None
            for ev in p.events:
                e = ev.node
                if ev.kind == 'cond':
                    if e is not None:
                        at, pol = tables_canon(e, bool(ev.val))
                        if at.kind == 'truth' and not pol and at.args[0] in ('self', other) and at.args[0] not in rebound:
                            empty_other = empty_other or at.args[0]
                    continue
                if ev.kind != 'stmt' or e is None:
                    raise Undecided(f'{qn}: `{short(e, 50)}` on the path is outside the reference vocabulary')
                if isinstance(e, ast.Return) or (isinstance(e, ast.Expr) and isinstance(e.value, ast.Constant)):
                    continue
                if isinstance(e, ast.Expr) and isinstance(e.value, ast.Call) and attr_chain(e.value.func) == f'self.{lazy.FLUSH}':
                    continue
                if isinstance(e, (ast.Assign, ast.AnnAssign)) and attr_chain(e.targets[0] if isinstance(e, ast.Assign) else e.target) == r and e.value is not None:
                    v = e.value
                    origin = fresh_from_operand(v)
                    if origin is None:
                        raise Undecided(f'{qn}: `{short(e, 60)}` is not a copy()/constructor of one operand')
                    added_ok = False
                    continue
                if isinstance(e, ast.AugAssign) and attr_chain(e.target) == r and isinstance(e.op, ast.Add):
                    if attr_chain(e.value) in ('self', other) and origin is not None and attr_chain(e.value) != role[origin]:
                        added_ok = True      # the operand the object was not built from (which one it was is judged below)
                        continue
                    raise Undecided(f'{qn}: `{short(e, 60)}` adds something else than the other operand')
                if isinstance(e, ast.Expr) and isinstance(e.value, ast.Call) and isinstance(e.value.func, ast.Attribute) and attr_chain(e.value.func.value) == r:
                    mname = e.value.func.attr
                    if mname == 'extend' and len(e.value.args) == 1 and attr_chain(e.value.args[0]) in ('self', other) and origin is not None \
                            and attr_chain(e.value.args[0]) != role[origin]:
                        added_ok = True
                        continue
                    if mname in ('insert', 'extend_direct', 'append_direct') or mname in LIST_MUTATORS:
                        raw = raw or e
                        continue
                if isinstance(e, (ast.Assign, ast.Delete)) and any(isinstance(t, ast.Subscript) and attr_chain(t.value) in (r, f'{r}._container') for t in getattr(e, 'targets', [])):
                    raw = raw or e
                    continue
                raise Undecided(f'{qn}: `{short(e, 60)}` on the path is outside the reference vocabulary')
            if origin is None:
                raise Undecided(f'{qn}: the returned `{r}` is not built on this path')
            if raw is not None and not added_ok:
                ctx.violation(fm, qn, raw, f'{qn} combines the operands with `{short(raw, 70)}`: a raw splice; the operand added last must go through `+=` so that its '
                              '-I/-L are put in front and override-type / once-only duplicates are resolved', raw)
                continue
            if origin != fresh_from:
                ctx.violation(fm, qn, p.value, f'{qn} starts from a copy of the {"right" if origin == "ARG" else "left"} operand and adds the other one: the operand order of '
                              f'`{"list + args" if name == "__radd__" else "args + list"}` is reversed', fn0)
                continue
            if not added_ok and not (empty_other and empty_other != role[origin]):
                raise Undecided(f'{qn}: the other operand is never added on a returning path')
            n_ok += 1
        if n_ok == len(paths):
            ctx.ok(f'{fm.rel}: {qn}: fresh object from {"self" if fresh_from == "self" else "the left list"}, then `+=` of the other operand, on all {len(paths)} path(s)')
    _flavour(ctx, fam)


def _flavour(ctx: RuleCtx, fam: lazy.Family) -> None:
    """R6, second clause: an object derived from `self` (copy, +) keeps the flavour of self - it is built with
    type(self) / self.__class__ / cls, never with the literal name of a class that has subclasses in the family."""
    n_dyn = 0
    for m, c in fam.members:
        subclasses = [c2.name for m2, c2 in fam.members if c2 is not c and any(x[1] is c for x in fam.mro(fam.cls_key(m2, c2))[1:])]
        for st in c.body:
            if not isinstance(st, (ast.FunctionDef, ast.AsyncFunctionDef)):
                continue
            params = [a.arg for a in st.args.posonlyargs + st.args.args]
            if params[:1] != ['self'] or any(attr_chain(d) in ('staticmethod', 'classmethod') for d in st.decorator_list):
                continue
            qn = f'{c.name}.{st.name}'
            # locals bound to the dynamic class: k = type(self) / self.__class__
            dyn = {'cls'}
            for n in walk_no_nested(st, include_root=False):
                if isinstance(n, ast.Assign) and len(n.targets) == 1 and isinstance(n.targets[0], ast.Name) and norm(n.value) in ('type(self)', 'self.__class__'):
                    dyn.add(n.targets[0].id)
            for n in walk_no_nested(st, include_root=False):
                if not isinstance(n, ast.Call):
                    continue
                f = n.func
                if norm(f) in ('type(self)', 'self.__class__') or (isinstance(f, ast.Name) and f.id in dyn and f.id != 'cls'):
                    n_dyn += 1
                    continue
                name = attr_chain(f)
                if name is None or name.split('.')[0] in ('self', 'cls'):
                    continue
                ck = fam.resolve_member(m, name)
                if ck is None:
                    continue
                lit = fam.member(ck)[1]
                lit_subs = [c2.name for m2, c2 in fam.members if c2 is not lit and any(x[1] is lit for x in fam.mro(fam.cls_key(m2, c2))[1:])]
                uses_self = any(attr_chain(x) == 'self' or (attr_chain(x) or '').startswith('self.') for a in list(n.args) + [k.value for k in n.keywords] for x in ast.walk(a))
                if lit_subs and uses_self:
                    ctx.violation(m, qn, n, f'{qn} builds `{short(n, 70)}` from self with the literal class {lit.name}; for a {"/".join(lit_subs)} the result is a plain '
                                  f'{lit.name} with other prepend/dedup tables: later additions to the copy are no longer prepended, overridden or de-duplicated', n)
        del subclasses
    if n_dyn:
        ctx.ok(f'objects derived from self are built with the dynamic class (type(self)/self.__class__) at {n_dyn} site(s); no literal family class with subclasses is instantiated from self')
    else:
        raise Undecided('no constructor call through type(self)/self.__class__ found in the family; cannot read how copies are built')


# ---------------------------------------------------------------------------------------------------------------
# R7: the flushed list is owned by the object: whatever is stored in X._container is a list created for it (a copy, a display,
#     a list built locally), never the caller's own list - otherwise in-place merges leak into other argument lists
# ---------------------------------------------------------------------------------------------------------------
FRESH_CALLS = {'list', 'sorted', 'collections.deque', 'deque', 'copy.copy', 'copy.deepcopy'}


def r7(ctx: RuleCtx) -> None:
    fam = family(ctx.repo)
    n_store = 0
    for m, c in fam.members:
        for st0 in c.body:
            if not isinstance(st0, (ast.FunctionDef, ast.AsyncFunctionDef)):
                continue
            if not any(isinstance(n, ast.Attribute) and n.attr == lazy.STORE and isinstance(n.ctx, ast.Store) for n in walk_no_nested(st0, include_root=False)):
                continue
            qn = f'{c.name}.{st0.name}'
            fn = tabs._inline(m, c.name, st0)
            params = {a.arg for a in fn.args.posonlyargs + fn.args.args + fn.args.kwonlyargs}
            paths = enumerate_paths(fn.body, unroll=1)
            verdicts: T.Dict[str, T.Tuple[str, ast.AST, ast.AST, str]] = {}
            for p in paths:
                env: T.Dict[str, str] = {x: 'caller' for x in params}       # name -> fresh | caller | unknown

                def kind(e: ast.AST) -> str:
                    if isinstance(e, (ast.List, ast.ListComp)):
                        return 'fresh'
                    if isinstance(e, ast.BinOp) and isinstance(e.op, ast.Add):
                        return 'fresh'
                    if isinstance(e, ast.Call):
                        if attr_chain(e.func) in FRESH_CALLS:
                            return 'fresh'
                        if isinstance(e.func, ast.Attribute) and e.func.attr == 'copy' and not e.args:
                            return 'fresh'
                        return 'unknown'
                    if isinstance(e, ast.Subscript) and isinstance(e.slice, ast.Slice):
                        return 'fresh'
                    if isinstance(e, ast.IfExp):
                        ks = {kind(e.body), kind(e.orelse)}
                        return 'caller' if 'caller' in ks else 'unknown' if 'unknown' in ks else 'fresh'
                    if isinstance(e, ast.Name):
                        return env.get(e.id, 'unknown')
                    if isinstance(e, ast.Attribute) and e.attr == lazy.STORE:
                        return 'caller'          # another object's own list
                    return 'unknown'
                for ev in p.events:
                    e = ev.node
                    if ev.kind == 'iter' and e is not None:
                        for x in ast.walk(e.target):
                            if isinstance(x, ast.Name):
                                env[x.id] = 'unknown'
                    if ev.kind != 'stmt' or e is None:
                        continue
                    tg: T.List[ast.AST] = []
                    val: T.Optional[ast.AST] = None
                    if isinstance(e, ast.Assign):
                        tg, val = list(e.targets), e.value
                    elif isinstance(e, ast.AnnAssign) and e.value is not None:
                        tg, val = [e.target], e.value
                    if val is None:
                        continue
                    pairs: T.List[T.Tuple[ast.AST, ast.AST]] = []
                    for t in tg:
                        if isinstance(t, (ast.Tuple, ast.List)) and isinstance(val, (ast.Tuple, ast.List)) and len(t.elts) == len(val.elts):
                            pairs += list(zip(t.elts, val.elts))
                        else:
                            pairs.append((t, val))
                    kinds = [(t, v, kind(v)) for t, v in pairs]
                    for t, v, k in kinds:
                        if isinstance(t, ast.Name):
                            env[t.id] = k
                        elif isinstance(t, ast.Attribute) and t.attr == lazy.STORE and attr_chain(t.value) is not None:
                            key = norm(e)
                            if k == 'unknown':
                                raise Undecided(f'{qn}: cannot tell whether `{short(v, 60)}` stored in {norm(t)} is a list created for this object')
                            prev = verdicts.get(key)
                            if prev is None or (k == 'caller' and prev[0] != 'caller'):
                                verdicts[key] = (k, t, e, p.describe()[:120])
            for key, (k, t, e, where) in verdicts.items():
                n_store += 1
                if k == 'caller':
                    ctx.violation(m, qn, t, f'`{short(e, 80)}` stores a list that belongs to the caller (or to another argument list) in {norm(t)} on the path '
                                  f'[{where}]: in-place merges (flush fast path, insert, extend_direct) then change the caller\'s list and every '
                                  'other argument list built from it', e)
                else:
                    ctx.ok(f'{m.rel}: {qn}: `{short(e, 70)}` stores a list created for the object on all paths')
    if n_store == 0:
        raise Undecided('no assignment to _container found in the family')
    ctx.floor('assignments to _container', n_store, 1)


RULES = [
    Rule('C13.R1', 'flush before access (receiver-sensitive typestate)', r1),
    Rule('C13.R2', 'classification tables: _can_dedup order and C-like tables', tabs.r2),
    Rule('C13.R3', 'merge polarity of flush_pre_post / __iadd__', tabs.r3),
    Rule('C13.R4', 'extend_preserving_lflags: only -l/-L outside always_dedup_args bypass de-duplication', tabs.r4),
    Rule('C13.R5', 'copy isolation: a method working on self-or-copy never changes self by name', r5),
    Rule('C13.R6', '+ and reflected + are defined through += on a fresh object of the same flavour', r6),
    Rule('C13.R7', 'the flushed list is owned: _container is never the caller\'s list', r7),
    Rule('C13.R8', 'pending state is one unit: entries put into pre/post outside the classified writer come with the override flag', state.r8),
    Rule('C13.R9', 'a batch stays a batch: extend is the family\'s own and nothing forwards a batch element by element', state.r9),
]
