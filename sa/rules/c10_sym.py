"""Helpers of the C10 pack.

1. Path-local symbolic naming.  `sa.tables.extract` inlines only single-definition
   locals (flow-insensitively) - `cached_dep` in `_get_cached_dep` has three
   definitions, `required` in `lookup` is read after `kwargs['required']` was
   rewritten.  Here every path of `sa.paths` gets its own reaching-definition
   environment: a local name is replaced by the expression that defined it *on that
   path* (loop variables become `each(<iterable>)`, tuple targets `value[i]`, `with x as y`
   names x), parameters become ARG1.., so that atoms, call arguments and returned
   values are compared as position- and spelling-free texts over `self.*`, parameters and
   calls.  Renaming or extracting locals and reordering independent statements do not
   change these texts.

2. `decide`: compare the rows of such a table with a reference on every world of the
   atoms; atoms outside the reference vocabulary are tolerated as long as the verdict
   does not depend on them (otherwise Undecided, never a violation).

3. `unguarded`: the guard analysis on `sa.cfg` used by R3 (nodes reachable from the
   entry without completing a guard call).
"""
from __future__ import annotations

import ast
import copy
import typing as T

from ..core import Undecided, norm, short, walk_no_nested, attr_chain
from ..cfg import CFG, Node
from ..paths import Path, Event, enumerate_paths
from .. import tables
from ..tables import Atom, Row, Table

Env = T.Dict[str, ast.AST]


def _bound(n: ast.AST) -> T.FrozenSet[str]:
    if isinstance(n, ast.Lambda):
        return frozenset(a.arg for a in n.args.args)
    out: T.Set[str] = set()
    for g in n.generators:  # type: ignore[attr-defined]
        out |= {x.id for x in ast.walk(g.target) if isinstance(x, ast.Name)}
    return frozenset(out)


_BINDERS = (ast.ListComp, ast.SetComp, ast.GeneratorExp, ast.DictComp, ast.Lambda)


def _subst(e: T.Any, env: Env, params: T.Dict[str, ast.AST], skip: T.FrozenSet[str]) -> T.Any:
    """Copy-on-write substitution of loaded names; AST nodes are treated as immutable and shared."""
    if isinstance(e, ast.Name):
        if not isinstance(e.ctx, ast.Load) or e.id in skip:
            return e
        r = env.get(e.id)
        if r is None:
            r = params.get(e.id)
        return e if r is None else r
    if isinstance(e, _BINDERS):
        skip = skip | _bound(e)
    changed = False
    vals: T.Dict[str, T.Any] = {}
    for f in e._fields:
        v = getattr(e, f, None)
        if isinstance(v, ast.AST):
            nv = _subst(v, env, params, skip)
            changed = changed or nv is not v
        elif isinstance(v, list):
            nv = []
            for x in v:
                nx = _subst(x, env, params, skip) if isinstance(x, ast.AST) else x
                changed = changed or nx is not x
                nv.append(nx)
        else:
            nv = v
        vals[f] = nv
    if not changed:
        return e
    return e.__class__(**vals)


def _beta(e: ast.AST) -> ast.AST:
    """`(lambda p, q: BODY)(a, b)` -> BODY[p:=a, q:=b]: a function-valued local that a path applies reads like the expression written in place
    (round 13).  Only plain positional parameters; left alone when an inner binder of BODY would capture a name of an argument."""
    if not any(isinstance(n, ast.Call) and isinstance(n.func, ast.Lambda) for n in ast.walk(e)):
        return e

    class B(ast.NodeTransformer):
        def visit_Call(self, c: ast.Call) -> ast.AST:
            self.generic_visit(c)
            f = c.func
            if not isinstance(f, ast.Lambda) or c.keywords or any(isinstance(a, ast.Starred) for a in c.args):
                return c
            a = f.args
            if a.vararg or a.kwarg or a.kwonlyargs or a.posonlyargs or a.defaults or len(a.args) != len(c.args):
                return c
            free = {n.id for x in c.args for n in ast.walk(x) if isinstance(n, ast.Name)}
            if any(isinstance(n, _BINDERS) and _bound(n) & free for n in ast.walk(f.body)):
                return c
            return T.cast(ast.AST, _subst(f.body, {p.arg: x for p, x in zip(a.args, c.args)}, {}, frozenset()))
    return T.cast(ast.AST, B().visit(copy.deepcopy(e)))


def each(it: ast.AST) -> ast.AST:
    return ast.Call(func=ast.Name(id='each', ctx=ast.Load()), args=[it], keywords=[])


def item(v: ast.AST, i: int) -> ast.AST:
    return ast.Subscript(value=v, slice=ast.Constant(value=i), ctx=ast.Load())


class SymPath:
    """One enumerated path with the reaching-definition environment before every event."""

    def __init__(self, fn: T.Union[ast.FunctionDef, ast.AsyncFunctionDef], path: Path):
        self.fn = fn
        self.path = path
        self.params = tables._param_map(fn)
        self._conds: T.Optional[T.List[T.Tuple[Atom, bool, int]]] = None
        self._calls: T.Optional[T.List[T.Tuple[ast.Call, ast.Call, int]]] = None
        self.envs: T.List[Env] = []
        env: Env = {}
        for ev in path.events:
            self.envs.append(env)
            env = self._step(env, ev)
        self.envs.append(env)

    # -- environment -----------------------------------------------------
    def _sym(self, e: ast.AST, env: Env) -> ast.AST:
        return _beta(T.cast(ast.AST, _subst(e, env, self.params, frozenset())))

    def _bind(self, env: Env, target: ast.AST, value: ast.AST) -> None:
        """value is already symbolic."""
        if isinstance(target, ast.Name):
            env[target.id] = value
        elif isinstance(target, (ast.Tuple, ast.List)):
            if isinstance(value, (ast.Tuple, ast.List)) and len(value.elts) == len(target.elts) \
                    and not any(isinstance(x, ast.Starred) for x in list(value.elts) + list(target.elts)):
                for t, v in zip(target.elts, value.elts):
                    self._bind(env, t, v)
            else:
                for i, t in enumerate(target.elts):
                    self._bind(env, t.value if isinstance(t, ast.Starred) else t, item(value, i))
        # attribute / subscript targets are state, not names: left symbolic as written

    def _step(self, env: Env, ev: Event) -> Env:
        n = ev.node
        if ev.kind == 'stmt' and isinstance(n, ast.Assign):
            env = dict(env)
            v = self._sym(n.value, env)
            for t in n.targets:
                self._bind(env, t, v)
        elif ev.kind == 'stmt' and isinstance(n, ast.AnnAssign) and n.value is not None:
            env = dict(env)
            self._bind(env, n.target, self._sym(n.value, env))
        elif ev.kind == 'stmt' and isinstance(n, ast.AugAssign) and isinstance(n.target, ast.Name):
            env = dict(env)
            old = self._sym(ast.Name(id=n.target.id, ctx=ast.Load()), env)
            env[n.target.id] = ast.BinOp(left=old, op=n.op, right=self._sym(n.value, env))
        elif ev.kind == 'iter' and ev.val == 'iter':
            env = dict(env)
            self._bind(env, n.target, each(self._sym(n.iter, env)))  # type: ignore[union-attr]
        elif ev.kind == 'with':
            env = dict(env)
            for i in n.items:  # type: ignore[union-attr]
                if i.optional_vars is not None:
                    self._bind(env, i.optional_vars, self._sym(i.context_expr, env))
        elif ev.kind == 'exc':
            h = ev.node
            if getattr(h, 'name', None):
                env = dict(env)
                env[h.name] = ast.Name(id='<exception>', ctx=ast.Load())  # type: ignore[union-attr]
        return env

    # -- views --------------------------------------------------------------
    def sym(self, e: ast.AST, at: int) -> ast.AST:
        return self._sym(e, self.envs[at])

    def text(self, e: ast.AST, at: int) -> str:
        return norm(self.sym(e, at))

    def conds(self, start: int = 0) -> T.List[T.Tuple[Atom, bool, int]]:
        if self._conds is None:
            self._conds = []
            for i, ev in enumerate(self.path.events):
                if ev.kind == 'cond':
                    a, v = tables.canon(self.sym(ev.node, i), ev.val)
                    self._conds.append((a, v, i))
        return [c for c in self._conds if c[2] >= start]

    def calls(self, start: int = 0) -> T.List[T.Tuple[ast.Call, ast.Call, int]]:
        """(original call, symbolic call, event index) in evaluation order."""
        if self._calls is None:
            self._calls = self._all_calls()
        return [c for c in self._calls if c[2] >= start]

    def _all_calls(self) -> T.List[T.Tuple[ast.Call, ast.Call, int]]:
        out: T.List[T.Tuple[ast.Call, ast.Call, int]] = []
        for i, ev in enumerate(self.path.events):
            n = ev.node
            if n is None or ev.kind == 'exc':
                continue
            if ev.kind == 'iter':
                if ev.val != 'iter':
                    continue
                roots: T.List[ast.AST] = [n.iter]  # type: ignore[union-attr]
            elif ev.kind == 'with':
                roots = [x.context_expr for x in n.items]  # type: ignore[union-attr]
            else:
                roots = [n]
            for r in roots:
                cs = [c for c in walk_no_nested(r) if isinstance(c, ast.Call)]
                cs.sort(key=lambda c: (c.end_lineno or 0, c.end_col_offset or 0))
                for c in cs:
                    out.append((c, T.cast(ast.Call, self.sym(c, i)), i))
        return out

    def stmts(self, start: int = 0) -> T.List[T.Tuple[ast.stmt, int]]:
        return [(T.cast(ast.stmt, ev.node), i) for i, ev in enumerate(self.path.events) if ev.kind == 'stmt' and i >= start]

    def first_iter(self, loop: ast.AST) -> T.Optional[int]:
        for i, ev in enumerate(self.path.events):
            if ev.kind == 'iter' and ev.node is loop and ev.val == 'iter':
                return i
        return None

    def entered(self, loop: ast.AST) -> bool:
        return any(ev.kind == 'iter' and ev.node is loop and ev.val == 'iter' for ev in self.path.events)

    def skipped_loops(self, start: int = 0) -> T.List[ast.AST]:
        """for-loops that this path left without a single iteration."""
        seen: T.List[ast.AST] = []
        out: T.List[ast.AST] = []
        for ev in self.path.events[start:]:
            if ev.kind == 'iter':
                if ev.val == 'iter':
                    seen.append(ev.node)  # type: ignore[arg-type]
                elif not any(x is ev.node for x in seen):
                    out.append(ev.node)  # type: ignore[arg-type]
        return out

    def left_early(self, start: int = 0) -> T.List[ast.AST]:
        """for-loops entered on this path (from event `start` on) and left by break/return/raise instead of exhaustion"""
        out: T.List[ast.AST] = []
        evs = self.path.events
        for i, ev in enumerate(evs):
            if i >= start and ev.kind == 'iter' and ev.val == 'iter':
                if not any(e2.kind == 'iter' and e2.node is ev.node and e2.val == 'done' for e2 in evs[i + 1:]):
                    out.append(ev.node)  # type: ignore[arg-type]
        return out

    def value(self) -> T.Optional[ast.AST]:
        """symbolic value of the return / raise that ends the path."""
        if self.path.value is None:
            return None
        return self._sym(self.path.value, self.envs[len(self.path.events) - 1] if self.path.events else {})

    def outcome(self) -> T.Tuple[str, str]:
        v = self.value()
        if self.path.outcome == 'raise':
            if v is None:
                return ('raise', '<reraise>')
            return ('raise', norm(v.func if isinstance(v, ast.Call) else v))
        if self.path.outcome == 'return':
            return ('return', norm(v) if v is not None else 'None')
        return (self.path.outcome, '')


_CACHE: T.Dict[T.Any, T.Tuple[T.Any, T.List[SymPath]]] = {}


def sympaths(fn: T.Union[ast.FunctionDef, ast.AsyncFunctionDef], body: T.Optional[T.List[ast.stmt]] = None,
             **kw: T.Any) -> T.List[SymPath]:
    key = (id(fn), len(body) if body is not None else -1, id(body[0]) if body else 0, tuple(sorted(kw.items())))
    if key not in _CACHE:
        if len(_CACHE) > 64:
            _CACHE.clear()
        _CACHE[key] = (fn, _sympaths(fn, body, **kw))     # fn is kept alive so that the id stays unique
    return _CACHE[key][1]


def _sympaths(fn: T.Union[ast.FunctionDef, ast.AsyncFunctionDef], body: T.Optional[T.List[ast.stmt]] = None,
              **kw: T.Any) -> T.List[SymPath]:
    has_try = any(isinstance(n, ast.Try) for st in (body if body is not None else fn.body) for n in walk_no_nested(st))
    kw.setdefault('handlers', has_try)
    return [SymPath(fn, p) for p in enumerate_paths(body if body is not None else fn.body, **kw)]


class SymRow(Row):
    def __init__(self, sp: SymPath, conds: T.Dict[Atom, bool], start: int = 0):
        super().__init__(conds, sp.outcome(), (), sp.path)
        self.sp = sp
        self.start = start

    def calls(self) -> T.List[T.Tuple[ast.Call, ast.Call, int]]:
        return self.sp.calls(self.start)

    def skipped(self) -> bool:
        return bool(self.sp.skipped_loops(self.start))


def symtable(fn: T.Union[ast.FunctionDef, ast.AsyncFunctionDef], name: str, body: T.Optional[T.List[ast.stmt]] = None,
             since: T.Optional[T.Callable[[SymPath], T.Optional[int]]] = None,
             drop: T.Optional[T.Callable[[Atom], bool]] = None, **kw: T.Any) -> Table:
    """`since(path)` -> index of the first event that belongs to the table (None: path not in the table).
    `drop(atom)`: facts the table is projected away from (the rows then fire whatever their value)."""
    rows: T.List[Row] = []
    seen: T.Set[str] = set()
    for sp in sympaths(fn, body, **kw):
        start = 0
        if since is not None:
            st = since(sp)
            if st is None:
                continue
            start = st
        conds: T.Dict[Atom, bool] = {}
        feasible = True
        for a, v, _ in sp.conds():
            if conds.setdefault(a, v) != v:
                feasible = False
                break
        if not feasible or any(a.kind == 'truth' and _const_truth(a.args[0]) not in (None, v) for a, v in conds.items()):
            continue      # contradictory, or `if x:` right after `x = None` on this path
        conds = {a: v for a, v, i in sp.conds() if i >= start and not (drop is not None and drop(a))}
        r = SymRow(sp, conds, start)
        key = repr(r) + '|' + repr([(id(ev.node), ev.val) for ev in sp.path.events[start:] if ev.kind != 'cond'])
        if key in seen:
            continue
        seen.add(key)
        rows.append(r)
    if not rows:
        raise Undecided(f'{name}: no feasible path')
    return Table(rows, name)


def decide(ctx: T.Any, mod: T.Any, qn: str, fn: ast.AST, tab: Table, sem: T.Dict[Atom, str],
           ref: T.Callable[[T.Dict[str, bool]], T.Any], got: T.Callable[[SymRow], T.Any], what: str,
           labels: T.Iterable[str] = ()) -> None:
    """For every world of the atoms of `tab`: every row that fires must give got(row) == ref(view).

    view = {label: truth} for the atoms named in `sem` (two atoms may share a label when they are
    spellings of one fact; worlds in which they disagree are skipped).  A label of the reference that
    no atom of the table carries (the code never tests that fact) still ranges over both values.
    ref -> None: world outside the reference's domain.  got -> None: the row says nothing (e.g. a loop
    that did not run).
    Mismatch policy: a violation is reported only when it cannot be due to a test the vocabulary does not
    understand: if the table has atoms outside the vocabulary and either a reference label is missing or
    rows that agree and rows that disagree share the projection and involve such atoms -> Undecided."""
    atoms = tab.atoms()
    unknown = [a for a in atoms if a not in sem and _const_truth(a.args[0] if a.kind == 'truth' else '') is None]
    verdicts: T.Dict[T.Tuple[T.Tuple[str, bool], ...], T.Dict[str, T.Any]] = {}
    memo: T.Dict[int, T.Any] = {}
    n = 0
    present = {sem[a] for a in atoms if a in sem}
    extra: T.List[Atom] = []
    missing: T.List[str] = []
    sem = dict(sem)
    for a, label in list(sem.items()):      # a fact the code never tests still ranges over both values
        if label not in present:
            present.add(label)
            extra.append(a)
            missing.append(label)
    for label in labels:
        if label not in present:
            present.add(label)
            a = Atom('truth', (f'<{label}>',))
            sem[a] = label
            extra.append(a)
            missing.append(label)
    for w in tab.worlds(extra):
        view: T.Dict[str, bool] = {}
        clash = False
        for a, label in sem.items():
            if a in w:
                if view.setdefault(label, w[a]) != w[a]:
                    clash = True
        if clash:
            continue
        want = ref(view)
        if want is None:
            continue
        key = tuple(sorted(view.items()))
        slot = verdicts.setdefault(key, {'ok': [], 'bad': []})
        for r in tab.fire(w):
            if id(r) not in memo:
                memo[id(r)] = got(T.cast(SymRow, r))
            g = memo[id(r)]
            if g is None:
                continue
            n += 1
            if g == want:
                slot['ok'].append(r)
            else:
                slot['bad'].append((r, g, want))
    if n == 0:
        raise Undecided(f'{qn}: no row fired in any world of the reference ({what})')
    bad_slots = {k: sl for k, sl in verdicts.items() if sl['bad']}
    if bad_slots and unknown:
        if missing:
            raise Undecided(f'{qn}: {what}: the code does not test {missing} in a recognised form and tests {unknown[:4]} which the reference does not know')
        for key, sl in bad_slots.items():
            rows = sl['ok'] + [x[0] for x in sl['bad']]
            if sl['ok'] and any(a in r.conds for r in rows for a in unknown):
                raise Undecided(f'{qn}: {what}: outcome depends on atoms outside the reference vocabulary {unknown[:4]} for {dict(key)}')
    reported: T.Set[str] = set()
    for key, sl in bad_slots.items():
        for r, g, want in sl['bad']:
            k = repr(r)
            if k in reported:
                continue
            reported.add(k)
            node = r.path.events[-1].node if r.path.events else fn
            ctx.violation(mod, qn, f'{what}: {short(k, 300)}', f'{what}: on path `{short(k, 260)}` the code gives {g!r}; reference requires {want!r} '
                          f'(world {dict(key)}{"; never tested: " + str(missing) if missing else ""})', node)
    if not reported:
        ctx.ok(f'{qn}: {what}: {len(tab.rows)} paths agree with the reference on {len(verdicts)} worlds of {sorted(set(sem.values()))}')


def _const_truth(text: str) -> T.Optional[bool]:
    try:
        e = ast.parse(text, mode='eval').body
    except SyntaxError:
        return None
    return bool(e.value) if isinstance(e, ast.Constant) else None


# -- guard analysis on the CFG ---------------------------------------------------

def unguarded(cfg: CFG, is_guard: T.Callable[[Node], bool]) -> T.Set[int]:
    """Ids of nodes that can start executing although no guard call has *completed*:
    reachable from the entry without following a normal (non-exception) edge out of a guard node.
    The guard node itself is included (it starts unguarded); what follows its normal exit is not."""
    guards: T.Dict[int, T.Any] = {}
    for n in cfg.nodes:
        g = is_guard(n)
        if g:
            guards[n.id] = g

    def follow(a: Node, b: Node, lab: T.Any) -> bool:
        g = guards.get(a.id)
        if g is None:
            return True
        if g in ('T', 'F'):            # an inline test: only its "allowed" edge is guarded
            return lab != (g == 'T')
        return lab == 'exc'
    return cfg.reachable([cfg.entry], edge_ok=follow, include_start=True)


def self_method_called(c: ast.Call) -> T.Optional[str]:
    ch = attr_chain(c.func)
    if ch and ch.startswith('self.') and ch.count('.') == 1:
        return ch.split('.')[1]
    return None


# -- helper inlining (extract-method refactorings) ------------------------------------------------

class _Rename(ast.NodeTransformer):
    def __init__(self, m: T.Dict[str, str]):
        self.m = m

    def visit_Name(self, n: ast.Name) -> ast.AST:
        return ast.copy_location(ast.Name(id=self.m[n.id], ctx=n.ctx), n) if n.id in self.m else n


def _bind_args(callee: ast.FunctionDef, call: ast.Call, ren: T.Dict[str, str]) -> T.Optional[T.List[ast.stmt]]:
    a = callee.args
    if a.vararg or a.kwarg or a.posonlyargs or any(isinstance(x, ast.Starred) for x in call.args) or any(k.arg is None for k in call.keywords):
        return None
    params = [p.arg for p in a.args]
    is_method = isinstance(call.func, ast.Attribute) and not any((attr_chain(d) or '') == 'staticmethod' for d in callee.decorator_list)
    if is_method:
        if not params or params[0] != 'self':
            return None
        params = params[1:]
    defaults: T.Dict[str, ast.AST] = dict(zip(reversed(params), reversed(a.defaults))) if a.defaults else {}
    for p, d in zip(a.kwonlyargs, a.kw_defaults):
        params.append(p.arg)
        if d is not None:
            defaults[p.arg] = d
    given: T.Dict[str, ast.AST] = {}
    if len(call.args) > len(a.args) - (1 if is_method else 0):
        return None
    for p, v in zip(params, call.args):
        given[p] = v
    for k in call.keywords:
        if k.arg not in params or k.arg in given:
            return None
        given[T.cast(str, k.arg)] = k.value
    out: T.List[ast.stmt] = []
    for p in params:
        v = given.get(p, defaults.get(p))
        if v is None:
            return None
        out.append(ast.copy_location(ast.Assign(targets=[ast.Name(id=ren[p], ctx=ast.Store())], value=v, lineno=call.lineno), call))
    return out


def _falls_off(body: T.List[ast.stmt]) -> bool:
    """can execution run off the end of this statement list (instead of leaving by return/raise)?"""
    probe = ast.fix_missing_locations(ast.FunctionDef(name='_probe', args=ast.arguments(posonlyargs=[], args=[], kwonlyargs=[], kw_defaults=[], defaults=[]),
                                                      body=copy.deepcopy(body), decorator_list=[], lineno=1, col_offset=0))
    try:
        cfg = CFG(probe)
    except Undecided:
        return True
    return any(not (cfg.nodes[a].kind == 'stmt' and isinstance(cfg.nodes[a].ast, ast.Return)) and lab != 'exc'
               and not (cfg.nodes[a].kind == 'with_exit' and all(isinstance(cfg.nodes[b].ast, ast.Return) for b, _ in cfg.pred[a]))
               for a, lab in cfg.pred[cfg.exit_return.id])


def inline_helpers(fn: ast.FunctionDef, methods: T.Dict[str, T.Any], vocab: T.Iterable[str], depth: int = 2,
                   modfuncs: T.Optional[T.Dict[str, T.Any]] = None) -> ast.FunctionDef:
    """Copy of `fn` in which calls of *new* private helpers of the same class (`self.h(...)`, h not in the vocabulary the
    reference is written in) are expanded in place when that is meaning-preserving by construction:
    `self.h(..)` as a statement (h has no valued return), `return self.h(..)` (tail call), `x = self.h(..)` (h has one,
    final, return).  Parameters and locals of h are renamed apart and bound by plain assignments, so the path-local
    naming resolves them like any other local."""
    vocab = set(vocab)
    counter = [0]

    def eligible(c: ast.AST, gen: bool = False) -> T.Optional[ast.FunctionDef]:
        if not isinstance(c, ast.Call):
            return None
        m = self_method_called(c)
        if not m and isinstance(c.func, ast.Attribute) and isinstance(c.func.value, ast.Name) and c.func.value.id[:1].isupper() and c.func.attr in methods \
                and any((attr_chain(d) or '') == 'staticmethod' for d in methods[c.func.attr].decorator_list):
            m = c.func.attr                    # a static helper called through the class name
        if m and m not in vocab and m != fn.name and m in methods:
            callee = methods[m]
        elif isinstance(c.func, ast.Name) and modfuncs and c.func.id in modfuncs and c.func.id != fn.name:
            callee = modfuncs[c.func.id]        # a helper that lives at module level (moved out of the class, or never was in it)
        else:
            return None
        if any(isinstance(n, (ast.Await, ast.Global, ast.Nonlocal)) for n in ast.walk(callee)):
            return None
        is_gen = any(isinstance(n, (ast.Yield, ast.YieldFrom)) for n in walk_no_nested(callee))
        return callee if is_gen == gen else None

    def gen_call(v: T.Optional[ast.AST]) -> T.Optional[ast.Call]:
        """`list(self.g(..))` / `[*self.g(..)]` / `tuple(..)` with g a generator helper -> the inner call"""
        inner = None
        if isinstance(v, ast.Call) and attr_chain(v.func) in ('list', 'tuple') and len(v.args) == 1 and not v.keywords:
            inner = v.args[0]
        elif isinstance(v, ast.List) and len(v.elts) == 1 and isinstance(v.elts[0], ast.Starred):
            inner = v.elts[0].value
        return inner if isinstance(inner, ast.Call) and eligible(inner, True) else None

    def expand_gen(call: ast.Call, d: int) -> T.Optional[T.Tuple[T.List[ast.stmt], ast.AST]]:
        """statements that collect what the generator helper yields into a fresh list, and the name of that list"""
        callee = T.cast(ast.FunctionDef, eligible(call, True))
        body = [s for s in callee.body if not (isinstance(s, ast.Expr) and isinstance(s.value, ast.Constant))] or [ast.Pass()]
        if any(isinstance(n, ast.Return) for s in body for n in walk_no_nested(s)):
            return None
        ys = [n for s in body for n in walk_no_nested(s) if isinstance(n, (ast.Yield, ast.YieldFrom))]
        stmts_with_y = [s for b in [body] for s in ast.walk(ast.Module(body=b, type_ignores=[])) if isinstance(s, ast.Expr) and isinstance(s.value, (ast.Yield, ast.YieldFrom))]
        if len(stmts_with_y) != len(ys):
            return None        # a yield used as an expression
        counter[0] += 1
        names = {a.arg for a in callee.args.args + callee.args.kwonlyargs if a.arg != 'self'}
        names |= {n.id for s in body for n in ast.walk(s) if isinstance(n, ast.Name) and isinstance(n.ctx, (ast.Store, ast.Del))}
        ren = {n: f'_{callee.name.strip("_")}{counter[0]}_{n}' for n in names}
        binds = _bind_args(callee, call, ren)
        if binds is None:
            return None
        acc = f'_{callee.name.strip("_")}{counter[0]}_items'
        new = [_Rename(ren).visit(copy.deepcopy(s)) for s in body]

        class Y(ast.NodeTransformer):
            def visit_Expr(self, st: ast.Expr) -> ast.AST:
                v = st.value
                if isinstance(v, ast.Yield):
                    return ast.copy_location(ast.Expr(value=ast.Call(func=ast.Attribute(value=ast.Name(id=acc, ctx=ast.Load()), attr='append', ctx=ast.Load()),
                                                                     args=[v.value or ast.Constant(value=None)], keywords=[])), st)
                if isinstance(v, ast.YieldFrom):
                    return ast.copy_location(ast.Expr(value=ast.Call(func=ast.Attribute(value=ast.Name(id=acc, ctx=ast.Load()), attr='extend', ctx=ast.Load()),
                                                                     args=[v.value], keywords=[])), st)
                return st
        new = [Y().visit(s) for s in new]
        init = ast.copy_location(ast.Assign(targets=[ast.Name(id=acc, ctx=ast.Store())], value=ast.List(elts=[], ctx=ast.Load()), lineno=call.lineno), call)
        return binds + [init] + block(new, d - 1), ast.Name(id=acc, ctx=ast.Load())

    def expand(callee: ast.FunctionDef, call: ast.Call, mode: str, d: int) -> T.Optional[T.Tuple[T.List[ast.stmt], T.Optional[ast.AST]]]:
        body = [s for s in callee.body if not (isinstance(s, ast.Expr) and isinstance(s.value, ast.Constant))] or [ast.Pass()]
        rets = [n for s in body for n in walk_no_nested(s) if isinstance(n, ast.Return)]
        result: T.Optional[ast.AST] = None
        if mode == 'stmt':
            if any(r.value is not None and not (isinstance(r.value, ast.Constant) and r.value.value is None) for r in rets):
                return None
            if rets and not (len(rets) == 1 and rets[0] is body[-1]):
                return None
            if rets:
                body = body[:-1] or [ast.Pass()]
        search = False
        if mode == 'assign' and not (len(rets) == 1 and rets[0] is body[-1] and rets[0].value is not None):
            # a search helper: `for ..: .. return A` (not inside a further loop) directly followed by the final `return B`
            if not (len(body) >= 2 and isinstance(body[-1], ast.Return) and body[-1].value is not None and isinstance(body[-2], ast.For)
                    and not body[-2].orelse and all(r.value is not None for r in rets)):
                return None
            inner = [r for r in rets if r is not body[-1]]

            def direct(stmts: T.List[ast.stmt]) -> T.List[ast.Return]:      # returns of the loop body that a `break` can stand for
                found: T.List[ast.Return] = []
                for st_ in stmts:
                    if isinstance(st_, ast.Return):
                        found.append(st_)
                    elif isinstance(st_, (ast.If, ast.With, ast.Try)):
                        for f_ in ('body', 'orelse', 'finalbody'):
                            found += direct(getattr(st_, f_, []) or [])
                        for h_ in getattr(st_, 'handlers', []):
                            found += direct(h_.body)
                return found
            if not inner or {id(r) for r in direct(body[-2].body)} != {id(r) for r in inner}:
                return None
            search = True
        counter[0] += 1
        names = {a.arg for a in callee.args.args + callee.args.kwonlyargs if a.arg != 'self'}
        names |= {n.id for s in body for n in ast.walk(s) if isinstance(n, ast.Name) and isinstance(n.ctx, (ast.Store, ast.Del))}
        ren = {n: f'_{callee.name.strip("_")}{counter[0]}_{n}' for n in names}
        binds = _bind_args(callee, call, ren)
        if binds is None:
            return None
        new = [_Rename(ren).visit(copy.deepcopy(s)) for s in body]
        if mode == 'assign' and search:
            res = f'_{callee.name.strip("_")}{counter[0]}_result'

            def to_break(stmts: T.List[ast.stmt]) -> T.List[ast.stmt]:
                out_: T.List[ast.stmt] = []
                for st_ in stmts:
                    if isinstance(st_, ast.Return):
                        out_ += [ast.copy_location(ast.Assign(targets=[ast.Name(id=res, ctx=ast.Store())], value=st_.value, lineno=st_.lineno), st_),
                                 ast.copy_location(ast.Break(), st_)]
                        continue
                    if isinstance(st_, (ast.If, ast.With, ast.Try)):
                        for f_ in ('body', 'orelse', 'finalbody'):
                            if getattr(st_, f_, None):
                                setattr(st_, f_, to_break(getattr(st_, f_)))
                        for h_ in getattr(st_, 'handlers', []):
                            h_.body = to_break(h_.body)
                    out_.append(st_)
                return out_
            loop_, last_ = new[-2], new[-1]
            loop_.body = to_break(loop_.body)
            loop_.orelse = [ast.copy_location(ast.Assign(targets=[ast.Name(id=res, ctx=ast.Store())], value=last_.value, lineno=last_.lineno), last_)]
            new = new[:-1]
            result = ast.Name(id=res, ctx=ast.Load())
        elif mode == 'assign':
            result = new[-1].value
            new = new[:-1]
        elif mode == 'return' and _falls_off(new):
            new.append(ast.copy_location(ast.Return(value=None), call))
        return binds + block(new, d - 1), result

    def expand_cm(c: ast.AST, body: T.List[ast.stmt], d: int) -> T.Optional[T.List[ast.stmt]]:
        """`with self.cm(..): BODY` with cm a @contextmanager helper that yields once, as a statement: the helper with BODY in place of the yield"""
        if not isinstance(c, ast.Call):
            return None
        callee = eligible(c, True)
        if callee is None or not any((attr_chain(x) or '').split('.')[-1] == 'contextmanager' for x in callee.decorator_list):
            return None
        cbody = [s for s in callee.body if not (isinstance(s, ast.Expr) and isinstance(s.value, ast.Constant))]
        ys = [n for s in cbody for n in walk_no_nested(s) if isinstance(n, (ast.Yield, ast.YieldFrom))]
        if len(ys) != 1 or not isinstance(ys[0], ast.Yield) or ys[0].value is not None or any(isinstance(n, ast.Return) for s in cbody for n in walk_no_nested(s)):
            return None
        counter[0] += 1
        names = {a.arg for a in callee.args.args + callee.args.kwonlyargs if a.arg != 'self'}
        names |= {n.id for s in cbody for n in ast.walk(s) if isinstance(n, ast.Name) and isinstance(n.ctx, (ast.Store, ast.Del))}
        ren = {n: f'_{callee.name.strip("_")}{counter[0]}_{n}' for n in names}
        binds = _bind_args(callee, c, ren)
        if binds is None:
            return None
        new = [_Rename(ren).visit(copy.deepcopy(s)) for s in cbody]
        placed = [0]

        def put(stmts: T.List[ast.stmt]) -> T.List[ast.stmt]:
            res: T.List[ast.stmt] = []
            for s in stmts:
                if isinstance(s, ast.Expr) and isinstance(s.value, ast.Yield):
                    placed[0] += 1
                    res.extend(body)
                    continue
                for field in ('body', 'orelse', 'finalbody'):
                    sub = getattr(s, field, None)
                    if isinstance(sub, list) and sub and isinstance(sub[0], ast.stmt) and not isinstance(s, (ast.FunctionDef, ast.ClassDef)):
                        setattr(s, field, put(sub))
                for h in getattr(s, 'handlers', []):
                    h.body = put(h.body)
                res.append(s)
            return res
        new = put(new)
        if placed[0] != 1:
            return None
        return binds + block(new, d - 1)

    def block(stmts: T.List[ast.stmt], d: int) -> T.List[ast.stmt]:
        out: T.List[ast.stmt] = []
        for st in stmts:
            done = False
            if d > 0 and isinstance(st, ast.With) and len(st.items) == 1 and st.items[0].optional_vars is None:
                cm = expand_cm(st.items[0].context_expr, st.body, d)
                if cm is not None:
                    out.extend(cm)
                    continue
            if d > 0 and isinstance(st, (ast.Return, ast.Assign, ast.AnnAssign)) and gen_call(st.value):
                g = expand_gen(T.cast(ast.Call, gen_call(st.value)), d)
                if g:
                    out.extend(g[0])
                    st2 = copy.copy(st)
                    st2.value = g[1]  # type: ignore[assignment]
                    out.append(st2)
                    continue
            if d > 0:
                if isinstance(st, ast.Expr) and eligible(st.value):
                    r = expand(eligible(st.value), st.value, 'stmt', d)  # type: ignore[arg-type]
                    if r:
                        out.extend(r[0])
                        done = True
                elif isinstance(st, ast.Return) and st.value is not None and eligible(st.value):
                    r = expand(eligible(st.value), st.value, 'return', d)  # type: ignore[arg-type]
                    if r:
                        out.extend(r[0])
                        done = True
                elif isinstance(st, (ast.Assign, ast.AnnAssign)) and st.value is not None and eligible(st.value):
                    r = expand(eligible(st.value), st.value, 'assign', d)  # type: ignore[arg-type]
                    if r:
                        out.extend(r[0])
                        st2 = copy.copy(st)
                        st2.value = r[1]  # type: ignore[assignment]
                        out.append(st2)
                        done = True
            if done:
                continue
            for field in ('body', 'orelse', 'finalbody'):
                sub = getattr(st, field, None)
                if isinstance(sub, list) and sub and isinstance(sub[0], ast.stmt) and not isinstance(st, (ast.FunctionDef, ast.AsyncFunctionDef, ast.ClassDef)):
                    setattr(st, field, block(sub, d))
            for h in getattr(st, 'handlers', []):
                h.body = block(h.body, d)
            out.append(st)
        return out

    new_fn = copy.deepcopy(fn)
    new_fn.body = block(new_fn.body, depth)

    class Expr1(ast.NodeTransformer):
        """a helper whose whole body is `return <expression>` is put in place wherever it is called (arguments for parameters)"""
        def visit_Call(self, c: ast.Call) -> ast.AST:
            self.generic_visit(c)
            callee = eligible(c)
            if callee is None:
                return c
            body = [s_ for s_ in callee.body if not (isinstance(s_, ast.Expr) and isinstance(s_.value, ast.Constant))]
            if len(body) != 1 or not isinstance(body[0], ast.Return) or body[0].value is None:
                return c
            binds = _bind_args(callee, c, {a.arg: a.arg for a in callee.args.args + callee.args.kwonlyargs})
            if binds is None:
                return c
            m = {T.cast(ast.Name, b.targets[0]).id: b.value for b in binds}  # type: ignore[attr-defined]
            if any(isinstance(n, (ast.Lambda, ast.ListComp, ast.SetComp, ast.DictComp, ast.GeneratorExp)) and
                   {x.id for x in ast.walk(n) if isinstance(x, ast.Name) and isinstance(x.ctx, ast.Store)} & set(m) for n in ast.walk(body[0].value)):
                return c

            class Put(ast.NodeTransformer):
                def visit_Name(self, n: ast.Name) -> ast.AST:
                    return copy.deepcopy(m[n.id]) if isinstance(n.ctx, ast.Load) and n.id in m else n
            return ast.copy_location(Put().visit(copy.deepcopy(body[0].value)), c)
    for _ in range(depth):
        new_fn.body = [Expr1().visit(st) for st in new_fn.body]
    return ast.fix_missing_locations(new_fn)


# -- canonical spelling (round 6: the same code written differently must give the same atoms/shapes) ---------------

def _is_strish(e: ast.AST) -> bool:
    return (isinstance(e, ast.Constant) and isinstance(e.value, str)) or isinstance(e, ast.JoinedStr)


def _template(parts: T.List[ast.AST]) -> ast.AST:
    vals: T.List[ast.AST] = []
    for p in parts:
        if isinstance(p, ast.JoinedStr):
            sub = list(p.values)
        elif isinstance(p, ast.Constant) and isinstance(p.value, str):
            sub = [p]
        else:
            sub = [ast.FormattedValue(value=p, conversion=-1, format_spec=None)]
        for s in sub:
            if isinstance(s, ast.Constant) and vals and isinstance(vals[-1], ast.Constant):
                vals[-1] = ast.Constant(value=vals[-1].value + s.value)
            elif not (isinstance(s, ast.Constant) and s.value == ''):
                vals.append(s)
    if len(vals) == 1 and isinstance(vals[0], ast.Constant):
        return vals[0]
    return ast.JoinedStr(values=vals)


def _add_chain(e: ast.AST) -> T.List[ast.AST]:
    if isinstance(e, ast.BinOp) and isinstance(e.op, ast.Add):
        return _add_chain(e.left) + _add_chain(e.right)
    return [e]


def _pure_ref(e: ast.AST) -> bool:
    return attr_chain(e) is not None or isinstance(e, ast.Constant)


EXTERNAL_PARAMS: T.Dict[str, T.List[str]] = {}     # function name -> declared positional parameters (filled by the pack from the defining module)


class _Canon(ast.NodeTransformer):
    """One spelling for: arguments of calls of methods of the same class (bound by signature), text templates
    (`a + 'lit'`, `'%s..' % a`, `'{}..'.format(a)`, f-strings), `len(x)` compared with 0/1, membership in a short display,
    chained comparisons."""

    def __init__(self, methods: T.Dict[str, T.Any], cls: str):
        self.methods, self.cls = methods, cls

    def visit_Call(self, c: ast.Call) -> ast.AST:
        self.generic_visit(c)
        if attr_chain(c.func) in ('T.cast', 'typing.cast', 'cast') and len(c.args) == 2 and not c.keywords:
            return c.args[1]
        # Class.m(self, ...) -> self.m(...)
        if isinstance(c.func, ast.Attribute) and isinstance(c.func.value, ast.Name) and c.func.value.id == self.cls and c.func.attr in self.methods \
                and c.args and isinstance(c.args[0], ast.Name) and c.args[0].id == 'self':
            c = ast.copy_location(ast.Call(func=ast.Attribute(value=ast.Name(id='self', ctx=ast.Load()), attr=c.func.attr, ctx=ast.Load()),
                                           args=c.args[1:], keywords=c.keywords), c)
        m = self_method_called(c)
        if m and m in self.methods and c.keywords and not any(k.arg is None for k in c.keywords) and not any(isinstance(a, ast.Starred) for a in c.args):
            callee = self.methods[m]
            a = callee.args
            static = any(attr_chain(d) == 'staticmethod' for d in callee.decorator_list)
            params = [p.arg for p in a.posonlyargs + a.args][0 if static else 1:]
            if not a.vararg:
                kws = {k.arg: k.value for k in c.keywords}
                args = list(c.args)
                while len(args) < len(params) and params[len(args)] in kws:
                    args.append(kws.pop(params[len(args)]))
                rest = [k for k in c.keywords if k.arg in kws]
                rest.sort(key=lambda k: params.index(k.arg) if k.arg in params else 999)
                c = ast.copy_location(ast.Call(func=c.func, args=args, keywords=rest), c)
        # functions of other modules whose parameter list the pack has read from their definition: keywords -> positional as well
        ext = EXTERNAL_PARAMS.get((attr_chain(c.func) or '').split('.')[-1]) if not m else None
        if ext and c.keywords and not any(k.arg is None for k in c.keywords) and not any(isinstance(a, ast.Starred) for a in c.args):
            kws = {k.arg: k.value for k in c.keywords}
            args = list(c.args)
            while len(args) < len(ext) and ext[len(args)] in kws:
                args.append(kws.pop(ext[len(args)]))
            c = ast.copy_location(ast.Call(func=c.func, args=args, keywords=[k for k in c.keywords if k.arg in kws]), c)
        # set(A).isdisjoint(B) == not any(x in B for x in A)
        if isinstance(c.func, ast.Attribute) and c.func.attr in ('isdisjoint', 'intersection') and len(c.args) == 1 and not c.keywords \
                and isinstance(c.func.value, ast.Call) and attr_chain(c.func.value.func) in ('set', 'frozenset') and len(c.func.value.args) == 1:
            a_, b_ = c.func.value.args[0], c.args[0]
            if isinstance(b_, ast.Call) and attr_chain(b_.func) in ('set', 'frozenset') and len(b_.args) == 1:
                b_ = b_.args[0]
            anyc = ast.Call(func=ast.Name(id='any', ctx=ast.Load()), args=[ast.GeneratorExp(
                elt=ast.Compare(left=ast.Name(id='_m', ctx=ast.Load()), ops=[ast.In()], comparators=[b_]),
                generators=[ast.comprehension(target=ast.Name(id='_m', ctx=ast.Store()), iter=a_, ifs=[], is_async=0)])], keywords=[])
            return ast.copy_location(ast.UnaryOp(op=ast.Not(), operand=anyc) if c.func.attr == 'isdisjoint' else anyc, c)
        # '{}..'.format(a)
        if isinstance(c.func, ast.Attribute) and c.func.attr == 'format' and isinstance(c.func.value, ast.Constant) and isinstance(c.func.value.value, str) \
                and not c.keywords and not any(isinstance(a, ast.Starred) for a in c.args):
            lit = c.func.value.value
            pieces = lit.split('{}')
            if len(pieces) == len(c.args) + 1 and '{' not in ''.join(pieces) and '}' not in ''.join(pieces):
                parts: T.List[ast.AST] = []
                for i, p in enumerate(pieces):
                    parts.append(ast.Constant(value=p))
                    if i < len(c.args):
                        parts.append(c.args[i])
                return ast.copy_location(_template(parts), c)
        return c

    def visit_IfExp(self, e: ast.IfExp) -> ast.AST:
        """`X[K] if K in X else D` / `D if K not in X else X[K]` -> `X.get(K)` (D is None) / `X.get(K, D)`"""
        self.generic_visit(e)
        t = e.test
        if isinstance(t, ast.Compare) and len(t.ops) == 1 and isinstance(t.ops[0], (ast.In, ast.NotIn)):
            hit, miss = (e.body, e.orelse) if isinstance(t.ops[0], ast.In) else (e.orelse, e.body)
            tab, key = t.comparators[0], t.left
            if isinstance(hit, ast.Subscript) and norm(hit.value) == norm(tab) and norm(hit.slice) == norm(key) \
                    and not any(isinstance(x, (ast.Call, ast.NamedExpr, ast.Await)) for x in ast.walk(tab)):
                args = [key] if isinstance(miss, ast.Constant) and miss.value is None else [key, miss]
                return ast.copy_location(ast.Call(func=ast.Attribute(value=tab, attr='get', ctx=ast.Load()), args=args, keywords=[]), e)
        return e

    def visit_BinOp(self, e: ast.BinOp) -> ast.AST:
        self.generic_visit(e)
        if isinstance(e.op, ast.Add):
            chain = _add_chain(e)
            if any(_is_strish(x) or (isinstance(x, ast.IfExp) and _is_strish(x.body) and _is_strish(x.orelse)) for x in chain):
                # a + (X if c else Y) with literal X, Y -> (a + X) if c else (a + Y)
                for i, x in enumerate(chain):
                    if isinstance(x, ast.IfExp) and _is_strish(x.body) and _is_strish(x.orelse):
                        return ast.copy_location(ast.IfExp(test=x.test, body=_template(chain[:i] + [x.body] + chain[i + 1:]),
                                                           orelse=_template(chain[:i] + [x.orelse] + chain[i + 1:])), e)
                return ast.copy_location(_template(chain), e)
        if isinstance(e.op, ast.Mod) and isinstance(e.left, ast.Constant) and isinstance(e.left.value, str):
            lit = e.left.value
            args = list(e.right.elts) if isinstance(e.right, ast.Tuple) else [e.right]
            pieces = lit.split('%s')
            if len(pieces) == len(args) + 1 and '%' not in ''.join(pieces) and not isinstance(e.right, ast.Dict):
                parts: T.List[ast.AST] = []
                for i, p in enumerate(pieces):
                    parts.append(ast.Constant(value=p))
                    if i < len(args):
                        parts.append(args[i])
                return ast.copy_location(_template(parts), e)
        return e

    def visit_JoinedStr(self, e: ast.JoinedStr) -> ast.AST:
        self.generic_visit(e)
        return ast.copy_location(_template([e]), e)

    def visit_Compare(self, e: ast.Compare) -> ast.AST:
        self.generic_visit(e)
        if len(e.ops) > 1 and all(_pure_ref(x) for x in e.comparators[:-1]):
            terms = []
            left = e.left
            for op, right in zip(e.ops, e.comparators):
                terms.append(self.visit_Compare(ast.Compare(left=left, ops=[op], comparators=[right])))
                left = right
            return ast.copy_location(ast.BoolOp(op=ast.And(), values=terms), e)
        if len(e.ops) != 1:
            return e
        op, l, r = e.ops[0], e.left, e.comparators[0]
        if isinstance(l, ast.Call) and call_name_(l) == 'len' and len(l.args) == 1 and isinstance(r, ast.Constant) and r.value in (0, 1):
            x = l.args[0]
            empty = ast.UnaryOp(op=ast.Not(), operand=x)
            if (r.value == 0 and isinstance(op, ast.Eq)) or (r.value == 1 and isinstance(op, ast.Lt)):
                return ast.copy_location(empty, e)
            if (r.value == 0 and isinstance(op, (ast.NotEq, ast.Gt))) or (r.value == 1 and isinstance(op, ast.GtE)):
                return ast.copy_location(ast.Call(func=ast.Name(id='bool', ctx=ast.Load()), args=[x], keywords=[]), e) if False else x
        if isinstance(op, (ast.In, ast.NotIn)) and isinstance(r, (ast.Tuple, ast.List, ast.Set)) and 1 <= len(r.elts) <= 4 \
                and attr_chain(l) is not None and all(_pure_ref(x) for x in r.elts):
            eq = isinstance(op, ast.In)
            terms = [ast.Compare(left=l, ops=[ast.Eq() if eq else ast.NotEq()], comparators=[x]) for x in r.elts]
            return ast.copy_location(terms[0] if len(terms) == 1 else ast.BoolOp(op=ast.Or() if eq else ast.And(), values=terms), e)
        return e


def call_name_(c: ast.Call) -> T.Optional[str]:
    return attr_chain(c.func)


def canonical(e: ast.AST, methods: T.Optional[T.Dict[str, T.Any]] = None, cls: str = '') -> ast.AST:
    """canonical spelling of a (reference) expression"""
    return ast.fix_missing_locations(_Canon(methods or {}, cls).visit(copy.deepcopy(e)))


def _single_defs(fn: ast.FunctionDef) -> T.Dict[str, ast.AST]:
    params = {a.arg for a in fn.args.posonlyargs + fn.args.args + fn.args.kwonlyargs}
    return tables._inlinable_locals(fn.body, params, tables.INLINE_CALLS | {'get_varname', 'find_dep_provider', 'get_value_for', 'from_string', 'OptionKey'})


def _desugar_next(fn: ast.FunctionDef) -> None:
    """`t = next((E for v in IT if C), D)` -> `t = D; for v in IT: if C: t = E; break`, where IT may itself be a
    generator expression (or a single-definition local bound to one): its element is bound to v inside the loop."""
    gens: T.Dict[str, ast.GeneratorExp] = {}
    for n in ast.walk(fn):
        if isinstance(n, ast.Assign) and len(n.targets) == 1 and isinstance(n.targets[0], ast.Name) and isinstance(n.value, ast.GeneratorExp):
            name = n.targets[0].id
            if sum(1 for x in ast.walk(fn) if isinstance(x, ast.Name) and x.id == name and isinstance(x.ctx, ast.Store)) == 1 \
                    and sum(1 for x in ast.walk(fn) if isinstance(x, ast.Name) and x.id == name and isinstance(x.ctx, ast.Load)) == 1:
                gens[name] = n.value

    def simple(g: ast.AST) -> bool:
        return isinstance(g, ast.GeneratorExp) and len(g.generators) == 1 and not g.generators[0].is_async

    def loop(g: ast.GeneratorExp, inner: T.Callable[[ast.AST], T.List[ast.stmt]], at: ast.AST) -> T.Optional[T.List[ast.stmt]]:
        """statements that run inner(<element expression>) for every element of g"""
        c = g.generators[0]
        body: T.List[ast.stmt] = inner(g.elt)
        for cond in reversed(c.ifs):
            body = [ast.If(test=cond, body=body, orelse=[])]
        it = gens.get(c.iter.id, c.iter) if isinstance(c.iter, ast.Name) else c.iter
        if isinstance(it, ast.GeneratorExp):
            if not simple(it):
                return None
            tgt = c.target
            return loop(it, lambda el: [T.cast(ast.stmt, ast.Assign(targets=[tgt], value=el, lineno=at.lineno))] + body, at)  # type: ignore[attr-defined]
        return [ast.For(target=c.target, iter=it, body=body, orelse=[], lineno=at.lineno)]  # type: ignore[attr-defined]

    def block(stmts: T.List[ast.stmt]) -> T.List[ast.stmt]:
        out: T.List[ast.stmt] = []
        for st in stmts:
            for field in ('body', 'orelse', 'finalbody'):
                sub = getattr(st, field, None)
                if isinstance(sub, list) and sub and isinstance(sub[0], ast.stmt) and not isinstance(st, (ast.FunctionDef, ast.AsyncFunctionDef, ast.ClassDef)):
                    setattr(st, field, block(sub))
            for h in getattr(st, 'handlers', []):
                h.body = block(h.body)
            v = st.value if isinstance(st, (ast.Assign, ast.AnnAssign)) else None
            if isinstance(st, ast.Assign) and len(st.targets) == 1 and isinstance(st.targets[0], ast.Name) and st.targets[0].id in gens:
                continue       # the generator object itself is consumed by the desugared loop
            if isinstance(v, ast.Call) and call_name_(v) == 'next' and len(v.args) == 2 and not v.keywords:
                g = gens.get(v.args[0].id, v.args[0]) if isinstance(v.args[0], ast.Name) else v.args[0]
                tgts = st.targets if isinstance(st, ast.Assign) else [st.target]
                if simple(g) and len(tgts) == 1 and isinstance(tgts[0], ast.Name):
                    t = tgts[0]
                    lp = loop(T.cast(ast.GeneratorExp, g), lambda el: [ast.Assign(targets=[t], value=el, lineno=st.lineno), ast.Break()], st)
                    if lp is not None:
                        out.append(ast.copy_location(ast.Assign(targets=[t], value=v.args[1], lineno=st.lineno), st))
                        out.extend(lp)
                        continue
            out.append(st)
        return out
    used = {n.args[0].id for n in ast.walk(fn) if isinstance(n, ast.Call) and call_name_(n) == 'next' and len(n.args) == 2 and isinstance(n.args[0], ast.Name)}
    gens = {k: g for k, g in gens.items() if k in used or any(isinstance(c.iter, ast.Name) and c.iter.id == k for g2 in gens.values() for c in g2.generators)
            or any(isinstance(n, ast.GeneratorExp) and any(isinstance(c.iter, ast.Name) and c.iter.id == k for c in n.generators) for n in ast.walk(fn))}
    if any(isinstance(n, ast.Call) and call_name_(n) == 'next' and len(n.args) == 2 for n in ast.walk(fn)):
        fn.body = block(fn.body)


def _bool_returns(fn: ast.FunctionDef) -> None:
    """in a function declared `-> bool`: `return <and/or/not/comparison>` -> `if <..>: return True` / `return False`"""
    if not (isinstance(fn.returns, ast.Name) and fn.returns.id == 'bool'):
        return

    def block(stmts: T.List[ast.stmt]) -> T.List[ast.stmt]:
        out: T.List[ast.stmt] = []
        for st in stmts:
            for field in ('body', 'orelse', 'finalbody'):
                sub = getattr(st, field, None)
                if isinstance(sub, list) and sub and isinstance(sub[0], ast.stmt) and not isinstance(st, (ast.FunctionDef, ast.AsyncFunctionDef, ast.ClassDef)):
                    setattr(st, field, block(sub))
            for h in getattr(st, 'handlers', []):
                h.body = block(h.body)
            if isinstance(st, ast.Return) and st.value is not None and not isinstance(st.value, ast.Constant):
                # (declared bool: any other value stands for its truth)
                out.append(ast.copy_location(ast.If(test=st.value, body=[ast.copy_location(ast.Return(value=ast.Constant(value=True)), st)],
                                                    orelse=[ast.copy_location(ast.Return(value=ast.Constant(value=False)), st)]), st))
            else:
                out.append(st)
        return out
    fn.body = block(fn.body)


def _inline_bool_locals(fn: ast.FunctionDef) -> None:
    """a condition bound to a single-definition local first (`forced = a and b` ... `if not forced:`) is put back where it is tested"""
    loc = {k: v for k, v in _single_defs(fn).items() if isinstance(v, ast.BoolOp) or (isinstance(v, ast.UnaryOp) and isinstance(v.op, ast.Not))}
    if not loc:
        return

    class Put(ast.NodeTransformer):
        def visit_Name(self, n: ast.Name) -> ast.AST:
            return copy.deepcopy(loc[n.id]) if isinstance(n.ctx, ast.Load) and n.id in loc else n
    for _ in range(2):
        for k in list(loc):
            loc[k] = Put().visit(copy.deepcopy(loc[k]))
    for st in fn.body:
        Put().visit(st)


def _map_blocks(fn: ast.FunctionDef, f: T.Callable[[T.List[ast.stmt]], T.List[ast.stmt]]) -> None:
    def block(stmts: T.List[ast.stmt]) -> T.List[ast.stmt]:
        for st in stmts:
            if isinstance(st, (ast.FunctionDef, ast.AsyncFunctionDef, ast.ClassDef)):
                continue
            for field in ('body', 'orelse', 'finalbody'):
                sub = getattr(st, field, None)
                if isinstance(sub, list) and sub and isinstance(sub[0], ast.stmt):
                    setattr(st, field, block(sub))
            for h in getattr(st, 'handlers', []):
                h.body = block(h.body)
        return f(stmts)
    fn.body = block(fn.body)


def _boolish(e: ast.AST) -> bool:
    return isinstance(e, (ast.BoolOp, ast.Compare)) or (isinstance(e, ast.UnaryOp) and isinstance(e.op, ast.Not)) \
        or (isinstance(e, ast.Call) and attr_chain(e.func) in ('any', 'all', 'bool'))


def _statement_forms(fn: ast.FunctionDef) -> None:
    """walrus in a test hoisted; `x = A if C else B` / `return A if C else B` -> if/else; a flag attribute assigned a condition
    (`self.f = a or b`, `self.f |= c`) -> if/else of constant writes, so that every spelling of a flag computation (or-chain, if/elif
    ladder of `= True`, `|=`) yields the same atoms and the same constant writes"""
    def hoist(test: ast.AST) -> T.Tuple[T.List[ast.stmt], ast.AST]:
        if isinstance(test, ast.NamedExpr):
            return [ast.copy_location(ast.Assign(targets=[ast.Name(id=test.target.id, ctx=ast.Store())], value=test.value, lineno=test.lineno), test)], \
                ast.Name(id=test.target.id, ctx=ast.Load())
        if isinstance(test, ast.UnaryOp) and isinstance(test.op, ast.Not):
            pre, t = hoist(test.operand)
            return pre, (ast.UnaryOp(op=ast.Not(), operand=t) if pre else test)
        if isinstance(test, ast.Compare):
            pre, t = hoist(test.left)
            return pre, (ast.Compare(left=t, ops=test.ops, comparators=test.comparators) if pre else test)
        if isinstance(test, ast.BoolOp):
            pre, t = hoist(test.values[0])
            return pre, (ast.BoolOp(op=test.op, values=[t] + test.values[1:]) if pre else test)
        return [], test

    def const(st: ast.stmt, tgt: ast.AST, v: bool) -> ast.stmt:
        return ast.copy_location(ast.Assign(targets=[copy.deepcopy(tgt)], value=ast.Constant(value=v), lineno=st.lineno), st)

    def f(stmts: T.List[ast.stmt]) -> T.List[ast.stmt]:
        out: T.List[ast.stmt] = []
        for st in stmts:
            if isinstance(st, ast.If):
                pre, t = hoist(st.test)
                if pre:
                    out.extend(pre)
                    st.test = t
            if isinstance(st, ast.Assign) and len(st.targets) == 1 and isinstance(st.value, ast.IfExp) and isinstance(st.targets[0], (ast.Name, ast.Attribute)):
                a = copy.copy(st)
                a.value = st.value.body
                b = copy.copy(st)
                b.value = st.value.orelse
                out.extend(f([ast.copy_location(ast.If(test=st.value.test, body=[a], orelse=[b]), st)]))
            elif isinstance(st, ast.Return) and isinstance(st.value, ast.IfExp):
                out.extend(f([ast.copy_location(ast.If(test=st.value.test, body=[ast.copy_location(ast.Return(value=st.value.body), st)],
                                                       orelse=[ast.copy_location(ast.Return(value=st.value.orelse), st)]), st)]))
            elif isinstance(st, ast.Assign) and len(st.targets) == 1 and (attr_chain(st.targets[0]) or '').startswith('self.') and _boolish(st.value):
                out.append(ast.copy_location(ast.If(test=st.value, body=[const(st, st.targets[0], True)], orelse=[const(st, st.targets[0], False)]), st))
            elif isinstance(st, ast.AugAssign) and isinstance(st.op, ast.BitOr) and (attr_chain(st.target) or '').startswith('self.'):
                out.append(ast.copy_location(ast.If(test=st.value, body=[const(st, st.target, True)], orelse=[]), st))
            elif isinstance(st, ast.Expr) and isinstance(st.value, ast.Call) and isinstance(st.value.func, ast.Attribute) \
                    and st.value.func.attr == 'setdefault' and len(st.value.args) == 2 and not st.value.keywords:
                # `X.setdefault(K, V)` with the result discarded == `if K not in X: X[K] = V` (insert-if-absent, either spelling)
                tab, (key, val) = st.value.func.value, st.value.args
                put = ast.copy_location(ast.Assign(targets=[ast.Subscript(value=copy.deepcopy(tab), slice=copy.deepcopy(key), ctx=ast.Store())],
                                                   value=val, lineno=st.lineno), st)
                out.append(ast.copy_location(ast.If(test=ast.Compare(left=key, ops=[ast.NotIn()], comparators=[tab]), body=[put], orelse=[]), st))
            else:
                out.append(st)
        return out
    _map_blocks(fn, f)


def _unroll_constant_loops(fn: ast.FunctionDef) -> None:
    """`for f in (self.a, self.b): f(x)` -> `self.a(x); self.b(x)` (a fixed sequence of calls written as a loop over a display)"""
    def f(stmts: T.List[ast.stmt]) -> T.List[ast.stmt]:
        out: T.List[ast.stmt] = []
        for st in stmts:
            if isinstance(st, ast.For) and isinstance(st.iter, (ast.Tuple, ast.List)) and 1 <= len(st.iter.elts) <= 6 and not st.orelse \
                    and isinstance(st.target, ast.Name) and all(attr_chain(x) is not None for x in st.iter.elts) \
                    and not any(isinstance(n, (ast.Break, ast.Continue)) for b in st.body for n in walk_no_nested(b)) \
                    and not any(isinstance(n, ast.Name) and n.id == st.target.id and isinstance(n.ctx, ast.Store) for b in st.body for n in ast.walk(b)):
                name = st.target.id
                for elt in st.iter.elts:
                    class Put(ast.NodeTransformer):
                        def visit_Name(self, n: ast.Name) -> ast.AST:
                            return copy.deepcopy(elt) if n.id == name and isinstance(n.ctx, ast.Load) else n
                    out.extend(Put().visit(copy.deepcopy(b)) for b in st.body)
            else:
                out.append(st)
        return out
    _map_blocks(fn, f)


def _inline_named_conditions(fn: ast.FunctionDef) -> None:
    """`c = <and/or/not ...>` directly followed by the statements that test it: the condition is put back into the tests
    (nothing between the definition and a use may write what the condition reads, or call anything when it reads attributes)"""
    def reads(e: ast.AST) -> T.Tuple[T.Set[str], bool]:
        return {n.id for n in ast.walk(e) if isinstance(n, ast.Name)}, any(isinstance(n, (ast.Attribute, ast.Call, ast.Subscript)) for n in ast.walk(e))

    def f(stmts: T.List[ast.stmt]) -> T.List[ast.stmt]:
        out = list(stmts)
        i = 0
        while i < len(out):
            st = out[i]
            if isinstance(st, ast.Assign) and len(st.targets) == 1 and isinstance(st.targets[0], ast.Name) and \
                    (isinstance(st.value, ast.BoolOp) or (isinstance(st.value, ast.UnaryOp) and isinstance(st.value.op, ast.Not))):
                name = st.targets[0].id
                total = sum(1 for n in ast.walk(fn) if isinstance(n, ast.Name) and n.id == name)
                names, heavy = reads(st.value)
                uses = 0
                ok = True
                j = i + 1
                targets: T.List[ast.stmt] = []
                while j < len(out) and ok:
                    nxt = out[j]
                    head: T.List[ast.AST] = [nxt.test] if isinstance(nxt, (ast.If, ast.While, ast.Assert)) else ([nxt] if not hasattr(nxt, 'body') else [])
                    u = sum(1 for h in head for n in ast.walk(h) if isinstance(n, ast.Name) and n.id == name and isinstance(n.ctx, ast.Load))
                    if u:
                        uses += u
                        targets.append(nxt)
                    if uses == total - 1:
                        break
                    # nxt lies between the definition and a later use
                    if any(isinstance(n, ast.Name) and isinstance(n.ctx, ast.Store) and n.id in names | {name} for n in ast.walk(nxt)) \
                            or (heavy and any(isinstance(n, (ast.Call, ast.Attribute)) and (isinstance(n, ast.Call) or isinstance(n.ctx, ast.Store)) for n in ast.walk(nxt))):
                        ok = False
                    j += 1
                if ok and uses and uses == total - 1:
                    val = st.value

                    class Put(ast.NodeTransformer):
                        def visit_Name(self, n: ast.Name) -> ast.AST:
                            return copy.deepcopy(val) if n.id == name and isinstance(n.ctx, ast.Load) else n
                    for t in targets:
                        if isinstance(t, (ast.If, ast.While, ast.Assert)):
                            t.test = Put().visit(t.test)
                        else:
                            out[out.index(t)] = Put().visit(t)
                    del out[i]
                    continue
            i += 1
        return out
    _map_blocks(fn, f)


def _fold_constants(fn: ast.FunctionDef, consts: T.Dict[str, ast.AST]) -> None:
    """a literal hoisted into a module/class constant is put back (names that the function binds itself are left alone)"""
    if not consts:
        return
    own = {a.arg for a in fn.args.posonlyargs + fn.args.args + fn.args.kwonlyargs}
    own |= {n.id for n in ast.walk(fn) if isinstance(n, ast.Name) and isinstance(n.ctx, (ast.Store, ast.Del))}

    class Put(ast.NodeTransformer):
        def visit_Name(self, n: ast.Name) -> ast.AST:
            return copy.deepcopy(consts[n.id]) if isinstance(n.ctx, ast.Load) and n.id in consts and n.id not in own else n

        def visit_Attribute(self, n: ast.Attribute) -> ast.AST:
            self.generic_visit(n)
            c = attr_chain(n)
            return copy.deepcopy(consts[c]) if isinstance(n.ctx, ast.Load) and c in consts else n
    for st in fn.body:
        Put().visit(st)


def _index_loops(fn: ast.FunctionDef) -> None:
    """`for i in range(len(xs)): .. xs[i] ..` -> `for i, _item in enumerate(xs): .. _item ..` (xs not rebound or changed in the body)"""
    k = [0]

    def f(stmts: T.List[ast.stmt]) -> T.List[ast.stmt]:
        for st in stmts:
            if isinstance(st, ast.For) and isinstance(st.target, ast.Name) and isinstance(st.iter, ast.Call) and attr_chain(st.iter.func) == 'range' \
                    and len(st.iter.args) == 1 and isinstance(st.iter.args[0], ast.Call) and attr_chain(st.iter.args[0].func) == 'len' \
                    and len(st.iter.args[0].args) == 1 and attr_chain(st.iter.args[0].args[0]) is not None:
                xs, i = st.iter.args[0].args[0], st.target.id
                xt = attr_chain(xs)
                base = (xt or '').split('.')[0]
                if any(isinstance(n, ast.Name) and n.id in (i, base) and isinstance(n.ctx, ast.Store) for b in st.body for n in ast.walk(b)) \
                        or any(isinstance(n, ast.Call) and isinstance(n.func, ast.Attribute) and attr_chain(n.func.value) == xt for b in st.body for n in ast.walk(b)):
                    continue
                k[0] += 1
                item = f'_item{k[0]}'

                class Put(ast.NodeTransformer):
                    def visit_Subscript(self, n: ast.Subscript) -> ast.AST:
                        self.generic_visit(n)
                        if attr_chain(n.value) == xt and isinstance(n.slice, ast.Name) and n.slice.id == i and isinstance(n.ctx, ast.Load):
                            return ast.copy_location(ast.Name(id=item, ctx=ast.Load()), n)
                        return n
                st.body = [Put().visit(b) for b in st.body]
                st.target = ast.Tuple(elts=[ast.Name(id=i, ctx=ast.Store()), ast.Name(id=item, ctx=ast.Store())], ctx=ast.Store())
                st.iter = ast.Call(func=ast.Name(id='enumerate', ctx=ast.Load()), args=[xs], keywords=[])
        return stmts
    _map_blocks(fn, f)


def _records_as_tuples(fn: ast.FunctionDef, methods: T.Dict[str, T.Any], records: T.Dict[str, T.List[str]]) -> None:
    """a small record class (NamedTuple / dataclass of the module) used instead of a tuple: `Rec(a, b)` -> `(a, b)`, and `v.field` -> `v[i]`
    for a loop variable v over the result of a method of the class whose return annotation names Rec"""
    if not records:
        return

    class Build(ast.NodeTransformer):
        def visit_Call(self, c: ast.Call) -> ast.AST:
            self.generic_visit(c)
            name = attr_chain(c.func)
            if name in records and not any(isinstance(a, ast.Starred) for a in c.args) and not any(k.arg is None for k in c.keywords):
                fields = records[name]
                vals: T.Dict[str, ast.AST] = dict(zip(fields, c.args))
                for k in c.keywords:
                    vals[T.cast(str, k.arg)] = k.value
                if len(c.args) <= len(fields) and set(vals) == set(fields):
                    return ast.copy_location(ast.Tuple(elts=[vals[f] for f in fields], ctx=ast.Load()), c)
            return c
    for i, st in enumerate(fn.body):
        fn.body[i] = Build().visit(st)

    def rec_of(e: ast.AST) -> T.Optional[str]:
        """record class of the elements of `e` (a call of a method of the class, or a local bound once to one)"""
        if isinstance(e, ast.Call) and attr_chain(e.func) in ('enumerate', 'list', 'tuple', 'reversed', 'iter') and e.args:
            return rec_of(e.args[0])
        if isinstance(e, ast.Name):
            defs = [n.value for n in ast.walk(fn) if isinstance(n, (ast.Assign, ast.AnnAssign)) and n.value is not None and
                    any(isinstance(t, ast.Name) and t.id == e.id for t in (n.targets if isinstance(n, ast.Assign) else [n.target]))]
            return rec_of(defs[0]) if len(defs) == 1 else None
        m = self_method_called(e) if isinstance(e, ast.Call) else None
        if m and m in methods and methods[m].returns is not None:
            ann = ast.unparse(methods[m].returns)
            hits = [r for r in records if r in {n.id for n in ast.walk(methods[m].returns) if isinstance(n, ast.Name)} or f"'{r}'" in ann or f'[{r}]' in ann]
            return hits[0] if len(hits) == 1 else None
        return None
    for loop in [n for n in ast.walk(fn) if isinstance(n, ast.For)]:
        rec = rec_of(loop.iter)
        if rec is None:
            continue
        tgt = loop.target
        if isinstance(loop.iter, ast.Call) and attr_chain(loop.iter.func) == 'enumerate' and isinstance(tgt, ast.Tuple) and len(tgt.elts) == 2:
            tgt = tgt.elts[1]
        if not isinstance(tgt, ast.Name):
            continue
        var, fields = tgt.id, records[rec]

        class Field(ast.NodeTransformer):
            def visit_Attribute(self, a: ast.Attribute) -> ast.AST:
                self.generic_visit(a)
                if isinstance(a.value, ast.Name) and a.value.id == var and a.attr in fields and isinstance(a.ctx, ast.Load):
                    return ast.copy_location(ast.Subscript(value=a.value, slice=ast.Constant(value=fields.index(a.attr)), ctx=ast.Load()), a)
                return a
        loop.body = [Field().visit(b) for b in loop.body]


def _desugar_suppress(fn: ast.FunctionDef) -> None:
    """`with contextlib.suppress(E1, ..): BODY` -> `try: BODY` / `except (E1, ..): pass` (the definition of suppress), so that a failure
    swallowed by either spelling is read by the same handler analysis; other items of the same `with` keep their nesting order"""
    def f(stmts: T.List[ast.stmt]) -> T.List[ast.stmt]:
        out: T.List[ast.stmt] = []
        for st in stmts:
            idx = [i for i, it in enumerate(st.items) if isinstance(it.context_expr, ast.Call) and it.optional_vars is None
                   and (attr_chain(it.context_expr.func) or '').split('.')[-1] == 'suppress' and not it.context_expr.keywords
                   and not any(isinstance(a, ast.Starred) for a in it.context_expr.args)] if isinstance(st, ast.With) else []
            if not idx:
                out.append(st)
                continue
            assert isinstance(st, ast.With)
            i = idx[0]
            excs = st.items[i].context_expr.args  # type: ignore[attr-defined]
            inner: T.List[ast.stmt] = st.body
            if st.items[i + 1:]:
                inner = f([ast.copy_location(ast.With(items=st.items[i + 1:], body=st.body), st)])
            if excs:
                typ = excs[0] if len(excs) == 1 else ast.Tuple(elts=list(excs), ctx=ast.Load())
                inner = [ast.copy_location(ast.Try(body=inner, handlers=[ast.copy_location(ast.ExceptHandler(type=typ, name=None, body=[ast.copy_location(ast.Pass(), st)]), st)],
                                                   orelse=[], finalbody=[]), st)]
            if st.items[:i]:
                inner = [ast.copy_location(ast.With(items=st.items[:i], body=inner), st)]
            out.extend(inner)
        return out
    _map_blocks(fn, f)


def canonicalise(fn: ast.FunctionDef, methods: T.Dict[str, T.Any], cls: str, consts: T.Optional[T.Dict[str, ast.AST]] = None,
                 records: T.Optional[T.Dict[str, T.List[str]]] = None) -> ast.FunctionDef:
    """in place on a private copy of a function: the spelling normalisations above"""
    _desugar_suppress(fn)
    _fold_constants(fn, consts or {})
    _records_as_tuples(fn, methods, records or {})
    _index_loops(fn)
    _desugar_next(fn)
    _unroll_constant_loops(fn)
    _inline_bool_locals(fn)
    _inline_named_conditions(fn)
    fn = _Canon(methods, cls).visit(fn)
    _statement_forms(fn)
    _bool_returns(fn)
    return ast.fix_missing_locations(fn)
