"""C06 - configuration is deterministic and leaves unchanged outputs alone (DESIGN section 2 C06, A.8, B.5)."""
from __future__ import annotations

import ast
import gc
import typing as T

from ..core import Module, Repo, Undecided, AnchorMissing, norm, short, attr_chain, walk_no_nested, kwarg, call_name
from ..report import Rule, RuleCtx
from ..cfg import CFG
from ..flow import Flow
from .. import paths as pathsmod
from .c06_types import Resolver
from .c06_sites import SiteScanner
from .c06_order import Site, UNORDERED
from . import c06_total

NINJA = 'mesonbuild/backend/ninjabackend.py'
BACKENDS = 'mesonbuild/backend/backends.py'
UNIVERSAL = 'mesonbuild/utils/universal.py'
INTERP = 'mesonbuild/interpreter/interpreter.py'
PKGCONFIG = 'mesonbuild/modules/pkgconfig.py'
CMAKE = 'mesonbuild/modules/cmake.py'

# quick scope: the modules that produce the generated text the statement lists (build.ninja, intro-*.json, test/install data,
# configure_file outputs, .pc files) and the option registration they serialise.
SCOPE = [NINJA, BACKENDS, 'mesonbuild/coredata.py', 'mesonbuild/mintro.py', UNIVERSAL, 'mesonbuild/compilers/compilers.py',
         INTERP, PKGCONFIG, 'mesonbuild/options.py', 'mesonbuild/build.py', 'mesonbuild/modules/i18n.py', 'mesonbuild/depfile.py']
# indexed for attribute / method tables only (callee summaries), not scanned in the quick tier
INDEX_EXTRA = ['mesonbuild/utils/core.py', 'mesonbuild/environment.py', 'mesonbuild/dependencies/base.py', 'mesonbuild/programs.py',
               'mesonbuild/compilers/__init__.py']

EXPLANATION = (
    'Decides structural clauses of C06. R1 (K10): in the modules that produce build.ninja, intro-*.json, test/install data, .pc files and '
    'configure_file outputs, every use of a value that is set-typed by annotation or construction is classified as DESIGN B.5 prescribes; '
    'an order-sensitive consumer (for-loop with an insertion-ordered effect, list()/tuple()/join()/comprehension/*-unpacking whose result '
    'escapes) that is not wrapped in sorted() is a violation, order-insensitive consumers are discharged, everything unclassifiable is '
    'information. The two unordered sources the statement names - os.environ iteration and directory listings (iterdir/listdir/scandir/'
    'glob/os.walk) - are typed like sets: armed in the text-producing modules; in dependency / compiler / tool detection they are '
    'information (probing depends on the layout found), except the shape that provably discards a written priority order (source '
    'filtered by membership in a list/tuple and collected in source order). mesonbuild/cargo/ is not detection but a translator of source-tree manifests into the build definition (generated meson.build AST, build-definition file list): a directory listing collected there into a sequence that leaves the function is armed like in the text producers (glob workspace members); a generator that only hands the listing on to its callers stays information. Hash order is armed as well in the modules that compute what the text producers write verbatim (dependency flattening, compile / link arguments, compiler-check inputs, wrap providers: dependencies/, compilers/, linkers/, interpreter/, wrap/, arglist, programs, utils/core, environment) for functions whose text shows a set construction or annotation; the uses listed in ARG_INFO (cache key, candidate lists the caller sorts, message text, devenv paths, method sets only tested for membership) are information. R2 (K3): in NinjaBuildElement.write every set-typed attribute reaches the written text only through sorted(). '
    'R3 (K1/K2): the five sibling writers of configure-time files open a temporary path, every normal path ends in '
    'replace_if_different(final, temporary) and that call is only reachable after the writer was closed (with-exit / close()); the same holds for module methods that write a '
    'file and return it as File.from_built_file (a source / input of build edges); copy mode of configure_file uses a copy that keeps the '
    'source mtime (copy2) or a temporary; inside replace_if_different os.replace happens exactly on the paths where the comparison did '
    'not prove equality and the equal path unlinks the temporary; build.ninja goes through temp + os.replace, and a handle that appends to the temporary (helper returning open(<parameter>, "a")) is dominated by a truncating open of the same path in the same function (else leftovers of an interrupted run are published). R2 follows the written text into phase methods of the class (a method whose result is written, a method handed the file); R4 reads what X.hash(hasher) feeds from the hash method of the class of X. R4 (K3): the scratch file '
    'names meson_exe_*/meson_rsp_* are functions of a digest fed by command, env, workdir, capture and feed and by nothing volatile; an object whose class defines hash(hasher) is fed '
    'through that method, not as str() text. '
    'R5 (K6): every un-keyed sorted()/sort()/min()/max() in scope whose elements are instances of a repository class relies on a __lt__ '
    'whose decision table is a strict total order consistent with __eq__. R5 covers every repository class that defines __lt__ (total_ordering classes without __eq__: the constructor-bound '
    'fields stand for the identity). R6: a name table filled while iterating a directory listing (directly or through a dict filled in listing order; self-method calls followed with constant flag binding) treats a name that is already registered as an error on every decision path the caller can reach - a tolerated collision (first or last registration wins) makes the provider depend on readdir order (wrap provided_deps / provided_programs). Unguarded keyed stores in listing order (last wins; whether keys can collide is value level) are information. Does NOT decide byte equality across runs (run-time relation), whether a digest that only shortens a file name is process-stable (builtin hash() of a str is salted per process, of an int is not: the operand type is value level; seed C06-r7-1, Backend.canonicalize_filename), whether the path tested by an exists()/compare guard of a write-if-changed block is the absolute or the cwd-relative spelling of the file that is written (two str variables holding the same path: value level; seed C06-r7-3, depscan pickle), whether serialised state is dumped '
    'before later configure steps mutate objects it aliases (e.g. dump_coredata vs. postconf hooks: run-time aliasing), whether per-machine cache keys carry the machine (DependencyCache) or a result cache key covers every input of the '
    'cached computation (run_check_cache), lists shared by aliasing between dict entries (add_*_arguments), leftovers of an earlier '
    'configure in the build directory that change what the next one emits (e.g. a dangling alias symlink kept because its removal is guarded by '
    'os.path.exists: file-system state, value level), hash order in the other '
    'mesonbuild/modules/*.py (information in the thorough tier: _qt tools dict, gnome gresource lookup, hotdoc include list - not exercised), '
    'run-state files that no build edge reads and that are rewritten on every configuration by design (intro-*.json, meson-private/*.dat, '
    'depmf.json, install/test pickles), the stale declaration kept by OptionStore.update_project_options for an unchanged type (C08), '
    'whether a dict filled in listing order by the caller of a listing generator is ever iterated (Manifest.bin filled from os.listdir(src/bin): only looked up by key / len today - round-14 probe: no generated file changes), '
    'orders that come from the file system or the environment, or hash order hidden behind untyped values (reported as information).')
ASSUMPTIONS = ['annotations T.Set/FrozenSet/AbstractSet/MutableSet and set()/frozenset()/{...} constructions denote builtin hash-ordered sets',
               'dict, list, OrderedSet, OrderedDict, deque keep insertion order; sorted() over str/int/tuples of those is total',
               'unresolved callees are never assumed order-insensitive: an ordered result handed to one counts as escaping']
TECHNIQUE = ('annotation-driven set typing + consumer / effect classification with callee summaries (K10); def-use origin flow with a '
             'sanitiser cut; CFG must-pass; path enumeration with paths pruned by the reaching *constant* definition of the tested flag; '
             'decision paths between membership test and keyed store for registries filled in listing order (sa.paths); decision table of __lt__ (sa.tables) with enumeration of the worlds of its atoms and a swapped-pair consistency check')

_CACHE: T.Dict[int, T.Any] = {}


def _func(mod: Module, qual: str) -> T.Any:
    """An anchor that is not where it used to be is 'written differently' (renamed, moved, merged), not a finding and not a crash."""
    if not mod.has_func(qual):
        raise Undecided(f'{mod.rel}: function {qual} not found (renamed or moved?)')
    return mod.func(qual)


class _NoGC:
    def __enter__(self) -> None:
        self.was = gc.isenabled()
        gc.disable()

    def __exit__(self, *a: T.Any) -> None:
        # the parsed trees live until the process ends: keep later collections (incl. the one at exit) from re-traversing them
        gc.freeze()
        if self.was:
            gc.enable()


def _scanner(ctx: RuleCtx) -> SiteScanner:
    key = id(ctx.repo)
    if key not in _CACHE or _CACHE[key][0] is not ctx.repo:
        if not getattr(ctx.repo, '_c06_example', False) and _CACHE:
            # a long-lived process (selftest worker, refcheck) checks one tree after the other: let go of the previous tree's
            # scanners and parsed modules (they were frozen by _NoGC and sit in reference cycles), otherwise memory grows per run
            _CACHE.clear()
            gc.unfreeze()
            gc.collect()
        index = SCOPE + INDEX_EXTRA if not getattr(ctx.repo, '_c06_example', False) else sorted(ctx.repo.overlay)
        res = Resolver(ctx.repo, index)
        _CACHE[key] = (ctx.repo, SiteScanner(ctx.repo, res))
    return _CACHE[key][1]  # type: ignore[no-any-return]


def _sites(ctx: RuleCtx, rel: str) -> T.List[Site]:
    sc = _scanner(ctx)
    key = ('sites', id(ctx.repo), rel)
    if key not in _CACHE:
        _CACHE[key] = sc.scan_module(ctx.repo.module(rel))   # type: ignore[index]
    return _CACHE[key]   # type: ignore[index,no-any-return]


# ---------------------------------------------------------------------------------------------- R1
EXAMPLE = '''
import typing as T
def hash_ordered(xs: T.Set[str]) -> T.List[str]:
    return list(xs)
def sanitised(xs: T.Set[str]) -> T.List[str]:
    return sorted(xs)
def fills_a_set(xs: T.Set[str]) -> T.Set[str]:
    out: T.Set[str] = set()
    for x in xs:
        out.add(x.lower())
    return out
'''


def _positive_example(ctx: RuleCtx) -> None:
    rel = 'mesonbuild/_c06_example.py'
    repo = Repo(ctx.repo.root, {rel: EXAMPLE})
    sc = SiteScanner(repo, Resolver(repo, [rel]))
    got = {s.func: s.verdict for s in sc.scan_module(repo.module(rel))}
    want = {'hash_ordered': 'violation', 'sanitised': 'sanitised', 'fills_a_set': 'benign'}
    if got != want:
        raise Undecided(f'built-in example of the K10 classifier gives {got}, expected {want}')
    ctx.note('built-in example: list(set) -> violation, sorted(set) -> sanitised, loop filling a set -> benign')


def _describe(s: Site) -> str:
    return f'{s.mod.rel}:{getattr(s.value, "lineno", 0)} {s.func}: {s.consumer} over `{short(s.value, 50)}` [{s.ty.why[:90]}]'


def _violation_text(s: Site) -> str:
    if UNORDERED in s.ty.why:
        what = s.ty.why[s.ty.why.index(UNORDERED) + len(UNORDERED):]
        return (f'{what} reaches output: `{short(s.value, 60)}` is ordered by the file system / process environment, not by the build '
                f'definition; {s.consumer}: {s.reason}').replace('hash order', 'that order').replace('of a set', 'of it').replace('over a set', 'over it')
    return f'hash order reaches output: `{short(s.value, 60)}` is a set ({s.ty.why[:120]}); {s.consumer}: {s.reason}'


# modules that decide compile / link / command arguments at configure time (dependency and tool detection): swept for the two
# unordered sources of the statement (environment-variable order, directory-listing order) only
WIDE_DIRS = ('mesonbuild/dependencies/', 'mesonbuild/compilers/', 'mesonbuild/cmake/', 'mesonbuild/cargo/', 'mesonbuild/linkers/')
WIDE_FILES = ('mesonbuild/environment.py', 'mesonbuild/envconfig.py', 'mesonbuild/programs.py', 'mesonbuild/machinefile.py')
_SRC_PAT = None
# Not detection: these modules translate the manifests found in the *source tree* into the build definition (members of a Cargo
# workspace -> the generated meson.build AST and the list of build-definition files build.ninja regenerates on).  A directory
# listing there is input of a text producer, armed like in SCOPE - for the shape whose order is content inside the function: the
# listing collected into a sequence that leaves it.  A generator only hands the elements on (the consumer - possibly a keyed
# registry, R6 - is in its callers, which this sweep does not follow): information.
TRANSLATOR_DIRS = ('mesonbuild/cargo/',)


def _is_generator(fn: ast.AST) -> bool:
    return any(isinstance(n, (ast.Yield, ast.YieldFrom)) for n in walk_no_nested(fn))


def _unordered_sweep(ctx: RuleCtx, scope: T.List[str]) -> None:
    """Outside the text producers the file system / environment is *probed* on purpose; whether listing order changes the outcome depends
    on the layout found (not decided: information).  One shape is decided everywhere: an unordered source filtered by membership in a
    priority sequence and collected in the source's order discards the priority order written in the source."""
    import re
    global _SRC_PAT
    if _SRC_PAT is None:
        _SRC_PAT = re.compile(r'iterdir\(|os\.listdir|os\.scandir|glob\.i?glob|\.rglob\(|\.glob\(|os\.walk|os\.environ\.(items|keys|values)\(|in os\.environ\b|\(os\.environ\)')
    sc = _scanner(ctx)
    nfun = nsites = ntranslated = 0
    for rel in ctx.repo.py_files('mesonbuild'):
        if rel in scope or not (rel.startswith(WIDE_DIRS) or rel in WIDE_FILES):
            continue
        src = ctx.repo.read(rel)
        if not _SRC_PAT.search(src):      # text pre-filter only: which files are worth parsing
            continue
        mod = ctx.repo.module(rel)
        lines = src.splitlines()
        for q, fn in mod.funcs().items():
            if not _SRC_PAT.search('\n'.join(lines[fn.lineno - 1:fn.end_lineno])):
                continue
            nfun += 1
            fc = sc._fc_chain(mod, fn, q)
            for s in sc.scan_function(mod, fn, q):
                if UNORDERED not in s.ty.why:
                    continue
                nsites += 1
                lost = sc.priority_discarded(s, fc) if s.verdict in ('violation', 'info') else None
                if lost and s.verdict == 'violation':
                    ctx.violation(s.mod, s.func, s.node, _violation_text(s) + '; ' + lost, s.value)
                elif s.verdict == 'violation' and rel.startswith(TRANSLATOR_DIRS) and 'directory-listing' in s.ty.why \
                        and not _is_generator(fn):
                    ntranslated += 1
                    ctx.violation(s.mod, s.func, s.node, _violation_text(s) + '; this module translates source-tree manifests into the '
                                  'build definition (generated meson.build, build-definition file list of build.ninja / intro-buildsystem_files.json): '
                                  'the sequence must not follow readdir order - wrap the listing in sorted()', s.value)
                elif s.verdict in ('benign', 'sanitised'):
                    ntranslated += rel.startswith(TRANSLATOR_DIRS) and 'directory-listing' in s.ty.why
                    ctx.ok(f'{_describe(s)} -> {s.verdict}{": " + s.reason if s.reason else ""}'[:300])
                elif rel.startswith(TRANSLATOR_DIRS) and _is_generator(fn):
                    ctx.note(f'manifest translator, not decided (a generator hands the listing on; its consumers are in the callers, not followed): {_describe(s)}'[:320])
                else:
                    ctx.note(f'probing order not decided ({s.verdict}): {_describe(s)}: {s.reason}'[:320])
    ctx.floor('detection functions that read the environment / list directories', nfun, 10)
    ctx.note(f'unordered-source sweep: {nfun} functions, {nsites} uses; {ntranslated} directory listings collected into a sequence decided in the manifest translators')


# modules that compute what the text producers write verbatim: dependency lists, compile / link / command arguments, compiler-check
# inputs, subproject providers.  A proven set (annotation / constructor / display) whose order escapes there reaches build.ninja
# and intro-*.json just as in the text producers: armed.  (Directory listings / os.environ there stay with the unordered sweep.)
ARG_DIRS = ('mesonbuild/dependencies/', 'mesonbuild/compilers/', 'mesonbuild/linkers/', 'mesonbuild/interpreter/', 'mesonbuild/wrap/')
ARG_FILES = ('mesonbuild/arglist.py', 'mesonbuild/programs.py', 'mesonbuild/utils/core.py', 'mesonbuild/environment.py')
# (module, function) whose present order-sensitive use of a set ends in something that is not generated text, or whose consumers
# live in callers this analysis does not follow: information, with the reason (not decided)
ARG_INFO = {
    ('mesonbuild/dependencies/detect.py', 'get_dep_identifier'): 'cache key of the dependency cache, not generated text',
    ('mesonbuild/dependencies/boost.py', 'BoostDependency.detect_libraries'): 'candidate list, filtered and sorted by the caller',
    ('mesonbuild/dependencies/cmake.py', 'CMakeDependency.__init__'): 'language list of the scratch CMake project (probing)',
    ('mesonbuild/dependencies/factory.py', 'factory_methods.inner.wrapped'): 'method set; the factories only test membership in the returned list',
    ('mesonbuild/dependencies/python.py', 'python_factory'): 'method set; the factory only tests membership in the returned list',
    ('mesonbuild/interpreter/type_checking.py', '_language_validator'): 'text of an error message',
    ('mesonbuild/environment.py', 'Environment.get_env_for_paths'): 'devenv / test environment path lists (DESIGN: information)',
}
_SET_PAT = None


def _hash_sweep(ctx: RuleCtx, scope: T.List[str]) -> None:
    """Hash order in the argument-producing modules.  Text pre-filter (which files / functions are worth parsing): the function
    mentions a set constructor, a set annotation, a set display or a set comprehension; sets that arrive untyped are not seen here."""
    import re
    global _SET_PAT
    if _SET_PAT is None:
        _SET_PAT = re.compile(r'\b(?:frozen)?set\(|[Ss]et\[|\{[^{}:\n]*\sfor\s|(?:[=(,\[|&^-]|\bin|\breturn|\byield)\s*\{[^{}:\n]+\}|\{[^{}:\n]*,\s*$', re.M)
    sc = _scanner(ctx)
    nfun = nsites = 0
    for rel in ctx.repo.py_files('mesonbuild'):
        if rel in scope or not (rel.startswith(ARG_DIRS) or rel in ARG_FILES):
            continue
        src = ctx.repo.read(rel)
        if not _SET_PAT.search(src):
            continue
        mod = ctx.repo.module(rel)
        lines = src.splitlines()
        for q, fn in mod.funcs().items():
            if not _SET_PAT.search('\n'.join(lines[fn.lineno - 1:fn.end_lineno])):
                continue
            nfun += 1
            for s in sc.scan_function(mod, fn, q):
                if UNORDERED in s.ty.why:
                    continue
                nsites += 1
                why = ARG_INFO.get((rel, s.func))
                if s.verdict == 'violation' and why is None:
                    ctx.violation(s.mod, s.func, s.node, _violation_text(s), s.value)
                elif s.verdict in ('benign', 'sanitised'):
                    ctx.ok(f'{_describe(s)} -> {s.verdict}{": " + s.reason if s.reason else ""}'[:300])
                else:
                    ctx.note(f'argument producers, not decided ({why or s.verdict}): {_describe(s)}: {s.reason}'[:320])
    ctx.floor('argument-producing functions that mention a set', nfun, 20)
    ctx.note(f'hash-order sweep of the argument producers: {nfun} functions, {nsites} uses of set-typed values')


def r1(ctx: RuleCtx) -> None:
    with _NoGC():
        _positive_example(ctx)
        counts = {'violation': 0, 'benign': 0, 'sanitised': 0, 'info': 0}
        scope = list(SCOPE)
        for rel in scope:
            for s in sorted(_sites(ctx, rel), key=lambda s: getattr(s.value, 'lineno', 0)):
                counts[s.verdict] += 1
                if s.verdict == 'violation':
                    ctx.violation(s.mod, s.func, s.node, _violation_text(s), s.value)
                elif s.verdict in ('benign', 'sanitised'):
                    ctx.ok(f'{_describe(s)} -> {s.verdict}{": " + s.reason if s.reason else ""}'[:300])
                else:
                    ctx.note(f'unclassified: {_describe(s)}: {s.reason}'[:320])
        ctx.floor('uses of set-typed values classified in scope', sum(counts.values()), 30)
        ctx.floor('consumers discharged as order-insensitive', counts['benign'], 15)
        ctx.floor('consumers sanitised by sorted()', counts['sanitised'], 3)
        sc = _scanner(ctx)
        ctx.note(f'sites: {counts}; callee resolution in summaries: {sc.calls_resolved} resolved, {sc.calls_unresolved} unresolved')
        _unordered_sweep(ctx, scope)
        _hash_sweep(ctx, scope)
        if ctx.thorough:
            _thorough_information(ctx, scope)


def _thorough_information(ctx: RuleCtx, scope: T.List[str]) -> None:
    """Whole package, open resolution; everything outside the quick scope is information only (DESIGN: e.g. the devenv path lists)."""
    extra = [f for f in ctx.repo.py_files('mesonbuild') if f not in scope]
    saved = getattr(ctx.repo, '_c06_allowed', None)
    n = 0
    try:
        wide = SiteScanner(ctx.repo, Resolver(ctx.repo, scope + INDEX_EXTRA, closed=False))
        for rel in extra:
            try:
                for s in wide.scan_module(ctx.repo.module(rel)):
                    if s.verdict in ('violation', 'info'):
                        n += 1
                        ctx.note(f'out of quick scope ({"order-sensitive" if s.verdict == "violation" else "unclassified"}): {_describe(s)}: {s.reason}'[:320])
            except RecursionError:
                ctx.note(f'out of quick scope: {rel}: not analysed (recursion limit)')
    finally:
        ctx.repo._c06_allowed = saved   # type: ignore[attr-defined]
    ctx.note(f'thorough: {len(extra)} further modules scanned, {n} order-sensitive or unclassified uses reported as information')


# ---------------------------------------------------------------------------------------------- R2
def _alpha_comprehensions(fn: ast.AST) -> T.Any:
    """Copy of fn in which every comprehension has its own variable names (they are separate scopes in Python 3;
    sa.flow is flow-insensitive per *name*, so `x` of one comprehension would inherit the origins of another's `x`)."""
    import copy
    fn = copy.deepcopy(fn)
    counter = [0]

    class R(ast.NodeTransformer):
        def _comp(self, node: T.Any) -> ast.AST:
            self.generic_visit(node)    # inner comprehensions first
            counter[0] += 1
            names = {n.id for g in node.generators for n in ast.walk(g.target) if isinstance(n, ast.Name)}
            first_iter = node.generators[0].iter
            skip = {id(x) for x in ast.walk(first_iter)}
            for n in ast.walk(node):
                if isinstance(n, ast.Name) and n.id in names and id(n) not in skip:
                    n.id = f'{n.id}__c{counter[0]}'
            return node    # type: ignore[no-any-return]
        visit_ListComp = visit_SetComp = visit_DictComp = visit_GeneratorExp = _comp
    return R().visit(fn)


class _TextSink(T.NamedTuple):
    qual: str
    fn: T.Any           # alpha-renamed copy of the function the sink is in
    raw: Flow
    cut: Flow
    kind: str           # 'write' (<param>.write(expr)) | 'return' (value of a method whose result a sink writes)
    expr: ast.AST
    node: ast.AST


def _r2_text_sinks(ctx: RuleCtx, mod: Module, qual0: str) -> T.List[_TextSink]:
    """Closed-world reading of "the text NinjaBuildElement.write writes": the arguments of `<param>.write(..)` / `.writelines(..)`
    in the writer, and - following calls to methods of the same class - (a) the returned values of a method whose call result
    flows into a sink (phase method that RETURNS the line), (b) the `<param>.write(..)` arguments of a method that is handed one of
    the caller's parameters (phase method that writes its part itself).  Module-level helpers are not followed: they cannot read
    self.<set> except through an argument, which is judged at the call site."""
    out: T.List[_TextSink] = []
    seen: T.Set[T.Tuple[str, bool]] = set()
    work: T.List[T.Tuple[Module, str, bool, int]] = [(mod, qual0, False, 0)]
    while work:
        m, qual, returns_text, depth = work.pop(0)
        if m.rel != mod.rel:
            raise Undecided(f'{qual0}: part of the text is produced by {m.rel}:{qual} (inherited method), which this rule does not read')
        if (qual, returns_text) in seen or (qual, True) in seen:
            continue
        writes_read = (qual, False) in seen
        seen.add((qual, returns_text))
        fn = _alpha_comprehensions(m.func(qual))    # engine work-around: sa.flow merges comprehension variables of the same name
        raw = Flow(fn, nested=False)
        cut = Flow(fn, cut={'sorted'}, nested=False)
        mine: T.List[_TextSink] = []
        for c in walk_no_nested(fn):
            if isinstance(c, ast.Call) and isinstance(c.func, ast.Attribute) and c.func.attr in ('write', 'writelines') \
                    and isinstance(c.func.value, ast.Name) and c.func.value.id in raw.params and c.args and not writes_read:
                mine.append(_TextSink(qual, fn, raw, cut, 'write', c.args[0], c))
            elif isinstance(c, ast.Return) and c.value is not None and returns_text:
                mine.append(_TextSink(qual, fn, raw, cut, 'return', c.value, c))
        out += mine
        text_origins: T.Set[str] = set()
        for s in mine:
            text_origins |= raw.origins(s.expr)
        for c in walk_no_nested(fn):
            if not (isinstance(c, ast.Call) and isinstance(c.func, ast.Attribute) and isinstance(c.func.value, ast.Name)
                    and c.func.value.id in ('self', 'cls')):
                continue
            h = _helper_of(ctx, m, qual, c)
            if h is None or not h[3]:
                continue
            feeds_text = f'call:{call_name(c)}' in text_origins
            hands_file = any(isinstance(a, ast.Name) and a.id in raw.params and a.id not in ('self', 'cls')
                             for a in list(c.args) + [k.value for k in c.keywords])
            if not (feeds_text or hands_file):
                continue
            if depth >= 3:
                raise Undecided(f'{qual}: the written text is produced more than three calls deep ({short(c, 50)}), which this rule does not follow')
            work.append((h[0], h[1], feeds_text, depth + 1))
    return out


def _r2_core(ctx: RuleCtx) -> None:
    mod = ctx.repo.module(NINJA)
    if not mod.has_cls('NinjaBuildElement'):
        raise Undecided(f'{mod.rel}: class NinjaBuildElement not found (renamed or moved?)')
    cls = mod.cls('NinjaBuildElement')
    _func(mod, 'NinjaBuildElement.write')
    table = Resolver(ctx.repo, [NINJA]).attr_table(mod, cls)
    set_attrs = sorted(a for a, t in table.items() if t.kind == 'set')
    sinks = _r2_text_sinks(ctx, mod, 'NinjaBuildElement.write')
    if not any(s.kind == 'write' for s in sinks):
        raise Undecided('NinjaBuildElement.write: no <param>.write(text) call found')
    written = 0
    for a in set_attrs:
        origin = f'attr:self.{a}'
        reaching = [s for s in sinks if origin in s.raw.origins(s.expr)]
        if not reaching:
            continue
        written += 1
        for s in reaching:
            fn, w = s.fn, s.node
            o = s.cut.origins(s.expr)
            # the sorted() calls that carry this attribute
            carriers = [c for c in ast.walk(fn) if isinstance(c, ast.Call) and isinstance(c.func, ast.Name) and c.func.id == 'sorted'
                        and c.args and origin in s.raw.origins(c.args[0])]
            ok = origin not in o and 'san:sorted' in o and bool(carriers)
            if not ok:
                # closed world: the unsorted use must be a consumer the K10 classifier reads as order-sensitive; a flow through a helper
                # or an idiom it cannot classify is not a finding
                verdicts = {s2.verdict for s2 in _sites(ctx, NINJA) if s2.func == s.qual and attr_chain(s2.value) == f'self.{a}'}
                if 'violation' not in verdicts:
                    raise Undecided(f'{s.qual}: self.{a} reaches {short(w, 40)} without a sorted() on the way, but no consumer of it is '
                                    f'classified as order-sensitive (site verdicts: {sorted(verdicts)})')
            bad_reads = [n for n in ast.walk(fn) if isinstance(n, ast.Attribute) and attr_chain(n) == f'self.{a}'] if not ok else []
            sink_text = f'{norm(w.func)}(...)' if s.kind == 'write' else 'return (text written by NinjaBuildElement.write)'
            ctx.require(ok, f'{s.qual}: self.{a} (set) reaches `{short(w, 40)}` only through sorted() ({len(carriers)} sorted call(s))',
                        mod, s.qual, f'self.{a} -> {sink_text}',
                        f'the set self.{a} flows into the text written by {short(w, 50)} without passing sorted(): the build statement lists it in hash order',
                        bad_reads[0] if bad_reads else w)
    ctx.floor('set-typed attributes written by NinjaBuildElement.write', written, 2)
    # the fillers really are sets (add_dep / add_orderdep store into them): the summary R1 relies on
    for meth, attr in (('add_dep', 'deps'), ('add_orderdep', 'orderdeps')):
        q2 = f'NinjaBuildElement.{meth}'
        f2 = _func(mod, q2)

        def set_muts(fn: ast.AST, target: str) -> T.List[ast.AST]:
            out: T.List[ast.AST] = []
            for n in ast.walk(fn):
                if isinstance(n, ast.Call) and isinstance(n.func, ast.Attribute) and n.func.attr in ('add', 'update') and attr_chain(n.func.value) == target:
                    out.append(n)
                elif isinstance(n, ast.AugAssign) and isinstance(n.op, ast.BitOr) and attr_chain(n.target) == target:
                    out.append(n)
            return out
        muts = set_muts(f2, f'self.{attr}')
        via = ''
        if not muts:
            # the store may live in a helper of the class that is handed the set (duplicated fillers merged into one)
            for c in ast.walk(f2):
                if isinstance(c, ast.Call) and any(attr_chain(x) == f'self.{attr}' for x in c.args):
                    h = _helper_of(ctx, mod, q2, c)
                    if h is None:
                        raise Undecided(f'{q2}: self.{attr} is handed to {short(c, 50)}, which this rule does not read')
                    bound = _bind_args(c, h[2], h[3])
                    pn = [k for k, v in bound.items() if attr_chain(v) == f'self.{attr}']
                    if pn and set_muts(h[2], pn[0]) and not [x for x in ast.walk(h[2]) if isinstance(x, ast.Call) and isinstance(x.func, ast.Attribute)
                                                              and x.func.attr in ('append', 'extend', 'insert') and attr_chain(x.func.value) == pn[0]]:
                        muts = [c]
                        via = f' (through {h[1]})'
            if not muts and not any(isinstance(n, ast.Attribute) and attr_chain(n) == f'self.{attr}' for n in ast.walk(f2)):
                raise Undecided(f'{q2}: does not mention self.{attr}; where the dependency is stored is not read')
        others = [c for c in ast.walk(f2) if isinstance(c, ast.Call) and isinstance(c.func, ast.Attribute)
                  and c.func.attr in ('append', 'extend', 'insert') and (attr_chain(c.func.value) or '').startswith('self.')]
        ctx.require(bool(muts) and not others and table.get(attr) is not None and table[attr].kind == 'set',
                    f'NinjaBuildElement.{meth} stores only into the set self.{attr}{via}', mod, q2, f2,
                    f'{meth} no longer stores its argument (only) into the set self.{attr}'
                    + (f' (it does {short(others[0], 50)})' if others else '') + ': callers pass hash-ordered lists to it',
                    others[0] if others else f2)


# ---------------------------------------------------------------------------------------------- R3
WRITERS = [(UNIVERSAL, 'do_conf_file'), (UNIVERSAL, 'dump_conf_header'), (INTERP, 'Interpreter.func_configure_file'),
           (PKGCONFIG, 'PkgConfigModule._generate_pkgconfig_file'), (CMAKE, 'CmakeModule.create_package_file')]


def _write_opens(fn: ast.AST) -> T.List[ast.Call]:
    out = []
    for c in walk_no_nested(fn):
        if isinstance(c, ast.Call) and attr_chain(c.func) in ('open', 'io.open', 'codecs.open') and c.args:
            mode = c.args[1] if len(c.args) > 1 else kwarg(c, 'mode')
            if isinstance(mode, ast.Constant) and isinstance(mode.value, str) and any(ch in mode.value for ch in 'wax'):
                out.append(c)
    return sorted(out, key=lambda c: c.lineno)


def _open_mode(c: ast.Call) -> str:
    mode = c.args[1] if len(c.args) > 1 else kwarg(c, 'mode')
    return mode.value if isinstance(mode, ast.Constant) and isinstance(mode.value, str) else ''


def _ptext(e: T.Optional[ast.AST]) -> str:
    """Normalised text of a path expression with str() / os.fspath() / Path() wrappers removed."""
    while isinstance(e, ast.Call) and len(e.args) == 1 and not e.keywords and (attr_chain(e.func) or '') in ('str', 'os.fspath', 'Path', 'fspath', 'pathlib.Path'):
        e = e.args[0]
    return norm(e)


def _path_writes(fn: ast.AST) -> T.List[ast.Call]:
    return sorted((c for c in walk_no_nested(fn) if isinstance(c, ast.Call) and isinstance(c.func, ast.Attribute)
                   and c.func.attr in ('write_text', 'write_bytes')), key=lambda c: c.lineno)


# calls that take a path without publishing it
PATH_NEUTRAL = {'copymode', 'copystat', 'makedirs', 'chmod', 'join', 'dirname', 'basename', 'exists', 'isfile', 'log', 'debug', 'bold',
                'relpath', 'abspath', 'normpath', 'open', 'write_text', 'write_bytes', 'str', 'Path', 'fspath', 'format', 'warning', 'unlink',
                'remove', 'replace', 'from_built_file', 'from_absolute_file'}


def _unread_calls_on(fn: ast.AST, texts: T.Set[str], skip: T.Sequence[ast.AST]) -> T.List[str]:
    """Calls that receive one of the path expressions and that the rule does not understand (a helper that may publish the file)."""
    out = []
    for c in walk_no_nested(fn):
        if isinstance(c, ast.Call) and not any(c is x for x in skip):
            name = c.func.attr if isinstance(c.func, ast.Attribute) else (c.func.id if isinstance(c.func, ast.Name) else '?')
            if name in PATH_NEUTRAL or name in ('replace_if_different', 'move', 'rename') or (attr_chain(c.func) or '').split('.')[0] == 'mlog':
                continue      # neutral, or a publishing call that _finished_by reads by its argument positions
            if any(norm(a) in texts for a in list(c.args) + [k.value for k in c.keywords]):
                out.append(short(c, 60))
    return out


def _helper_of(ctx: RuleCtx, mod: Module, qual: str, call: ast.Call) -> T.Optional[T.Tuple[Module, str, T.Any, bool]]:
    """A repository helper of the same class (self.m / cls.m, MRO) or the same module (bare name): (module, qualname, def, is_method)."""
    f = call.func
    if isinstance(f, ast.Attribute) and isinstance(f.value, ast.Name) and f.value.id in ('self', 'cls') and '.' in qual:
        cname = qual.rsplit('.', 1)[0]
        if mod.has_func(f'{cname}.{f.attr}'):
            return mod, f'{cname}.{f.attr}', mod.func(f'{cname}.{f.attr}'), True
        if mod.has_cls(cname):
            fm = ctx.repo.find_method(mod, mod.cls(cname), f.attr)
            if fm is not None:
                return fm[0], f'{fm[1].name}.{fm[2].name}', fm[2], True
    if isinstance(f, ast.Name) and mod.has_func(f.id):
        return mod, f.id, mod.func(f.id), False
    return None


def _bind_args(call: ast.Call, fn: T.Any, is_method: bool) -> T.Dict[str, ast.AST]:
    pos = [a.arg for a in fn.args.posonlyargs + fn.args.args]
    if is_method and pos and 'staticmethod' not in {attr_chain(d) for d in fn.decorator_list}:
        pos = pos[1:]
    out: T.Dict[str, ast.AST] = {}
    for i, a in enumerate(call.args):
        if isinstance(a, ast.Starred):
            break
        if i < len(pos):
            out[pos[i]] = a
    for k in call.keywords:
        if k.arg:
            out[k.arg] = k.value
    return out


def _helper_writes(ctx: RuleCtx, mod: Module, qual: str, call: ast.Call, depth: int = 0) -> T.Optional[str]:
    """`call` goes to a helper that opens one of its parameters for writing and closes it before it returns:
    the normalised text of the argument bound to that parameter (the path written), else None."""
    h = _helper_of(ctx, mod, qual, call)
    if h is None or depth > 2:
        return None
    m2, q2, f2, is_method = h
    bound = _bind_args(call, f2, is_method)
    for op in _write_opens(f2):
        a0 = op.args[0]
        if isinstance(a0, ast.Name) and a0.id in bound:
            par = [x for x in walk_no_nested(f2) if isinstance(x, ast.Return) and x.value is op]
            if par:
                continue            # hands the open file out: the caller's `with helper(P)` is the handle (judged there)
            cfg = CFG(f2)
            closes = _close_nodes(cfg, f2, op, q2)
            if not all(cfg.must_pass(on, cfg.exit_return, closes, no_exc=True) for on in cfg.node_containing(op)):
                raise Undecided(f'{q2}: opens its parameter {a0.id} for writing and may return with the file still open')
            return norm(bound[a0.id])
    for c in walk_no_nested(f2):
        if isinstance(c, ast.Call) and c is not call:
            inner = _helper_writes(ctx, m2, q2, c, depth + 1)
            if inner is not None and inner in bound:
                return norm(bound[inner])
    return None


KNOWN_SIGNATURES = {'replace': ('src', 'dst'), 'rename': ('src', 'dst'), 'move': ('src', 'dst'), 'unlink': ('path',), 'remove': ('path',),
                    'copy': ('src', 'dst'), 'copy2': ('src', 'dst'), 'copyfile': ('src', 'dst')}


def _pos_args(ctx: RuleCtx, call: ast.Call) -> T.List[T.Optional[ast.AST]]:
    """Arguments of a call in positional order, keywords bound by the callee's signature (repository function of that name, or the
    documented signature of the few os / shutil functions the rule reads)."""
    name = (attr_chain(call.func) or '').split('.')[-1]
    out: T.List[T.Optional[ast.AST]] = [a for a in call.args if not isinstance(a, ast.Starred)]
    if not call.keywords:
        return out
    params: T.Optional[T.Sequence[str]] = KNOWN_SIGNATURES.get(name)
    if name == 'replace_if_different':
        u = ctx.repo.module(UNIVERSAL)
        if u.has_func(name):
            params = [a.arg for a in u.func(name).args.args]
    if params is None:
        return out
    for k in call.keywords:
        if k.arg in params:
            i = list(params).index(k.arg)
            while len(out) <= i:
                out.append(None)
            out[i] = k.value
    return out


def _helper_finishes(ctx: RuleCtx, mod: Module, qual: str, call: ast.Call, finisher: str, dst_index: int, tmp_index: int) -> T.Optional[T.Tuple[str, str]]:
    """`call` goes to a helper in which every normal path passes finisher(<param>, <param>): (dst text, tmp text) as bound at the call."""
    h = _helper_of(ctx, mod, qual, call)
    if h is None:
        return None
    m2, q2, f2, is_method = h
    bound = _bind_args(call, f2, is_method)
    cands = [c for c in walk_no_nested(f2) if isinstance(c, ast.Call) and (attr_chain(c.func) or '').split('.')[-1] == finisher
             and len(c.args) > max(dst_index, tmp_index) and all(isinstance(c.args[i], ast.Name) and c.args[i].id in bound for i in (dst_index, tmp_index))]
    if not cands:
        return None
    cfg = CFG(f2)
    for c in cands:
        nodes = cfg.node_containing(c)
        if nodes and cfg.must_pass(cfg.entry, cfg.exit_return, nodes, no_exc=True):
            return norm(bound[c.args[dst_index].id]), norm(bound[c.args[tmp_index].id])   # type: ignore[attr-defined]
    return None


def _cm_finishers(ctx: RuleCtx, mod: Module, qual: str, fn: ast.AST, finisher: str, dst_index: int, tmp_index: int, p: str) -> T.List[T.Tuple[ast.With, int]]:
    """`with helper(final) as P:` where helper is a @contextmanager generator of the same class / module that yields the temporary's
    name once and, on every normal path after the yield, calls finisher(final-parameter, yielded name): the publication happens when
    the with block is left normally.  -> [(with statement, index of that item)]."""
    from ..core import decorator_names
    out: T.List[T.Tuple[ast.With, int]] = []
    for w in walk_no_nested(fn):
        if not isinstance(w, (ast.With, ast.AsyncWith)):
            continue
        for idx, item in enumerate(w.items):
            ce = item.context_expr
            if not (isinstance(ce, ast.Call) and item.optional_vars is not None and norm(item.optional_vars) == p):
                continue
            h = _helper_of(ctx, mod, qual, ce)
            if h is None or not any(d.split('.')[-1] == 'contextmanager' for d in decorator_names(h[2])):
                continue
            m2, q2, f2, is_method = h
            yields = [y for y in walk_no_nested(f2) if isinstance(y, ast.Yield)]
            if len(yields) != 1 or yields[0].value is None:
                continue
            ytext = _ptext(yields[0].value)
            bound = {k: _ptext(v) for k, v in _bind_args(ce, f2, is_method).items()}
            hcfg = CFG(f2)
            ynodes = hcfg.node_containing(yields[0])
            good = []
            for c in walk_no_nested(f2):
                if isinstance(c, ast.Call) and (attr_chain(c.func) or '').split('.')[-1] == finisher:
                    pa = _pos_args(ctx, c)
                    if len(pa) > max(dst_index, tmp_index) and pa[tmp_index] is not None and pa[dst_index] is not None \
                            and _ptext(pa[tmp_index]) == ytext and bound.get(_ptext(pa[dst_index]), p) != p:
                        good += hcfg.node_containing(c)
            if good and ynodes and all(hcfg.must_pass(y, hcfg.exit_return, good, no_exc=True) for y in ynodes):
                out.append((w, idx))
    return out


def _finished_by(ctx: RuleCtx, mod: Module, qual: str, finisher: str, dst_index: int, tmp_index: int) -> int:
    """Every open(P, 'w') in the function - directly or in a same-class / same-module helper that is handed P - is followed on every
    normal path by finisher(.., P, ..) whose destination differs from P, and only after the writer was closed."""
    fn = _func(mod, qual)
    calls = [c for c in walk_no_nested(fn) if isinstance(c, ast.Call)]
    sites: T.List[T.Tuple[ast.Call, str, bool]] = [(op, _ptext(op.args[0]), True) for op in _write_opens(fn)]
    sites += [(c, _ptext(c.func.value), False) for c in _path_writes(fn)]     # Path(P).write_text(...): written and closed in one call
    for c in calls:
        if not any(c is s[0] for s in sites):
            pw = _helper_writes(ctx, mod, qual, c)
            if pw is not None:
                sites.append((c, pw, False))
    # handles that APPEND to a path (helper that returns open(<its parameter>, 'a')): what is published is whatever the path held
    # before plus the new text, so every such handle must be dominated by a truncating open of the same path in this function
    # (else the leftovers of an interrupted earlier run end up in the published file: the output depends on the directory's history)
    appenders: T.List[T.Tuple[ast.Call, str]] = []
    for c in calls:
        h = _helper_of(ctx, mod, qual, c)
        if h is None or h[1] == qual:
            continue
        bound_a = _bind_args(c, h[2], h[3])
        for r in walk_no_nested(h[2]):
            v = r.value if isinstance(r, ast.Return) else None
            if isinstance(v, ast.Call) and v in _write_opens(h[2]) and isinstance(v.args[0], ast.Name) and v.args[0].id in bound_a \
                    and 'a' in _open_mode(v) and not any(cc is c for cc, _ in appenders):
                appenders.append((c, _ptext(bound_a[v.args[0].id])))
    if not sites and not appenders:
        return 0
    cfg = CFG(fn)
    for c, p in appenders:
        trunc = [n for op, p2, direct in sites if p2 == p and not (direct and 'a' in _open_mode(op)) for n in cfg.node_containing(op)]
        here = cfg.node_containing(c)
        if not here:
            raise Undecided(f'{qual}: call {short(c, 40)} not found in the CFG')
        ctx.require(all(cfg.dominated_by_any(n, trunc, no_exc=True) for n in here),
                    f'{mod.rel}:{qual}: `{short(c, 50)}` appends to {p} only after it was created / truncated by an open(.., "w") in this function',
                    mod, qual, f'append handle on {p} without a truncating open before it',
                    f'`{short(c, 60)}` opens {p} in append mode and no open({p}, "w") precedes it on every path: a stale {p} left by an '
                    'interrupted earlier configuration is appended to and then published, so the generated file depends on the build '
                    "directory's history", c)
    for op, p, direct in sites:
        fins = []
        for c in calls:
            pa = _pos_args(ctx, c) if (attr_chain(c.func) or '').split('.')[-1] == finisher else []
            if len(pa) > max(dst_index, tmp_index) and pa[tmp_index] is not None and pa[dst_index] is not None:
                if _ptext(pa[tmp_index]) == p and _ptext(pa[dst_index]) != p:
                    fins.append(c)
            elif c is not op:
                hf = _helper_finishes(ctx, mod, qual, c, finisher, dst_index, tmp_index)
                if hf is not None and hf[1] == p and hf[0] != p:
                    fins.append(c)
        open_nodes = cfg.node_containing(op)
        if not open_nodes:
            raise Undecided(f'{qual}: open() call not found in the CFG')
        fin_nodes = [n for c in fins for n in cfg.node_containing(c)]
        cms = _cm_finishers(ctx, mod, qual, fn, finisher, dst_index, tmp_index, p)
        cm_exit: T.Dict[int, T.Tuple[ast.With, int]] = {}
        for w, idx in cms:
            for n in cfg.nodes:
                if n.kind == 'with_exit' and n.ast is w:
                    cm_exit[n.id] = (w, idx)
                    fin_nodes.append(n)
        ok = bool(fin_nodes) and all(cfg.must_pass(on, cfg.exit_return, fin_nodes, no_exc=True) for on in open_nodes)
        if not fins and not cms:
            # absence finding: only when no call the rule cannot read is handed this path (it could publish it)
            unread = _unread_calls_on(fn, {p}, [op])
            if unread:
                raise Undecided(f'{qual}: `{short(op, 40)}` is not followed by {finisher}(final, {p}) here, but {p} is handed to {unread[:3]}, '
                                'which this rule does not read')
        what = short(op, 50) if direct else f'{short(op, 50)} (helper that opens its argument for writing and closes it)'
        ctx.require(ok, f'{mod.rel}:{qual}: `{what}` writes a temporary and every normal path ends in {finisher}(final, {p})',
                    mod, qual, op,
                    (f'`{short(op, 60)}` is not followed on every normal path by {finisher}(<final>, {p}): ' +
                     ('no such call exists - the final name is opened directly, so the file is rewritten (mtime changes) even when its content is unchanged'
                      if not fins else 'some path leaves the function without it')), op)
        # publication happens after the writer is closed: a still open (unflushed) temporary compares different / is moved half-written
        if fin_nodes:
            closes: T.List[T.Any] = []
            early: T.List[T.Any] = []
            if direct:
                closes = _close_nodes(cfg, fn, op, qual)
                early = [fnode for fnode in fin_nodes for on in open_nodes
                         if fnode.id not in cm_exit and cfg.can_reach(on, fnode, no_exc=True) and not cfg.must_pass(on, fnode, closes, no_exc=True)]
                for fnode in fin_nodes:
                    if fnode.id not in cm_exit:
                        continue
                    w, idx = cm_exit[fnode.id]
                    mine = [j for j, it in enumerate(w.items) if it.context_expr is op]
                    if mine:
                        # same `with`: items are left in reverse order, so the file is closed first only if it was entered later
                        if mine[0] < idx:
                            early.append(fnode)
                    elif any(cfg.can_reach(on, fnode, no_exc=True) and not cfg.must_pass(on, fnode, closes, no_exc=True) for on in open_nodes):
                        early.append(fnode)
            # any other `with <call>(..., P, ...)` is a handle on the same temporary (e.g. a helper that re-opens it for appending)
            holders = 0
            for w in walk_no_nested(fn):
                if isinstance(w, (ast.With, ast.AsyncWith)) and not any(w is cw for cw, _ in cms) and any(
                        isinstance(i.context_expr, ast.Call) and i.context_expr is not op and
                        any(norm(a) == p for a in list(i.context_expr.args) + [k.value for k in i.context_expr.keywords]) for i in w.items):
                    holders += 1
                    enters = [n for n in cfg.nodes if n.kind == 'with_enter' and n.ast is w]
                    exits = [n for n in cfg.nodes if n.kind == 'with_exit' and n.ast is w]
                    early += [fnode for fnode in fin_nodes for en in enters
                              if cfg.can_reach(en, fnode, no_exc=True) and not cfg.must_pass(en, fnode, exits, no_exc=True)]
            ctx.require(not early, f'{mod.rel}:{qual}: the file opened by `{short(op, 40)}`{f" (and {holders} further with-handle(s) on {p})" if holders else ""} is closed on every path before {finisher}(final, {p}) '
                        f'({len(closes) if direct else "closed inside the helper"} close node(s))', mod, qual, f'{finisher}(..., {p}) before close of {short(op, 40)}',
                        f'{finisher}(final, {p}) can run before the writer is closed (the call is reachable from `{short(op, 50)}` without passing '
                        "the with-exit / .close() of that file): the temporary is still unflushed, so the comparison sees a difference and the "
                        'unchanged output is replaced on every reconfigure (or a truncated file is published)',
                        early[0].ast if early else op)
    return len(sites) + len(appenders)


def _finished_by_deep(ctx: RuleCtx, mod: Module, qual: str, finisher: str, dst_index: int, tmp_index: int, depth: int = 0) -> int:
    """_finished_by, and when the function writes nothing itself: the same obligation in the helpers of its class / module it calls
    (the whole write-and-publish block extracted into a helper)."""
    k = _finished_by(ctx, mod, qual, finisher, dst_index, tmp_index)
    if k or depth >= 2:
        return k
    seen: T.Set[str] = set()
    for c in walk_no_nested(_func(mod, qual)):
        if isinstance(c, ast.Call):
            h = _helper_of(ctx, mod, qual, c)
            if h is not None and h[1] not in seen and h[1] != qual:
                seen.add(h[1])
                if _write_opens(h[2]) or _path_writes(h[2]) or depth < 1:
                    k += _finished_by_deep(ctx, h[0], h[1], finisher, dst_index, tmp_index, depth + 1)
    return k


def _close_nodes(cfg: CFG, fn: ast.AST, op: ast.Call, qual: str) -> T.List[T.Any]:
    """CFG nodes at which the file object created by `op` is closed: the with-exit nodes of its `with`, or `<name>.close()`."""
    # `stack.enter_context(open(...))`: the file is closed when the `with ... as stack` block is left
    for c in walk_no_nested(fn):
        if isinstance(c, ast.Call) and isinstance(c.func, ast.Attribute) and c.func.attr == 'enter_context' and any(a is op for a in c.args):
            stack_name = attr_chain(c.func.value)
            for w in walk_no_nested(fn):
                if isinstance(w, (ast.With, ast.AsyncWith)) and any(i.optional_vars is not None and attr_chain(i.optional_vars) == stack_name for i in w.items):
                    exits = [n for n in cfg.nodes if n.kind == 'with_exit' and n.ast is w]
                    if exits:
                        return exits
    for w in walk_no_nested(fn):
        if isinstance(w, (ast.With, ast.AsyncWith)) and any(i.context_expr is op or (isinstance(i.context_expr, ast.Call) and any(a is op for a in i.context_expr.args))
                                                             for i in w.items):
            exits = [n for n in cfg.nodes if n.kind == 'with_exit' and n.ast is w]
            if not exits:
                raise Undecided(f'{qual}: no with-exit node for `{short(op, 40)}`')
            return exits
        if isinstance(w, (ast.Assign, ast.AnnAssign)) and w.value is op:
            tgts = w.targets if isinstance(w, ast.Assign) else [w.target]
            if len(tgts) == 1 and isinstance(tgts[0], ast.Name):
                name = tgts[0].id
                closes = cfg.nodes_with_call(lambda c: isinstance(c.func, ast.Attribute) and c.func.attr == 'close' and attr_chain(c.func.value) == name)
                # `with f:` on the bound name closes it as well
                for w2 in walk_no_nested(fn):
                    if isinstance(w2, (ast.With, ast.AsyncWith)) and any(attr_chain(i.context_expr) == name for i in w2.items):
                        closes += [n for n in cfg.nodes if n.kind == 'with_exit' and n.ast is w2]
                return closes      # empty: never closed -> every publication is early
    raise Undecided(f'{qual}: cannot tell where the file opened by `{short(op, 50)}` is closed (not a with item, not bound to a name)')


def _r3_core(ctx: RuleCtx) -> None:
    n = 0
    for rel, qual in WRITERS:
        mod = ctx.repo.module(rel)
        k = _finished_by_deep(ctx, mod, qual, 'replace_if_different', 0, 1)
        if k == 0:
            raise Undecided(f'{rel}:{qual}: no open(..., "w") found in a known writer of configure-time files or in the helpers it calls')
        n += k
    # further opens-for-writing in the two generator modules must follow the same idiom
    for rel in (PKGCONFIG, CMAKE):
        mod = ctx.repo.module(rel)
        for q, fn in mod.funcs().items():
            if (rel, q) not in WRITERS and _write_opens(fn):
                n += _finished_by(ctx, mod, q, 'replace_if_different', 0, 1)
    ctx.floor('open-for-write sites in the sibling writers', n, 3)
    _copies_keep_mtime(ctx)
    _generated_sources(ctx)
    _replace_if_different(ctx)
    mod = ctx.repo.module(NINJA)
    k = _finished_by(ctx, mod, 'NinjaBackend.generate', 'replace', 1, 0)
    ctx.floor('build.ninja written through a temporary', k, 1)


def _copies_keep_mtime(ctx: RuleCtx) -> None:
    """copy mode of configure_file: the output is produced by a copy that carries the source's mtime over (shutil.copy2), or through
    a temporary and replace_if_different - shutil.copy / copyfile stamp the unchanged output with a new mtime on every run."""
    for rel, qual in WRITERS:
        mod = ctx.repo.module(rel)
        fn = _func(mod, qual)
        for c in walk_no_nested(fn):
            if not isinstance(c, ast.Call):
                continue
            cn = attr_chain(c.func) or ''
            pa = _pos_args(ctx, c) if cn in ('shutil.copy', 'shutil.copy2', 'shutil.copyfile', 'copy2', 'copyfile') else []
            if len(pa) < 2 or pa[1] is None:
                continue
            if cn in ('shutil.copy2', 'copy2'):
                ctx.ok(f'{rel}:{qual}: `{short(c, 60)}` keeps the source mtime on the copied output')
            elif cn in ('shutil.copy', 'shutil.copyfile', 'copyfile'):
                dst = norm(pa[1])
                published = [x for x in walk_no_nested(fn) if isinstance(x, ast.Call) and (attr_chain(x.func) or '').split('.')[-1] == 'replace_if_different'
                             and len(_pos_args(ctx, x)) == 2 and None not in _pos_args(ctx, x)
                             and norm(_pos_args(ctx, x)[1]) == dst and norm(_pos_args(ctx, x)[0]) != dst]
                ctx.require(bool(published), f'{rel}:{qual}: `{short(c, 60)}` copies into a temporary that is published by replace_if_different',
                            mod, qual, c,
                            f'`{short(c, 70)}` writes the output {dst} with a fresh mtime on every configure run although its content is unchanged '
                            '(shutil.copy2 carries the source mtime over; or copy to a temporary and finish with replace_if_different)', c)


def _generated_sources(ctx: RuleCtx) -> None:
    """A module method that writes a file at configure time and hands it to the build as `File.from_built_file(...)` writes an input of
    compile edges: same idiom as the sibling writers (temporary + replace_if_different), or every reconfigure rebuilds its users."""
    n = 0
    if getattr(ctx.repo, '_c06_example', False):
        return
    for rel in ctx.repo.py_files('mesonbuild/modules'):
        src = ctx.repo.read(rel)
        if 'from_built_file' not in src:        # text pre-filter only
            continue
        mod = ctx.repo.module(rel)
        for q, fn in mod.funcs().items():
            if (rel, q) in WRITERS:
                continue
            # the method *returns* the built file (directly or through a local): its caller hands it to targets as a source / input
            built = [c for c in walk_no_nested(fn) if isinstance(c, ast.Call) and (attr_chain(c.func) or '').endswith('from_built_file')]
            names = {t.id for st in walk_no_nested(fn) if isinstance(st, ast.Assign) and any(st.value is b for b in built)
                     for t in st.targets if isinstance(t, ast.Name)}
            if not any(isinstance(r, ast.Return) and r.value is not None and (any(r.value is b for b in built) or (isinstance(r.value, ast.Name) and r.value.id in names))
                       for r in walk_no_nested(fn)):
                continue
            if _write_opens(fn) or _path_writes(fn):
                n += _finished_by(ctx, mod, q, 'replace_if_different', 0, 1)
    ctx.note(f'generated sources written by module methods: {n} write site(s)')


def _replace_if_different(ctx: RuleCtx) -> None:
    mod = ctx.repo.module(UNIVERSAL)
    fn = _func(mod, 'replace_if_different')
    params = [a.arg for a in fn.args.args]
    if len(params) != 2:
        raise Undecided('replace_if_different: expected (dst, dst_tmp)')
    dst, tmp = params
    # Family note: nothing is executed here.  Paths are enumerated syntactically; a path is discarded only when it tests a bare flag
    # variable against the truth value of the *literal constant* that reaches the test on that same path (a flag that was bound to the
    # read-comparison itself stands for that atom) (reaching-definition
    # constant propagation = folding a constant, FAMILY POLICY (a)); the calls on each remaining path are compared by callee name
    # and normalised argument text (policy (d)).
    pths = pathsmod.enumerate_paths(fn.body, handlers=True)
    n = 0
    seen_equal = seen_diff = False
    for p in pths:
        if p.outcome == 'raise':
            continue
        # per path: what each local flag holds - ('const', literal) or ('cmp', polarity): the outcome of the content comparison
        flags: T.Dict[str, T.Tuple[str, T.Any]] = {}
        equal: T.Optional[bool] = None
        feasible = True
        handler = False
        calls: T.List[ast.Call] = []
        content_only: T.List[str] = []      # conditions on one file's content alone
        other_conds: T.List[str] = []       # conditions the rule does not read

        def is_content(x: ast.AST) -> bool:
            """The content of one of the two files: `f.read()` or a local that was bound to it on this path."""
            if isinstance(x, ast.Call) and isinstance(x.func, ast.Attribute) and x.func.attr == 'read':
                return True
            return isinstance(x, ast.Name) and flags.get(x.id, ('', None))[0] == 'content'

        def cmp_polarity(e: ast.AST) -> T.Optional[bool]:
            """True: e holds iff the contents are equal; False: iff they differ; None: e is not the content comparison."""
            if isinstance(e, ast.UnaryOp) and isinstance(e.op, ast.Not):
                r = cmp_polarity(e.operand)
                return None if r is None else not r
            if isinstance(e, ast.Name) and flags.get(e.id, ('', None))[0] == 'cmp':
                return bool(flags[e.id][1])
            if isinstance(e, ast.Compare) and len(e.ops) == 1 and isinstance(e.ops[0], (ast.Eq, ast.NotEq)) and all(is_content(x) for x in (e.left, e.comparators[0])):
                return isinstance(e.ops[0], ast.Eq)
            if isinstance(e, ast.Call) and isinstance(e.func, ast.Name) and mod.has_func(e.func.id) and e.func.id != 'replace_if_different':
                # a module helper that is handed both paths and whose every `return` is the read-comparison or a literal False
                # ("same content": a missing destination counts as different)
                h = mod.func(e.func.id)
                if {norm(a) for a in e.args} >= {dst, tmp}:
                    pols = set()
                    for r in (x.value for x in ast.walk(h) if isinstance(x, ast.Return)):
                        if isinstance(r, ast.Constant) and r.value is False:
                            continue
                        if isinstance(r, ast.Compare) and len(r.ops) == 1 and isinstance(r.ops[0], ast.Eq) and all(
                                isinstance(x, ast.Call) and isinstance(x.func, ast.Attribute) and x.func.attr == 'read' for x in (r.left, r.comparators[0])):
                            pols.add(True)
                        else:
                            pols.add(None)
                    if pols == {True}:
                        return True
            return None

        for ev in p.events:
            if ev.kind == 'exc':
                handler = True
            if ev.kind == 'stmt' and isinstance(ev.node, (ast.Assign, ast.AnnAssign)):
                tg = ev.node.targets if isinstance(ev.node, ast.Assign) else [ev.node.target]
                v = ev.node.value
                if len(tg) == 1 and isinstance(tg[0], ast.Name) and v is not None:
                    pol = cmp_polarity(v)
                    if isinstance(v, ast.Constant):
                        flags[tg[0].id] = ('const', v.value)
                    elif pol is not None:
                        flags[tg[0].id] = ('cmp', pol)
                    elif is_content(v):
                        flags[tg[0].id] = ('content', None)
                    elif isinstance(v, ast.Name) and v.id in flags:
                        flags[tg[0].id] = flags[v.id]
                    else:
                        flags.pop(tg[0].id, None)
            if ev.kind == 'cond':
                e = ev.node
                if isinstance(e, ast.Name) and flags.get(e.id, ('', None))[0] == 'const':
                    if bool(flags[e.id][1]) != ev.val:
                        feasible = False
                        break
                    continue
                if isinstance(e, ast.Call) and isinstance(e.func, ast.Attribute) and e.func.attr in ('exists', 'isfile', 'is_file') \
                        and dst in {n.id for n in ast.walk(e) if isinstance(n, ast.Name)} and tmp not in {n.id for n in ast.walk(e) if isinstance(n, ast.Name)}:
                    if not ev.val:
                        handler = True        # look-before-you-leap form of the missing-destination handler
                    continue
                pol = cmp_polarity(e)
                if pol is not None:
                    now = ev.val if pol else not ev.val
                    if equal is not None and equal != now:
                        feasible = False
                        break
                    equal = now
                    continue
                # a test of one file's content alone (emptiness / length): it says nothing about the two contents being equal
                inner = e.args[0] if isinstance(e, ast.Call) and attr_chain(e.func) in ('len', 'bool') and len(e.args) == 1 else e
                if is_content(inner):
                    content_only.append(short(e, 40))
                else:
                    other_conds.append(short(e, 40))
            if ev.kind in ('stmt',) and ev.node is not None:
                calls += [c for c in walk_no_nested(ev.node) if isinstance(c, ast.Call)]
        if not feasible:
            continue
        if equal is None and not handler and not other_conds and content_only:
            # both files were opened (the destination exists), every condition on the path is read, none of them compares the two
            # contents - and yet the destination is replaced: an unchanged output gets a new mtime whenever that condition holds
            early = [c for c in calls if attr_chain(c.func) in ('os.replace', 'os.rename', 'shutil.move')]
            if early:
                n += 1
                ctx.violation(mod, 'replace_if_different', f'replace without comparison when {content_only[0]}',
                              f'on the path [{p.describe()[:140]}] the destination exists and is replaced although the two contents were never compared: '
                              f'the only test made ({content_only}) looks at one file alone, so an unchanged output (e.g. an empty one) is rewritten on '
                              'every configure run', early[0])
                continue
        if equal is None and not handler:
            # neither the comparison outcome nor the missing-destination handler is known on this path: cannot be judged
            raise Undecided(f'replace_if_different: a path on which the outcome of the content comparison is not tested: {p.describe()[:160]}')
        n += 1
        repl = [c for c in calls if attr_chain(c.func) in ('os.replace', 'os.rename', 'shutil.move')]
        unl = [c for c in calls if attr_chain(c.func) in ('os.unlink', 'os.remove')]
        where = p.describe()[:160]
        understood = set(map(id, repl + unl))
        unread = [short(c, 50) for c in calls if id(c) not in understood and attr_chain(c.func) not in ('open', 'f1.read', 'f2.read')
                  and not (isinstance(c.func, ast.Attribute) and c.func.attr in ('read', 'close', 'exists', 'isfile'))
                  and ({dst, tmp} & {n.id for a in list(c.args) + [k.value for k in c.keywords] for n in ast.walk(a) if isinstance(n, ast.Name)}
                       or (isinstance(c.func, ast.Attribute) and {dst, tmp} & {n.id for n in ast.walk(c.func.value) if isinstance(n, ast.Name)}))]
        good_equal = not repl and len(unl) == 1 and [norm(a) for a in _pos_args(ctx, unl[0])] == [tmp]
        good_diff = len(repl) == 1 and [norm(a) for a in _pos_args(ctx, repl[0])] == [tmp, dst] and not unl
        if unread and not (good_equal if equal is True else good_diff):
            raise Undecided(f'replace_if_different: the path [{where}] hands {dst}/{tmp} to {unread[:3]}, which this rule does not read')
        if equal is True:
            seen_equal = True
            ctx.require(not repl and len(unl) == 1 and [norm(a) for a in _pos_args(ctx, unl[0])] == [tmp],
                        f'replace_if_different: contents equal -> temporary unlinked, destination untouched [{where}]', mod, 'replace_if_different',
                        repl[0] if repl else fn,
                        f'on the path where the contents compare equal the function {"replaces the destination (mtime changes)" if repl else "does not unlink the temporary " + tmp}: {where}')
        else:
            seen_diff = True
            ok = len(repl) == 1 and [norm(a) for a in _pos_args(ctx, repl[0])] == [tmp, dst] and not unl
            ctx.require(ok, f'replace_if_different: {"destination missing" if handler else "contents differ"} -> os.replace({tmp}, {dst}) [{where}]',
                        mod, 'replace_if_different', repl[0] if repl else fn,
                        f'on the path where the contents differ / the destination is missing the new content is not moved into place by os.replace({tmp}, {dst}): {where}')
    if not (seen_equal and seen_diff):
        raise Undecided('replace_if_different: content comparison `f1.read() == f2.read()` not found on the paths')
    ctx.floor('feasible paths of replace_if_different', n, 2)


# ---------------------------------------------------------------------------------------------- R4
VOLATILE_EXACT = {'call:id', 'call:hash', 'call:next', 'call:len', 'call:object', 'call:os.getpid', 'call:os.urandom', 'call:itertools.count',
                  'call:count', 'call:time', 'call:getpid'}
VOLATILE_PREFIX = ('call:time.', 'call:random.', 'call:uuid.', 'call:tempfile.', 'call:datetime.', 'call:secrets.')


def _volatile(o: str) -> bool:
    return o in VOLATILE_EXACT or o.startswith(VOLATILE_PREFIX) or \
        (o.startswith('attr:self.') and o.endswith(('_count', '_counter', 'counter', '_index', '_seq')))


def _resolved_chains(fl: Flow, e: ast.AST, depth: int = 0) -> T.Set[str]:
    """Names / attribute chains an expression reads; a bare local with a single definition is looked through (alias),
    an attribute chain `obj.field` is kept as it is (the object's own construction is not an input)."""
    out: T.Set[str] = set()

    def rec(n: ast.AST) -> None:
        if isinstance(n, ast.Call):
            if isinstance(n.func, ast.Attribute):
                rec(n.func.value)          # receiver of a method call
            for a in n.args:
                rec(a.value if isinstance(a, ast.Starred) else a)
            for k in n.keywords:
                rec(k.value)
            return
        c = attr_chain(n)
        if c is not None:
            out.add(c)
            if '.' not in c and depth < 3 and c not in fl.params and len(fl.defs.get(c, [])) == 1:
                out.update(_resolved_chains(fl, fl.defs[c][0], depth + 1))
            return
        for ch in ast.iter_child_nodes(n):
            rec(ch)
    rec(e)
    return out


def _resolved_leaves(fl: Flow, e: ast.AST, depth: int = 0, seen: T.Optional[T.Set[str]] = None) -> T.List[ast.AST]:
    """Like _resolved_chains, but the leaf expressions themselves (Name / Attribute nodes) after looking through local aliases."""
    out: T.List[ast.AST] = []
    seen = seen if seen is not None else set()

    def rec(n: ast.AST) -> None:
        if isinstance(n, ast.Call):
            if isinstance(n.func, ast.Attribute):
                rec(n.func.value)
            for a in n.args:
                rec(a.value if isinstance(a, ast.Starred) else a)
            for k in n.keywords:
                rec(k.value)
            return
        c = attr_chain(n)
        if c is not None:
            if '.' not in c and depth < 4 and c not in fl.params and c in fl.defs and c not in seen:
                seen.add(c)
                for v in fl.defs[c]:
                    out.extend(_resolved_leaves(fl, v, depth + 1, seen))
            else:
                out.append(n)
            return
        for ch in ast.iter_child_nodes(n):
            rec(ch)
    rec(e)
    return out


PURE_TEXT_CALLS = {'str', 'bytes', 'repr', 'format', 'encode', 'join', 'hexdigest', 'digest', 'sha1', 'sha256', 'md5', 'blake2b', 'basename',
                   'dirname', 'get_scratch_dir', 'quote_arg', 'isinstance', 'len', 'get_build_dir', 'normpath', 'relpath', 'abspath', 'fspath',
                   'splitext', 'lower', 'upper', 'replace', 'strip', 'new', 'sorted', 'tuple', 'list', 'map'}


def _expr_closure(fl: Flow, e: ast.AST) -> T.List[ast.AST]:
    """All AST nodes the value of e is computed from inside the function: e itself and, through local names, their definitions."""
    out: T.List[ast.AST] = []
    seen: T.Set[str] = set()
    stack = [e]
    while stack:
        x = stack.pop()
        out.append(x)
        if isinstance(x, ast.Attribute) and attr_chain(x) is not None:
            continue          # a field of an object: the object's own construction is not part of the value
        if isinstance(x, ast.Name):
            if x.id not in seen and x.id not in fl.params and x.id in fl.defs:
                seen.add(x.id)
                stack.extend(fl.defs[x.id])
            continue
        if isinstance(x, ast.Call) and isinstance(x.func, ast.Attribute):
            stack.append(x.func.value)
            stack.extend(a.value if isinstance(a, ast.Starred) else a for a in x.args)
            stack.extend(k.value for k in x.keywords)
            continue
        stack.extend(ast.iter_child_nodes(x))
    return out


def _opaque_calls(nodes: T.Iterable[ast.AST]) -> T.List[str]:
    """Calls whose result the rule does not understand (repository helpers, anything outside the text/digest vocabulary)."""
    bad = []
    for n in nodes:
        if isinstance(n, ast.Call):
            f = n.func
            name = f.attr if isinstance(f, ast.Attribute) else (f.id if isinstance(f, ast.Name) else '?')
            if name not in PURE_TEXT_CALLS:
                bad.append(short(n, 50))
    return bad


R4_ANCHORS = ('Backend.as_meson_exe_cmdline', 'Backend.get_executable_serialisation')     # each judged on its own


def _rename_chain(chain: str, rename: T.Dict[str, str]) -> str:
    head, dot, rest = chain.partition('.')
    return rename[head] + dot + rest if head in rename else chain


class _DigestFacts(T.NamedTuple):
    qual: str
    n_digests: int
    n_fed: int
    inputs: T.Set[str]
    origins: T.Set[str]
    helper_calls: T.List[str]
    feeder_findings: T.List[T.Tuple[Module, str, str, str, ast.AST]]


def _feeder_method_facts(ctx: RuleCtx, sc: SiteScanner, cls: T.Optional[T.Tuple[Module, ast.ClassDef]], xtext: str,
                         depth: int = 0) -> T.Optional[T.Tuple[T.Set[str], T.Set[str], T.List[str]]]:
    """What `X.hash(hasher)` feeds: (input chains with self spelled as X, flow origins, calls not understood) read from the `hash`
    method of X's class - arguments of <hasher param>.update(..) and receivers of nested Y.hash(<hasher param>).  None: not readable."""
    if cls is None or depth > 2:
        return None
    hm = ctx.repo.find_method(cls[0], cls[1], 'hash')
    if hm is None or len(hm[2].args.args) != 2:
        return None
    f2 = hm[2]
    sname, hp = f2.args.args[0].arg, f2.args.args[1].arg
    fl2 = Flow(f2, nested=False)
    inputs: T.Set[str] = set()
    origins: T.Set[str] = set()
    opaque: T.List[str] = []
    fed: T.List[ast.AST] = []
    for c in walk_no_nested(f2):
        if not isinstance(c, ast.Call):
            continue
        argnames = [attr_chain(a) for a in c.args] + [attr_chain(k.value) for k in c.keywords]
        if isinstance(c.func, ast.Attribute) and attr_chain(c.func.value) == hp:
            if c.func.attr == 'update':
                fed += list(c.args)
            else:
                opaque.append(short(c, 50))
        elif hp in argnames:
            if isinstance(c.func, ast.Attribute) and c.func.attr == 'hash' and len(c.args) == 1 and attr_chain(c.func.value) is not None:
                inputs.add(_rename_chain(attr_chain(c.func.value) or '', {sname: xtext}))
            else:
                opaque.append(short(c, 50))
    if any(isinstance(n, ast.Name) and n.id == hp and isinstance(n.ctx, ast.Store) for n in ast.walk(f2)):
        return None        # the hasher parameter is rebound: not read
    for e in fed:
        inputs |= {_rename_chain(x, {sname: xtext}) for x in _resolved_chains(fl2, e)}
        origins |= {o for o in fl2.origins(e) if not o.startswith('param:')}
        opaque += _opaque_calls(_expr_closure(fl2, e))
    return inputs, origins, opaque


def _digest_facts(ctx: RuleCtx, sc: T.Optional[SiteScanner], mod: Module, qual: str, fn: T.Any, roots: T.Sequence[ast.AST],
                  depth: int = 0) -> T.Optional[_DigestFacts]:
    """Where the value of `roots` gets its digest from: in this function, or (E1: block extracted into a helper) in a helper of the
    same class / module whose return value carries it - then the helper's parameters are renamed to the caller's argument texts."""
    fl = Flow(fn, nested=False)
    closure: T.List[ast.AST] = []
    for r in roots:
        closure += _expr_closure(fl, r)
    digests = [n for n in closure if isinstance(n, ast.Call) and isinstance(n.func, ast.Attribute) and n.func.attr in ('hexdigest', 'digest')]
    if not digests:
        if depth >= 2:
            return None
        for c in closure:
            if not isinstance(c, ast.Call):
                continue
            h = _helper_of(ctx, mod, qual, c)
            if h is None:
                continue
            m2, q2, f2, is_method = h
            rets = [r.value for r in walk_no_nested(f2) if isinstance(r, ast.Return) and r.value is not None]
            sub = _digest_facts(ctx, sc, m2, q2, f2, rets, depth + 1) if rets else None
            if sub is None:
                continue
            bound = {k: norm(v) for k, v in _bind_args(c, f2, is_method).items()}

            def rename(chain: str) -> str:
                head, dot, rest = chain.partition('.')
                return bound[head] + dot + rest if head in bound else chain
            return sub._replace(inputs={rename(x) for x in sub.inputs})
        return None
    # what is fed to the hasher(s): constructor arguments, arguments of <hasher>.update(...), receivers of X.hash(<hasher>)
    fed: T.List[T.Tuple[ast.AST, bool]] = []          # (expression, fed through a feeder method X.hash(hasher))
    opaque_feed: T.List[str] = []
    for d in digests:
        h = d.func.value        # type: ignore[attr-defined]
        if isinstance(h, ast.Call):
            fed += [(a, False) for a in h.args]
            continue
        hname = attr_chain(h)
        if hname is None or '.' in hname:
            raise Undecided(f'{qual}: hasher expression {short(h, 40)} not understood')
        for c in walk_no_nested(fn):
            if not isinstance(c, ast.Call):
                continue
            argnames = [attr_chain(a) for a in c.args] + [attr_chain(k.value) for k in c.keywords]
            if isinstance(c.func, ast.Attribute) and attr_chain(c.func.value) == hname:
                if c.func.attr == 'update':
                    fed += [(a, False) for a in c.args]
                elif c.func.attr not in ('hexdigest', 'digest', 'copy'):
                    opaque_feed.append(short(c, 50))
            elif hname in argnames:
                if isinstance(c.func, ast.Attribute) and c.func.attr == 'hash' and len(c.args) == 1:
                    fed.append((c.func.value, True))
                else:
                    opaque_feed.append(short(c, 50))
        for v in fl.defs.get(hname, []):
            if isinstance(v, ast.Call) and not (isinstance(v.func, ast.Attribute) and v.func.attr == 'update'):
                fed += [(a, False) for a in v.args]
    inputs: T.Set[str] = set()
    origins: T.Set[str] = set()
    helper_calls: T.List[str] = list(opaque_feed)
    fc0 = sc._fc_chain(mod, fn, qual) if sc is not None else None
    for e, via_method in fed:
        if via_method and sc is not None and attr_chain(e) is not None:
            # X.hash(hasher): what reaches the digest is what the class's feeder method hands to its hasher parameter - fields of X
            # (the object's own construction is not part of the value, as for an attribute)
            sub = _feeder_method_facts(ctx, sc, sc.class_of(e, fc0), attr_chain(e) or '')
            if sub is not None:
                inputs.add(attr_chain(e) or '')
                inputs |= sub[0]
                origins |= sub[1]
                helper_calls += [f'[{attr_chain(e)}.hash] {x}' for x in sub[2]]     # can only supply fields of that object
                continue
        inputs |= _resolved_chains(fl, e)
        origins |= fl.origins(e)
        helper_calls += _opaque_calls(_expr_closure(fl, e))
    # an object whose class declares how it is to be digested (a `hash(self, hasher)` method) must be fed through that method:
    # its str()/repr() text is not a stable rendering of its content
    findings: T.List[T.Tuple[Module, str, str, str, ast.AST]] = []
    if sc is not None:
        fc = sc._fc_chain(mod, fn, qual)
        for e, via_method in fed:
            if via_method:
                continue
            for leaf in _resolved_leaves(fl, e):
                cls = sc.class_of(leaf, fc)
                if cls is None:
                    continue
                hm = ctx.repo.find_method(cls[0], cls[1], 'hash')
                if hm is not None and len(hm[2].args.args) == 2:
                    findings.append((mod, qual, f'{norm(leaf)} fed to the digest as text',
                                     f'`{norm(leaf)}` is a {cls[1].name}, whose class defines {cls[1].name}.hash(hasher) to feed a digest; here its '
                                     f'str()/repr() text is hashed instead (`{short(e, 50)}`), which is not a stable rendering of its content '
                                     '(the scratch file name then changes between regenerations)', e))
    return _DigestFacts(qual, len(digests), len(fed), inputs, origins, helper_calls, findings)


def _scratch_name(ctx: RuleCtx, mod: Module, qual: str, required: T.Dict[str, T.Tuple[str, ...]],
                  rename: T.Optional[T.Dict[str, str]] = None, depth: int = 0,
                  caller: T.Optional[T.Tuple[Module, str, T.Any, T.Dict[str, ast.AST]]] = None) -> None:
    fn = _func(mod, qual)
    fl = Flow(fn, nested=False)
    opens = _write_opens(fn)
    if not opens:
        # E1/E5: the block that names and writes the scratch file was extracted into a helper of the class / module; the required
        # inputs are spelled in the caller's names, so the helper's parameters are renamed to the caller's argument texts
        if depth < 2:
            for c in walk_no_nested(fn):
                if isinstance(c, ast.Call):
                    h = _helper_of(ctx, mod, qual, c)
                    if h is not None and h[1] != qual and h[1] not in R4_ANCHORS and _write_opens(h[2]):
                        bound = {k: norm(v) for k, v in _bind_args(c, h[2], h[3]).items()}
                        if rename:
                            bound = {k: _rename_chain(v, rename) for k, v in bound.items()}
                        return _scratch_name(ctx, h[0], h[1], required, bound, depth + 1, (mod, qual, fn, _bind_args(c, h[2], h[3])))
        raise Undecided(f'{qual}: scratch file is not opened for writing here or in a helper called from here')
    sc = _scanner(ctx) if ctx.repo.exists('mesonbuild/utils/core.py') else None
    for op in opens:
        path = op.args[0]
        facts = _digest_facts(ctx, sc, mod, qual, fn, [path])
        from_caller = False
        caller_origins: T.Set[str] = set()
        if facts is None and caller is not None:
            # the name (or part of it) arrives through a parameter: go on in the caller with the argument bound to it
            reached = [n.id for n in _expr_closure(fl, path) if isinstance(n, ast.Name) and n.id in caller[3]]
            if reached:
                roots = [caller[3][r] for r in reached]
                facts = _digest_facts(ctx, sc, caller[0], caller[1], caller[2], roots)
                from_caller = facts is not None
                cfl = Flow(caller[2], nested=False)
                for r in roots:
                    caller_origins |= cfl.origins(r)
        if facts is None:
            vol = sorted(x for x in (fl.origins(path) | caller_origins) if _volatile(x))
            if vol:
                ctx.violation(mod, qual, op, f'the scratch file name {short(path, 50)} is derived from {vol} instead of a content digest: it changes '
                              'between regenerations, so the command line in build.ninja changes', op)
                continue
            opaque = _opaque_calls(_expr_closure(fl, path))
            if opaque:
                raise Undecided(f'{qual}: the scratch file name {short(path, 40)} is computed through {opaque[:3]}, which this rule does not read')
            ctx.violation(mod, qual, op, f'the scratch file name {short(path, 50)} is no longer derived from a content digest '
                          '(every part of the name was followed to literals, parameters and attributes; no hexdigest()/digest() among them)', op)
            continue
        where = '' if facts.qual == qual else f' (computed in {facts.qual})'
        ctx.ok(f'{qual}: name of `{short(op, 50)}` contains a digest ({facts.n_digests} digest call(s)){where}')
        bad = sorted(x for x in (fl.origins(path) | facts.origins | caller_origins) if _volatile(x))
        ctx.require(not bad, f'{qual}: nothing volatile (id/time/random/counter) flows into the name of `{short(op, 40)}` ({facts.n_fed} digest inputs)',
                    mod, qual, op,
                    f'the scratch file name depends on {bad}: it changes between regenerations, so the command line in build.ninja changes')
        for fm, fq, construct, msg, node in facts.feeder_findings:
            ctx.violation(fm, fq, construct, msg, node)
        inputs = {_rename_chain(x, rename) for x in facts.inputs} if rename and not from_caller else facts.inputs
        facts = facts._replace(inputs=inputs)
        for what, alts in required.items():
            ok = any(a in facts.inputs for a in alts)
            unread = [h for h in facts.helper_calls
                      if not h.startswith('[') or any((a + '.').startswith(h[1:h.index('.hash] ')] + '.') for a in alts)]
            if not ok and unread:
                raise Undecided(f'{qual}: {what} is not among the direct digest inputs, but the digest is also fed through {unread[:3]}, '
                                'which this rule does not read')
            ctx.require(ok, f'{qual}: {what} ({"/".join(alts)}) is fed to the digest that names the scratch file', mod, qual, f'digest input: {what}',
                        f'{what} ({" / ".join(alts)}) is not fed to the digest that names the scratch file any more (inputs: {sorted(facts.inputs)[:12]}): '
                        'two different commands can collide on one file name', op)


def _r4_core(ctx: RuleCtx) -> None:
    mod = ctx.repo.module(BACKENDS)
    _scratch_name(ctx, mod, 'Backend.as_meson_exe_cmdline', {
        'command': ('es.cmd_args',), 'environment': ('es.env',), 'workdir': ('es.workdir',),
        'capture': ('capture', 'es.capture'), 'feed': ('feed', 'es.feed')})
    _scratch_name(ctx, mod, 'Backend.get_executable_serialisation', {'command arguments': ('cmd_args',)})
    # EnvironmentVariables.hash feeds the hasher in sorted key order
    core = ctx.repo.module('mesonbuild/utils/core.py')
    hf = _func(core, 'EnvironmentVariables.hash')
    loops = [n for n in ast.walk(hf) if isinstance(n, ast.For)]
    upd = [c for l in loops for c in ast.walk(l) if isinstance(c, ast.Call) and isinstance(c.func, ast.Attribute) and c.func.attr == 'update']
    ok = bool(upd) and all(isinstance(l.iter, ast.Call) and isinstance(l.iter.func, ast.Name) and l.iter.func.id == 'sorted' for l in loops)
    ctx.require(ok, 'EnvironmentVariables.hash feeds the hasher in sorted(key) order', core, 'EnvironmentVariables.hash', hf,
                'the environment is no longer hashed in sorted key order: the digest (and the scratch file name) depends on the order of the variables')


# ---------------------------------------------------------------------------------------------- R5
def _r5_core(ctx: RuleCtx) -> None:
    with _NoGC():
        c06_total.check(ctx, _scanner(ctx), [m for m in SCOPE] + ['mesonbuild/mconf.py'])


# ---------------------------------------------------------------------------------------------- built-in positive examples
EX_NINJA = '''
import typing as T
class NinjaBuildElement:
    def __init__(self, all_outputs: T.Set[str]) -> None:
        self.deps: T.Set[str] = set()
        self.orderdeps: T.Set[str] = set()
    def add_dep(self, dep): self.deps.update(dep)
    def add_orderdep(self, dep): self.orderdeps.add(dep)
    def write(self, outfile: T.TextIO) -> None:
        line = 'build x: y'
        line += ' | ' + ' '.join([x for x in self.deps])
        line += ' || ' + ' '.join(sorted(self.orderdeps))
        outfile.write(line)
class NinjaBackend:
    def generate(self) -> None:
        outfilename = 'build.ninja'
        with open(outfilename, 'w') as f:
            f.write('x')
'''
EX_WRITER = '''
import os
def do_conf_file(src, dst):
    with open(dst, 'w') as f:
        f.write('x')
def dump_conf_header(ofilename, cdata):
    tmp = ofilename + '~'
    with open(tmp, 'w') as f:
        f.write('x')
    replace_if_different(ofilename, tmp)
def replace_if_different(dst, dst_tmp):
    different = True
    try:
        with open(dst, 'rb') as f1, open(dst_tmp, 'rb') as f2:
            if f1.read() == f2.read():
                different = False
    except FileNotFoundError:
        pass
    os.replace(dst_tmp, dst)
'''
EX_EARLY_WRITER = '''
class CmakeModule:
    def create_package_file(self, out):
        tmp = out + '~'
        with open(tmp, 'w') as f:
            f.write('x')
            mesonlib.replace_if_different(out, tmp)
'''
EX_ONE_WRITER = '''
class %s:
    def %s(self, out):
        tmp = out + '~'
        with open(tmp, 'w') as f:
            f.write('x')
        mesonlib.replace_if_different(out, tmp)
'''
EX_BACKENDS = '''
import hashlib, os, pickle
class Backend:
    def as_meson_exe_cmdline(self, exe, cmd_args, workdir=None, capture=None, feed=None):
        es = self.get_executable_serialisation([exe] + cmd_args, workdir, capture, feed)
        hasher = hashlib.sha1()
        hasher.update(bytes(str(es.cmd_args), encoding='utf-8'))
        digest = hasher.hexdigest()
        scratch_file = f'meson_exe_{digest}_{id(es)}.dat'
        exe_data = os.path.join(self.scratch, scratch_file)
        with open(exe_data, 'wb') as f:
            pickle.dump(es, f)
    def get_executable_serialisation(self, cmd, workdir, capture, feed):
        exe, *cmd_args = cmd
        hasher = hashlib.sha1()
        hasher.update(' '.join(cmd_args).encode())
        rsp_file = os.path.join(self.scratch, f'meson_rsp_{hasher.hexdigest()}.rsp')
        with open(rsp_file, 'w') as f:
            f.write('x')
'''
EX_CORE = '''
class EnvironmentVariables:
    def hash(self, hasher):
        myenv = self.get_env({})
        for key in sorted(myenv.keys()):
            hasher.update(bytes(key, encoding='utf-8'))
'''
EX_ORDER = '''
import typing as T
class Key:
    def __init__(self, sub: T.Optional[str], name: str) -> None:
        self.sub = sub
        self.name = name
    def __eq__(self, other: object) -> bool:
        if isinstance(other, Key):
            return (self.sub, self.name) == (other.sub, other.name)
        return NotImplemented
    def __lt__(self, other: object) -> bool:
        if isinstance(other, Key):
            if self.sub is None:
                return other.sub is not None
            elif other.sub is None:
                return False
            return (self.sub, self.name) < (other.sub, other.name)
        return NotImplemented
def listing(keys: T.Set[Key]) -> T.List[Key]:
    a = sorted(keys)
    return a
'''


def _example_must_fire(ctx: RuleCtx, core: T.Callable[[RuleCtx], None], overlay: T.Dict[str, str], want: T.Sequence[str]) -> None:
    """Run the rule on a tiny broken stand-in of its anchors (in-memory overlay, separate Check): every marker in `want`
    must show up in a finding message, otherwise the rule has lost its teeth."""
    from ..report import Check
    repo = Repo(ctx.repo.root, overlay)
    repo._c06_example = True       # type: ignore[attr-defined]   (stand-in modules only: small index, no package sweeps)
    ex = RuleCtx(Check('C06', repo), ctx.rule_id, 'built-in example')
    core(ex)
    msgs = [f.message + ' ' + f.construct + ' ' + f.function for f in ex.findings]
    missing = [w for w in want if not any(w in m for m in msgs)]
    if missing:
        raise Undecided(f'built-in positive example of {ctx.rule_id}: no finding mentions {missing} (findings: {[m[:80] for m in msgs]})')
    ctx.note(f'built-in positive example: {len(ex.findings)} finding(s) on the broken stand-in, as expected ({", ".join(want)})')


def r2(ctx: RuleCtx) -> None:
    _example_must_fire(ctx, _r2_core, {NINJA: EX_NINJA}, ['self.deps'])
    _r2_core(ctx)


def r3(ctx: RuleCtx) -> None:
    _example_must_fire(ctx, _r3_core, {UNIVERSAL: EX_WRITER, NINJA: EX_NINJA, INTERP: EX_ONE_WRITER % ('Interpreter', 'func_configure_file'),
                                       PKGCONFIG: EX_ONE_WRITER % ('PkgConfigModule', '_generate_pkgconfig_file'),
                                       CMAKE: EX_EARLY_WRITER},
                       ['do_conf_file', 'contents compare equal', 'NinjaBackend.generate', 'before the writer is closed'])
    _r3_core(ctx)


def r4(ctx: RuleCtx) -> None:
    _example_must_fire(ctx, _r4_core, {BACKENDS: EX_BACKENDS, 'mesonbuild/utils/core.py': EX_CORE}, ['call:id', 'workdir', 'capture'])
    _r4_core(ctx)


def r5(ctx: RuleCtx) -> None:
    def core(ex: RuleCtx) -> None:
        rel = 'mesonbuild/_c06_order_example.py'
        sc = SiteScanner(ex.repo, Resolver(ex.repo, [rel]))
        c06_total.check(ex, sc, [rel])
    _example_must_fire(ctx, core, {'mesonbuild/_c06_order_example.py': EX_ORDER}, ['Key.__lt__'])
    _r5_core(ctx)


EX_REGISTRY = '''
import os
class Resolver:
    def load(self):
        for i in os.listdir(self.root):
            self.wraps[i] = Definition(i)
        for w in self.wraps.values():
            self.register(w)
    def register(self, w, quiet=False):
        for k in w.names:
            if k not in self.providers:
                self.providers[k] = w
            elif not quiet:
                log('duplicate', k)
'''
WRAP = 'mesonbuild/wrap/wrap.py'


def _r6_core(ctx: RuleCtx) -> None:
    import re
    from . import c06_registry
    example = getattr(ctx.repo, '_c06_example', False)
    pat = re.compile(r'iterdir\(|os\.listdir|os\.scandir|glob\.i?glob|\.rglob\(|\.glob\(|os\.walk')
    judged = 0
    nmod = 0
    rels = sorted(ctx.repo.overlay) if example else [r for r in ctx.repo.py_files('mesonbuild')
                                                     if r in SCOPE or r.startswith(ARG_DIRS) or r in ARG_FILES or r in WIDE_FILES or r.startswith(WIDE_DIRS)]
    for rel in rels:
        src = ctx.repo.read(rel)
        if not pat.search(src) or ' not in ' not in src and ' in ' not in src:     # text pre-filter: which files are worth parsing
            continue
        nmod += 1
        judged += c06_registry.check_module(ctx, ctx.repo.module(rel))
    ctx.note(f'{nmod} modules that list directories read; {judged} guarded registrations reached in listing order')
    if not example and judged < 2:
        raise Undecided(f'only {judged} guarded name registration(s) found that run in directory-listing order (the wrap provider tables '
                        f'of {WRAP} are registered differently from what this rule reads)')


def r6(ctx: RuleCtx) -> None:
    _example_must_fire(ctx, _r6_core, {'mesonbuild/_c06_registry_example.py': EX_REGISTRY}, ['self.providers'])
    _r6_core(ctx)


RULES = [
    Rule('C06.R1', 'hash order must not reach output (K10)', r1),
    Rule('C06.R2', 'deps/orderdeps are written through sorted()', r2),
    Rule('C06.R3', 'unchanged outputs are not touched: temp + replace_if_different', r3),
    Rule('C06.R4', 'scratch file names are functions of a content digest', r4),
    Rule('C06.R5', 'sorted() needs a total order consistent with __eq__', r5),
    Rule('C06.R6', 'a name registered twice in directory-listing order is an error, not first-come-first-served', r6),
]
