"""C02 - parsing is total, lossless and position-accurate (DESIGN section 2, C02)."""
from __future__ import annotations

import ast
import typing as T

from ..core import Undecided, norm, short
from ..report import Rule, RuleCtx
from .c02_model import MPARSER

EXPLANATION = (
    'Decides structural clauses of C02 on mparser/visitor/printer source: R1 linear-use typestate over all paths of all Parser '
    'methods with callee summaries: every token taken from the stream and every tree fragment built is attached to the returned '
    'tree or the path raises; R2 the pending-whitespace buffer is only reset right after being flushed into a returned node, the '
    'one slice of it re-attaches the removed prefix; R3 the full-fidelity visitor replays every node-typed field of every node '
    'class once, in textual order, then the node\'s whitespace, the raw printer emits the raw text of every terminal with the '
    'quotes/prefix the lexer stripped, node equality keeps positions; R4 from Lexer/Parser entry points only MesonException '
    'subclasses escape: every partial operation (int, codecs.decode, next, subscripts, sequence unpacking of a variable-length producer such as '
    'str.split, Optional attribute, assert, recursion) is '
    'caught and converted or proven total from the token regex / guards; R5 every token kind whose regex admits a newline updates '
    'lineno and line_start consistently; R6 extents of call/array/dict/parenthesis nodes start at the first field and end one '
    'past the closing single-character token; R7 a child list that the visitor replays as a separate block is never stored into after '
    'the block that follows it (positional after keyword argument); R8 the constructor of every MesonException subclass of mparser.py leaves '
    'self.lineno/self.colno holding its own parameters on every path (last writer over the CFG; a base initialiser that assigns the attribute '
    'from its parameter/default counts as a write at the call). R1 also requires the node of a token to be built before anything else '
    'claims the whitespace that follows it; R2 that an accumulating block flushes the buffer after its last consuming call; R3 that every '
    'node class is hashable (nodes are dictionary keys). Does NOT decide: a byte-for-byte round trip of a given file (implied by R1-R3 only), '
    'whether the regexes split text as the language intends, ordering of whitespace relative to its node - in particular, when the node of a '
    'token is built from self.current before the token is consumed, whether the whitespace that follows the token is later claimed by a node '
    'whose replay ends with that token (the claimant can be a caller or the enclosing code block; seed C02-r6-2); arity of unpacked values '
    'whose length is a typing contract (function results, table entries) rather than fixed by the producing operation; whether the line/column '
    'passed to an exception constructor lies inside the text (value-level; R8 only decides that what is passed is kept).')
ASSUMPTIONS = [
    'calls that leave mparser.py (mlog, re, codecs apart from codecs.decode, str/list/dict methods) raise nothing but MesonException subclasses',
    'CPython >= 3.11 int(): only non power-of-two bases are subject to the 4300 digit limit',
    'token ids are non-empty strings (checked for the folded lexer tables)',
    'a method of Parser annotated bool/str hands its last consumed token to the caller; one annotated with a node type returns a finished fragment',
]
TECHNIQUE = ('path-sensitive linear typestate with a callee-summary fixpoint (tokens and tree fragments); CFG dominance/reachability; who-may-write; '
             'exception-escape closure over the call graph with per-site totality proofs; regex-language facts on the folded lexer tables; '
             'field/visitor table agreement; symbolic (linear-form) comparison of update expressions; no repository code is interpreted on sample inputs')


def r1(ctx: RuleCtx) -> None:
    from .c02_tokens import analysed
    mod = ctx.repo.module(MPARSER)
    an = analysed(ctx.repo)
    ctx.ok(f'stream advance primitive: only Parser.{an.primitive} writes self.previous; node wrapper Parser.{an.ctor_wrapper}; '
           f'kinds without own text {sorted(an.exempt)} (derived from {an.primitive})')
    if an.exempt != {'eol', 'eof'}:
        raise Undecided(f'token kinds treated as carrying no text are {sorted(an.exempt)}; the shape of Parser.{an.primitive} was understood for eol/eof only')
    ctx.ok(f'carrier-free node classes {sorted(an.free)}; classes replayed with a fixed spelling {an.fixed}')
    n_cons = n_frag = 0
    for s in an.sites.values():
        fn = f'Parser.{s.fn}'
        if s.what == 'consume':
            n_cons += 1
        else:
            n_frag += 1
        if s.bad is None:
            ctx.ok(f'{fn}: {"token of" if s.what == "consume" else "fragment of"} `{short(s.node, 70)}` attached on all {s.paths} path states')
        else:
            ctx.violation(mod, fn, s.node, s.bad, s.node)
    for (fn, key), (node, msg) in an.extra.items():
        ctx.violation(mod, f'Parser.{fn}', key, msg, node)
    ctx.floor('token consumption sites', n_cons, 30)       # by role; helpers that merge sites lower the count
    ctx.floor('fragment construction sites', n_frag, 60)
    ctx.note(f'{len(an.kindof)} methods, {sum(len(p) for p in an.paths.values())} syntactic paths, {an.rounds} summary evaluations, '
             f'{an.nstates} abstract states; summaries: ' + '; '.join(f'{n}:{len(o)}' for n, o in an.summ.items()))
    # built-in positive example: a method that swallows a token must be reported
    _selfcheck_r1(ctx, an.summ)


_R1_SAMPLE = '''
    def _verif_probe(self) -> BaseNode:
        left = self.e5()
        if self.accept('star'):
            return left
        return left
'''
_R2_SAMPLE = '''
    def _verif_probe(self) -> None:
        self.current_ws = []
'''
_R3_SAMPLE = '''

class VerifProbeNode(BaseNode):
    inner: BaseNode

    def __init__(self, inner: BaseNode):
        super().__init__(inner.lineno, inner.colno, inner.filename)
        self.inner = inner

    def clone(self) -> 'VerifProbeNode':
        return VerifProbeNode(self.inner)
'''
_R6_SAMPLE = '''

class VerifProbeNode(BaseNode):
    lpar: SymbolNode
    rpar: SymbolNode

    def __init__(self, lpar: SymbolNode, rpar: SymbolNode):
        super().__init__(lpar.lineno, lpar.colno, lpar.filename, end_lineno=rpar.lineno, end_colno=rpar.colno)
        self.lpar = lpar
        self.rpar = rpar
'''


def _scratch(ctx: RuleCtx, method: str = '', tail: str = '') -> T.Any:
    """A scratch overlay of mparser.py with a synthetic Parser method and/or module tail (positive examples only)."""
    from ..core import Repo
    mod = ctx.repo.module(MPARSER)
    lines = mod.src.split('\n')
    if method:
        end = mod.cls('Parser').end_lineno or len(lines)
        lines[end:end] = method.split('\n')
    src = '\n'.join(lines) + tail
    ov = dict(ctx.repo.overlay)
    ov[MPARSER] = src
    return Repo(ctx.repo.root, ov)


def _probe(ctx: RuleCtx, fn: T.Callable[[RuleCtx], None], repo: T.Any, what: str) -> None:
    """Every run shows that the rule can fire: it must report the synthetic defect in the scratch overlay."""
    from ..report import Check, RuleCtx as RC
    from ..core import AnalysisError
    c2 = RC(Check(ctx.check.prop, repo, 'quick'), ctx.rule_id, 'positive example')
    try:
        fn(c2)
    except AnalysisError as e:
        raise Undecided(f'positive example ({what}) ended undecided: {e}')
    if not any('VerifProbe' in f.function + f.construct + f.message or '_verif_probe' in f.function + f.message for f in c2.findings):
        raise Undecided(f'positive example ({what}) was not reported: the rule cannot fire')
    ctx.note(f'built-in positive example reported: {what}')


def _selfcheck_r1(ctx: RuleCtx, seed: T.Any) -> None:
    from .c02_tokens import Analyzer
    an = Analyzer(_scratch(ctx, method=_R1_SAMPLE), only={'_verif_probe'}, seed=seed)
    an.run()
    hit = [s for s in an.sites.values() if s.fn == '_verif_probe' and s.bad]
    if not hit:
        raise Undecided('positive example for R1 (a method swallowing `star`) was not reported: the typestate is broken')
    ctx.note('built-in positive example (method swallowing a token) is reported')


def r2(ctx: RuleCtx) -> None:
    _r2_core(ctx)
    _probe(ctx, _r2_core, _scratch(ctx, method=_R2_SAMPLE), 'a method resetting current_ws without flushing it')


def _r2_core(ctx: RuleCtx) -> None:
    from .c02_tokens import Analyzer
    from . import c02_ws
    an = Analyzer(ctx.repo)
    c02_ws.check_keepers(ctx, an.model)
    c02_ws.check_buffer(ctx, an.model, an.primitive, an.ctor_wrapper)


def r3(ctx: RuleCtx) -> None:
    _r3_core(ctx)
    _probe(ctx, _r3_replay_only, _scratch(ctx, tail=_R3_SAMPLE), 'a node class with a child field and no visit method')


def _r3_replay_only(ctx: RuleCtx) -> None:
    from .c02_model import NodeModel, model_for
    from . import c02_printer as cp
    cp.check_replay(ctx, model_for(ctx.repo))


def _r3_core(ctx: RuleCtx) -> None:
    from .c02_model import NodeModel, model_for
    from . import c02_printer as cp
    model = model_for(ctx.repo)
    cp.check_replay(ctx, model)
    bool_map, strip = cp.lexer_facts(ctx, model)
    ctx.note(f'parser: keyword -> constant per class {bool_map}; lexer: characters stripped per string token {strip}')
    from .c02_tokens import analysed
    kinds: T.Dict[str, T.Set[T.Any]] = {}
    for cls, ks in analysed(ctx.repo).ctor_kinds.items():
        for k in ks:
            kinds.setdefault(cls, set()).update(k if isinstance(k, frozenset) else [k])
    cp.check_terminals(ctx, model, bool_map, strip, kinds)
    cp.check_equality(ctx, model)
    cp.check_hashable(ctx, model)


def r4(ctx: RuleCtx) -> None:
    from .c02_tokens import analysed
    from . import c02_escape
    c02_escape.check(ctx, analysed(ctx.repo))
    from .. import rx
    alts = rx.branch_alternatives(r'0|[1-9]\d*') + rx.branch_alternatives(r'[1-9]\d{0,8}')
    got = [c02_escape._int_alt(a, True) for a in alts]
    if got[0] is not None or got[1] is None or got[2] is not None:
        raise Undecided(f'positive example for R4: int() totality of regex alternatives is misjudged: {got}')
    ctx.note('built-in positive example: `[1-9]\\d*` is an unbounded decimal (partial for int()), `[1-9]\\d{0,8}` is total')


def r7(ctx: RuleCtx) -> None:
    from .c02_model import model_for
    from . import c02_printer as cp
    cp.check_list_order(ctx, model_for(ctx.repo))


def r5(ctx: RuleCtx) -> None:
    from . import c02_lex
    from .. import rx
    c02_lex.check_lines(ctx)
    if not rx.matches_char(r"'([^'\\\\]|(\\\\.))*'", '\n') or rx.matches_char(r'#.*', '\n'):
        raise Undecided('positive example for R5: the regex-language test does not separate a quoted-string regex from a comment regex')
    ctx.note('built-in positive example: a negated class admits a newline, `.` does not')


def r6(ctx: RuleCtx) -> None:
    from . import c02_lex
    c02_lex.check_extents(ctx)
    _probe(ctx, lambda c: c02_lex.check_extents(c, {'VerifProbeNode': 'full'}), _scratch(ctx, tail=_R6_SAMPLE), 'an extent that ends at the closing token without +1')


_R8_SAMPLE = '''

class VerifProbeError(ParseException):
    def __init__(self, text: str, line: str, lineno: int, colno: int) -> None:
        self.lineno = lineno
        self.colno = colno
        MesonException.__init__(self, text)
'''


def r8(ctx: RuleCtx) -> None:
    from . import c02_located
    c02_located.check_located(ctx)
    _probe(ctx, lambda c: c02_located.check_located(c, {'VerifProbeError'}), _scratch(ctx, tail=_R8_SAMPLE),
           'an exception class whose base initialiser runs after the location was stored')


RULES = [
    Rule('C02.R1', 'token and fragment conservation (linear typestate, all paths, callee summaries)', r1),
    Rule('C02.R2', 'pending-whitespace buffer: reset only after a flush; removed prefix re-attached', r2),
    Rule('C02.R3', 'full-fidelity replay: every field once in textual order, raw text of terminals, positional equality', r3),
    Rule('C02.R4', 'only MesonException escapes the lexer/parser entry points (partial operations, recursion)', r4),
    Rule('C02.R5', 'newline-capable token kinds update lineno and line_start consistently', r5),
    Rule('C02.R7', 'source order across child lists that the printer replays as separate blocks', r7),
    Rule('C02.R6', 'extents of spliced nodes: first field .. closing token + 1', r6),
    Rule('C02.R8', 'syntax errors are located: exception constructors end with lineno/colno holding their parameters', r8),
]
