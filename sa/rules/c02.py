"""C02 - parsing is total, lossless and position-accurate (DESIGN section 2, C02)."""
from __future__ import annotations

import ast
import typing as T

from ..core import Undecided, norm, short
from ..report import Rule, RuleCtx
from .c02_model import MPARSER

EXPLANATION = (
    'Decides structural clauses of C02 on mparser/visitor/printer source: R1 linear-use typestate over all paths of all Parser '
    'methods with callee summaries: every token taken from the stream and every tree fragment built is attached to the returned '
    'tree or the path raises; R2 the pending-whitespace buffer is only reset right after being flushed into a returned node, the '
    'one slice of it re-attaches the removed prefix; R3 the full-fidelity visitor replays every node-typed field of every node '
    'class once, in textual order, then the node\'s whitespace, the raw printer emits the raw text of every terminal with the '
    'quotes/prefix the lexer stripped, node equality keeps positions; R4 from Lexer/Parser entry points only MesonException '
    'subclasses escape: every partial operation (int, codecs.decode, next, subscripts, Optional attribute, assert, recursion) is '
    'caught and converted or proven total from the token regex / guards; R5 every token kind whose regex admits a newline updates '
    'lineno and line_start consistently; R6 extents of call/array/dict/parenthesis nodes start at the first field and end one '
    'past the closing single-character token. Does NOT decide: a byte-for-byte round trip of a given file (implied by R1-R3 only), '
    'whether the regexes split text as the language intends, ordering of whitespace relative to its node.')
ASSUMPTIONS = [
    'calls that leave mparser.py (mlog, re, codecs apart from codecs.decode, str/list/dict methods) raise nothing but MesonException subclasses',
    'CPython >= 3.11 int(): only non power-of-two bases are subject to the 4300 digit limit',
    'token ids are non-empty strings (checked for the folded lexer tables)',
    'a method of Parser annotated bool/str hands its last consumed token to the caller; one annotated with a node type returns a finished fragment',
]
TECHNIQUE = 'path-sensitive linear typestate with callee-summary fixpoint; CFG dominance; exception-escape closure over the call graph; regex-language facts; visitor/field table agreement'


def r1(ctx: RuleCtx) -> None:
    from .c02_tokens import Analyzer
    mod = ctx.repo.module(MPARSER)
    an = Analyzer(ctx.repo)
    an.run()
    ctx.ok(f'stream advance primitive: only Parser.{an.primitive} writes self.previous; node wrapper Parser.{an.ctor_wrapper}; '
           f'kinds without own text {sorted(an.exempt)} (derived from {an.primitive})')
    ctx.require(an.exempt == {'eol', 'eof'}, 'exempt kinds are eol (already in current_ws) and eof (synthetic)', mod, f'Parser.{an.primitive}',
                'exempt token kinds', f'token kinds treated as carrying no text are {sorted(an.exempt)}; the analysis was validated for eol/eof only')
    ctx.ok(f'carrier-free node classes {sorted(an.free)}; classes replayed with a fixed spelling {an.fixed}')
    n_cons = n_frag = 0
    for s in an.sites.values():
        fn = f'Parser.{s.fn}'
        if s.what == 'consume':
            n_cons += 1
        else:
            n_frag += 1
        if s.bad is None:
            ctx.ok(f'{fn}: {"token of" if s.what == "consume" else "fragment of"} `{short(s.node, 70)}` attached on all {s.paths} path states')
        else:
            ctx.violation(mod, fn, s.node, s.bad, s.node)
    for (fn, key), (node, msg) in an.extra.items():
        ctx.violation(mod, f'Parser.{fn}', key, msg, node)
    ctx.floor('token consumption sites', n_cons, 59)
    ctx.floor('fragment construction sites', n_frag, 120)
    ctx.note(f'{len(an.kindof)} methods, {sum(len(p) for p in an.paths.values())} syntactic paths, {an.rounds} summary evaluations, '
             f'{an.nstates} abstract states; summaries: ' + '; '.join(f'{n}:{len(o)}' for n, o in an.summ.items()))
    # built-in positive example: a method that swallows a token must be reported
    _selfcheck_r1(ctx, an.summ)


_R1_SAMPLE = '''
    def _verif_probe(self) -> BaseNode:
        left = self.e5()
        if self.accept('star'):
            return left
        return left
'''


def _selfcheck_r1(ctx: RuleCtx, seed: T.Any) -> None:
    from ..core import Repo
    from .c02_tokens import Analyzer
    src = ctx.repo.read(MPARSER)
    anchor = '    def statement(self)'
    if src.count(anchor) != 1:
        raise Undecided('positive example for R1: anchor `def statement` not unique')
    ov = dict(ctx.repo.overlay)
    ov[MPARSER] = src.replace(anchor, _R1_SAMPLE + '\n' + anchor)
    an = Analyzer(Repo(ctx.repo.root, ov), only={'_verif_probe'}, seed=seed)
    an.run()
    hit = [s for s in an.sites.values() if s.fn == '_verif_probe' and s.bad]
    if not hit:
        raise Undecided('positive example for R1 (a method swallowing `star`) was not reported: the typestate is broken')
    ctx.note('built-in positive example (method swallowing a token) is reported')


def r2(ctx: RuleCtx) -> None:
    from .c02_tokens import Analyzer
    from . import c02_ws
    an = Analyzer(ctx.repo)
    c02_ws.check_keepers(ctx, an.model)
    c02_ws.check_buffer(ctx, an.model, an.primitive, an.ctor_wrapper)


RULES = [
    Rule('C02.R1', 'token and fragment conservation (linear typestate, all paths, callee summaries)', r1),
    Rule('C02.R2', 'pending-whitespace buffer: reset only after a flush; removed prefix re-attached', r2),
]
