"""Helper of the C01 pack: path-wise copy propagation (def-use resolution along ONE enumerated path).

`sa.paths` enumerates the syntactic paths of a function together with the truth value of the branch
atoms (a row of a decision table).  sa.tables inlines only single-definition locals; parser and evaluator
code re-binds locals (`left = create_node(OrNode, left, ...)`, `val1, val2 = val2, val1`), so the outcome
of a row has to be written in terms of the *reaching definition* of every local at that point of the path.
This module does exactly that and nothing else: it substitutes reaching definitions and returns the
**normalised expression shape** of outcomes, conditions and effects:

    ('const', v)                               literal as written
    ('name', 'self.current')                   free name / attribute chain on a free root (parameters, globals)
    ('call', seq, fname, recv, args, kws)      a call left UNINTERPRETED; `seq` is its position in evaluation order
                                               (so two textually equal calls `self.e3()` stay distinct operands);
                                               fname is the dotted callee when rooted at a free name, else '.meth' + recv
    ('attr', term, name) ('sub', term, idx)    attribute / subscript of such a term, uninterpreted
    ('op', OpName, operands)                   BinOp / UnaryOp / Compare / BoolOp, uninterpreted (no arithmetic, no folding)
    ('tuple'|'list'|'set', elems) ('dict', items) ('ifexp', t, a, b) ('item', iterable, n) ('expr', text)

No input value is assumed, nothing is computed, no callee body is entered: a term only says *which expression,
over which operands in which roles* a row returns / tests / stores.  Renaming a local, introducing a temporary
or inlining one does not change any term - that is what makes the rules built on it refactoring-proof.
"""
from __future__ import annotations

import ast
import typing as T

from ..core import Undecided, attr_chain, norm
from ..paths import Path, enumerate_paths

Term = T.Tuple[T.Any, ...]


class Action(T.NamedTuple):
    kind: str            # call | cond | write | setitem | setattr | del | aug | exc
    term: T.Any          # call: the call term; cond: the tested term; write: (chain, value) ...
    val: T.Any = None
    node: T.Optional[ast.AST] = None


class SymPath:
    def __init__(self, path: Path):
        self.path = path
        self.actions: T.List[Action] = []
        self.outcome = path.outcome
        self.result: T.Optional[Term] = None
        self.env: T.Dict[str, Term] = {}
        self.attrs: T.Dict[str, Term] = {}
        self.last_node: T.Optional[ast.AST] = None

    # -- views ----------------------------------------------------------
    def calls(self, fname: T.Optional[str] = None) -> T.List[Term]:
        return [a.term for a in self.actions if a.kind == 'call' and (fname is None or a.term[2] == fname)]

    def conds(self) -> T.List[T.Tuple[Term, bool]]:
        return [(a.term, a.val) for a in self.actions if a.kind == 'cond']

    def writes(self, chain: str) -> T.List[Term]:
        return [a.term[1] for a in self.actions if a.kind == 'write' and a.term[0] == chain]

    def describe(self) -> str:
        return self.path.describe()


def is_call(t: T.Any, fname: T.Optional[str] = None) -> bool:
    return isinstance(t, tuple) and len(t) == 6 and t[0] == 'call' and (fname is None or t[2] == fname)


def call_args(t: Term) -> T.Tuple[Term, ...]:
    return t[4]


def call_kw(t: Term, name: str) -> T.Optional[Term]:
    for k, v in t[5]:
        if k == name:
            return v
    return None


def subterms(t: T.Any) -> T.Iterator[Term]:
    if isinstance(t, tuple):
        if t and isinstance(t[0], str) and t[0] in ('const', 'name', 'expr'):
            yield t
            return
        if t and isinstance(t[0], str):
            yield t
        for x in t:
            if isinstance(x, tuple):
                yield from subterms(x)


def show(t: T.Any, depth: int = 0) -> str:
    """Compact, position-free rendering of a term (for messages)."""
    if not isinstance(t, tuple) or not t:
        return repr(t)
    k = t[0]
    if k == 'const':
        return repr(t[1])
    if k == 'name':
        return t[1]
    if k == 'expr':
        return t[1]
    if k == 'call':
        args = ', '.join([show(a, depth + 1) for a in t[4]] + [f'{n}={show(v, depth + 1)}' for n, v in t[5]])
        head = (show(t[3], depth + 1) + t[2]) if t[3] is not None else t[2]
        return f'{head}({args})'
    if k == 'attr':
        return f'{show(t[1], depth + 1)}.{t[2]}'
    if k == 'sub':
        return f'{show(t[1], depth + 1)}[{show(t[2], depth + 1)}]'
    if k == 'op':
        return f'{t[1]}({", ".join(show(x, depth + 1) for x in t[2])})'
    if k in ('tuple', 'list', 'set'):
        return k + '(' + ', '.join(show(x, depth + 1) for x in t[1]) + ')'
    if k == 'item':
        return f'item#{t[2]}({show(t[1], depth + 1)})'
    return k + '(...)'


class PathResolver:
    def __init__(self, sp: SymPath, params: T.Iterable[str] = (), mod: T.Any = None):
        self.sp = sp
        self.mod = mod
        self.seq = 0
        self.iters: T.Dict[int, int] = {}

    # -- expressions -------------------------------------------------------
    def ev(self, e: T.Optional[ast.AST]) -> Term:
        if e is None:
            return ('const', None)
        m = getattr(self, 'e_' + e.__class__.__name__, None)
        if m is None:
            # comprehensions, lambdas, f-strings ...: opaque, but calls inside still count as evaluated
            return ('expr', norm(e))
        return m(e)

    def e_Constant(self, e: ast.Constant) -> Term:
        return ('const', e.value)

    def e_Name(self, e: ast.Name) -> Term:
        if e.id in self.sp.env:
            return self.sp.env[e.id]
        return ('name', e.id)

    def e_Attribute(self, e: ast.Attribute) -> Term:
        base = self.ev(e.value)
        if base[0] == 'name':
            chain = f'{base[1]}.{e.attr}'
            if chain in self.sp.attrs:
                return self.sp.attrs[chain]
            return ('name', chain)
        return ('attr', base, e.attr)

    def e_Subscript(self, e: ast.Subscript) -> Term:
        base = self.ev(e.value)
        if isinstance(e.slice, ast.Slice):
            idx: Term = ('slice', self.ev(e.slice.lower), self.ev(e.slice.upper), self.ev(e.slice.step))
        else:
            idx = self.ev(e.slice)
        return ('sub', base, idx)

    def _const_getattr(self, e: ast.AST) -> bool:
        return isinstance(e, ast.Call) and isinstance(e.func, ast.Name) and e.func.id == 'getattr' and 'getattr' not in self.sp.env and len(e.args) == 2 \
            and not e.keywords and isinstance(e.args[1], ast.Constant) and isinstance(e.args[1].value, str) and e.args[1].value.isidentifier()

    def e_Call(self, e: ast.Call) -> Term:
        recv: T.Optional[Term] = None
        f = e.func
        # `getattr(x, 'name')` with a literal name is the attribute `x.name` (kind A4: attribute selected by name from a constant table)
        if self._const_getattr(e):
            return self.ev(ast.copy_location(ast.Attribute(value=e.args[0], attr=e.args[1].value, ctx=ast.Load()), e))      # type: ignore[attr-defined]
        if self._const_getattr(f):
            f = ast.copy_location(ast.Attribute(value=f.args[0], attr=f.args[1].value, ctx=ast.Load()), f)      # type: ignore[attr-defined]
        # a module-level alias `name = functools.partial(F, a, ...)`: name(x) is F(a, ..., x)
        if isinstance(f, ast.Name) and self.mod is not None and f.id not in self.sp.env and self.mod.has_assign(f.id):
            v = self.mod.assign_value(f.id)
            if isinstance(v, ast.Call) and attr_chain(v.func) in ('functools.partial', 'partial') and v.args \
                    and not any(isinstance(a, ast.Starred) for a in v.args) and all(k.arg for k in v.keywords):
                return self.ev(ast.copy_location(ast.Call(func=v.args[0], args=list(v.args[1:]) + list(e.args), keywords=list(v.keywords) + list(e.keywords)), e))
        if isinstance(f, ast.Attribute):
            base = self.ev(f.value)
            if base[0] == 'name':
                fname = f'{base[1]}.{f.attr}'
            else:
                fname, recv = '.' + f.attr, base
        elif isinstance(f, ast.Name):
            b = self.ev(f)
            if b[0] == 'name':
                fname = b[1]
            else:
                fname, recv = '()', b
        else:
            fname, recv = '()', self.ev(f)
        args: T.List[Term] = []
        for a in e.args:
            if isinstance(a, ast.Starred):
                args.append(('star', self.ev(a.value)))
            else:
                args.append(self.ev(a))
        kws = tuple((k.arg or '**', self.ev(k.value)) for k in e.keywords)
        self.seq += 1
        t: Term = ('call', self.seq, fname, recv, tuple(args), kws)
        self.sp.actions.append(Action('call', t, None, e))
        return t

    def e_BinOp(self, e: ast.BinOp) -> Term:
        return ('op', e.op.__class__.__name__, (self.ev(e.left), self.ev(e.right)))

    def e_UnaryOp(self, e: ast.UnaryOp) -> Term:
        return ('op', e.op.__class__.__name__, (self.ev(e.operand),))

    def e_BoolOp(self, e: ast.BoolOp) -> Term:
        return ('op', e.op.__class__.__name__, tuple(self.ev(v) for v in e.values))

    def e_Compare(self, e: ast.Compare) -> Term:
        if len(e.ops) == 1:
            return ('op', e.ops[0].__class__.__name__, (self.ev(e.left), self.ev(e.comparators[0])))
        return ('op', 'Chain:' + ','.join(o.__class__.__name__ for o in e.ops), tuple(self.ev(x) for x in [e.left] + list(e.comparators)))

    def e_Tuple(self, e: ast.Tuple) -> Term:
        return ('tuple', tuple(self.ev(x) for x in e.elts))

    def e_List(self, e: ast.List) -> Term:
        return ('list', tuple(self.ev(x) for x in e.elts))

    def e_Set(self, e: ast.Set) -> Term:
        return ('set', tuple(self.ev(x) for x in e.elts))

    def e_Dict(self, e: ast.Dict) -> Term:
        return ('dict', tuple((self.ev(k) if k is not None else ('const', '**'), self.ev(v)) for k, v in zip(e.keys, e.values)))

    def e_IfExp(self, e: ast.IfExp) -> Term:
        return ('ifexp', self.ev(e.test), self.ev(e.body), self.ev(e.orelse))

    def e_NamedExpr(self, e: ast.NamedExpr) -> Term:
        v = self.ev(e.value)
        self.bind(e.target, v, e)
        return v

    def e_Starred(self, e: ast.Starred) -> Term:
        return ('star', self.ev(e.value))

    # -- statements ------------------------------------------------------
    def bind(self, target: ast.AST, value: Term, node: ast.AST) -> None:
        sp = self.sp
        if isinstance(target, ast.Name):
            sp.env[target.id] = value
        elif isinstance(target, (ast.Tuple, ast.List)):
            if value[0] in ('tuple', 'list') and len(value[1]) == len(target.elts):
                for t, v in zip(target.elts, value[1]):
                    self.bind(t, v, node)
            else:
                for i, t in enumerate(target.elts):
                    self.bind(t, ('sub', value, ('const', i)), node)
        elif isinstance(target, ast.Attribute):
            base = self.ev(target.value)
            if base[0] == 'name':
                chain = f'{base[1]}.{target.attr}'
                sp.attrs[chain] = value
                sp.actions.append(Action('write', (chain, value), None, node))
            else:
                sp.actions.append(Action('setattr', (base, target.attr, value), None, node))
        elif isinstance(target, ast.Subscript):
            base = self.ev(target.value)
            sp.actions.append(Action('setitem', (base, self.ev(target.slice) if not isinstance(target.slice, ast.Slice) else ('slice',), value), None, node))
        elif isinstance(target, ast.Starred):
            self.bind(target.value, value, node)
        else:
            raise Undecided(f'cannot bind {norm(target)}')

    def stmt(self, st: ast.AST) -> None:
        sp = self.sp
        sp.last_node = st
        if isinstance(st, ast.Assign):
            v = self.ev(st.value)
            for t in st.targets:
                self.bind(t, v, st)
        elif isinstance(st, ast.AnnAssign):
            if st.value is not None:
                self.bind(st.target, self.ev(st.value), st)
        elif isinstance(st, ast.AugAssign):
            old = self.ev(st.target)
            v = ('op', st.op.__class__.__name__, (old, self.ev(st.value)))
            sp.actions.append(Action('aug', (old, v), None, st))
            self.bind(st.target, v, st)
        elif isinstance(st, ast.Expr):
            self.ev(st.value)
        elif isinstance(st, ast.Return):
            sp.result = self.ev(st.value)
        elif isinstance(st, ast.Raise):
            sp.result = self.ev(st.exc) if st.exc is not None else ('const', '<reraise>')
        elif isinstance(st, ast.Delete):
            for t in st.targets:
                sp.actions.append(Action('del', self.ev(t.value) if isinstance(t, (ast.Subscript, ast.Attribute)) else self.ev(t), None, st))
        elif isinstance(st, (ast.FunctionDef, ast.AsyncFunctionDef, ast.ClassDef)):
            sp.env[st.name] = ('def', st.name)
        elif isinstance(st, (ast.Pass, ast.Import, ast.ImportFrom, ast.Global, ast.Nonlocal)):
            pass
        else:
            raise Undecided(f'statement kind {st.__class__.__name__} is outside the symbolic subset')

    def run(self) -> SymPath:
        sp = self.sp
        for ev in sp.path.events:
            if ev.kind == 'stmt':
                self.stmt(ev.node)      # type: ignore[arg-type]
            elif ev.kind == 'cond':
                sp.last_node = ev.node
                ct, cv = self.ev(ev.node), bool(ev.val)
                while isinstance(ct, tuple) and len(ct) == 3 and ct[0] == 'op' and ct[1] == 'Not':     # a negation bound to a local first
                    ct, cv = ct[2][0], not cv
                sp.actions.append(Action('cond', ct, cv, ev.node))
            elif ev.kind == 'iter':
                st = ev.node
                n = self.iters.get(id(st), 0)
                if ev.val == 'iter':
                    self.iters[id(st)] = n + 1
                    key = f'@iter{id(st)}'
                    if key not in sp.env:
                        sp.env[key] = self.ev(st.iter)        # type: ignore[union-attr]
                    item: Term = ('item', sp.env[key], n)
                    sp.actions.append(Action('iter', item, None, st))
                    self.bind(st.target, item, st)            # type: ignore[union-attr]
                else:
                    key = f'@iter{id(st)}'
                    if key not in sp.env:
                        sp.env[key] = self.ev(st.iter)        # type: ignore[union-attr]
                    sp.actions.append(Action('iterdone', sp.env[key], None, st))
            elif ev.kind == 'with':
                for i in ev.node.items:                       # type: ignore[union-attr]
                    v = self.ev(i.context_expr)
                    if i.optional_vars is not None:
                        self.bind(i.optional_vars, v, ev.node)  # type: ignore[arg-type]
            elif ev.kind == 'exc':
                h = ev.node
                sp.actions.append(Action('exc', norm(h.type) if getattr(h, 'type', None) is not None else '<all>', None, h))
                if getattr(h, 'name', None):
                    sp.env[h.name] = ('name', f'<exception {norm(h.type)}>')  # type: ignore[union-attr]
        if sp.outcome == 'return' and sp.result is None:
            sp.result = ('const', None)
        if sp.outcome == 'fall':
            sp.result = ('const', None)
        return sp


def sym_paths(fn: T.Union[ast.FunctionDef, ast.AsyncFunctionDef], *, body: T.Optional[T.List[ast.stmt]] = None,
              unroll: int = 1, handlers: bool = False, pure: T.Optional[T.Set[str]] = None,
              helpers: T.Optional[T.Dict[str, ast.FunctionDef]] = None, mod: T.Any = None) -> T.List[SymPath]:
    out = []
    stmts = body if body is not None else fn.body
    if helpers:
        stmts = inline_helpers(list(stmts), {k: v for k, v in helpers.items() if v is not fn})
    if any(isinstance(n, ast.IfExp) for s_ in stmts for n in ast.walk(s_)):
        stmts = desugar_conditionals(list(stmts))
    if mod is not None and any(isinstance(n, ast.For) for s_ in stmts for n in ast.walk(s_)):
        def lookup(name: str) -> T.Optional[ast.AST]:
            try:
                return mod.assign_value(name) if mod.has_assign(name) else None
            except Exception:
                return None
        stmts = unroll_table_loops(list(stmts), lookup)
    for p in enumerate_paths(stmts, unroll=unroll, handlers=handlers, pure=pure or set()):
        sp = PathResolver(SymPath(p), mod=mod).run()
        if not _contradictory(sp):
            out.append(sp)
    return out


def _pure_key(t: T.Any) -> T.Optional[T.Any]:
    """Identity of a tested value for pruning: a pure builtin predicate applied to the same already-evaluated operands (call identities inside the
    operands are kept, so two evaluations of an impure call never coincide)."""
    if is_call(t) and t[3] is None and t[2] in ('isinstance', 'len', 'bool', 'callable') and not t[5]:
        return ('pure', t[2], t[4])
    if isinstance(t, tuple) and t and t[0] == 'op' and t[1] in ('Is', 'IsNot', 'Eq', 'NotEq', 'In', 'NotIn', 'Lt', 'LtE', 'Gt', 'GtE'):
        return t
    return None


def _contradictory(sp: SymPath) -> bool:
    """The same pure predicate on the same values with two different outcomes on one path: the path is infeasible (typically after a helper was
    spliced in and caller and callee both test `isinstance(value, X)` under different local names)."""
    seen: T.Dict[T.Any, bool] = {}
    written = False
    for a in sp.actions:
        if a.kind in ('write', 'setattr', 'setitem', 'aug', 'del'):
            written = True
        if a.kind != 'cond':
            continue
        k = _pure_key(a.term)
        if k is None:
            continue
        neg = {'IsNot': 'Is', 'NotEq': 'Eq', 'NotIn': 'In'}
        v = a.val
        if k[0] == 'op' and k[1] in neg:
            k, v = ('op', neg[k[1]], k[2]), not v
        # comparisons over attribute chains may be invalidated by stores: only value-identified operands (calls, constants, names of locals) are trusted
        if k[0] == 'op' and written and any(isinstance(x, tuple) and x and x[0] == 'name' and '.' in str(x[1]) for x in subterms(k)):
            continue
        if k in seen and seen[k] != v:
            return True
        seen.setdefault(k, v)
    return False


# ---------------------------------------------------------------------------
# extracted private helpers: splice the callee's statements into the caller before the paths are enumerated
# ---------------------------------------------------------------------------

import copy as _copy


class _Rename(ast.NodeTransformer):
    def __init__(self, mapping: T.Dict[str, str]):
        self.mapping = mapping

    def visit_Name(self, n: ast.Name) -> ast.AST:
        if n.id in self.mapping:
            return ast.copy_location(ast.Name(id=self.mapping[n.id], ctx=n.ctx), n)
        return n

    def visit_FunctionDef(self, n: ast.FunctionDef) -> ast.AST:
        return n        # nested definitions keep their own scope

    def visit_Lambda(self, n: ast.Lambda) -> ast.AST:
        return n


def _callee_of(call: ast.AST, helpers: T.Dict[str, ast.FunctionDef]) -> T.Optional[ast.FunctionDef]:
    """The helper a call denotes: `self.h(..)` / `cls.h(..)` (same-class method), `Class.h(..)` for a static helper, or `h(..)` for a module-level
    private function registered under the key `::h` (see module_helpers)."""
    if not isinstance(call, ast.Call):
        return None
    f = call.func
    if isinstance(f, ast.Attribute) and isinstance(f.value, ast.Name) and f.attr in helpers:
        if f.value.id in ('self', 'cls'):
            return helpers[f.attr]
        if f.value.id[:1].isupper() and any(norm(d) == 'staticmethod' for d in helpers[f.attr].decorator_list):
            return helpers[f.attr]
    if isinstance(f, ast.Name) and ('::' + f.id) in helpers:
        return helpers['::' + f.id]
    return None


def module_helpers(mod: T.Any, stop: T.Iterable[str] = ()) -> T.Dict[str, ast.FunctionDef]:
    """Private module-level functions (undecorated, underscore name) as helper candidates: a block or a static helper moved out of its class (kind E2).
    They are registered under `::name` and presented as static functions (no receiver parameter)."""
    out: T.Dict[str, ast.FunctionDef] = {}
    stop = set(stop)
    for st in mod.tree.body:
        if isinstance(st, ast.FunctionDef) and st.name.startswith('_') and not st.name.startswith('__') and st.name not in stop and not st.decorator_list:
            c = _copy.copy(st)
            c.decorator_list = [ast.Name(id='staticmethod', ctx=ast.Load())]
            out['::' + st.name] = c
    return out


def _instantiate(callee: ast.FunctionDef, call: ast.Call, tag: str) -> T.Optional[T.List[ast.stmt]]:
    """Callee body with parameters bound to the call's arguments and every local renamed apart; None if the call shape is not plain."""
    a = callee.args
    if a.vararg or a.kwarg or a.posonlyargs or any(isinstance(x, ast.Starred) for x in call.args) or any(k.arg is None for k in call.keywords):
        return None
    if any(isinstance(n, (ast.Yield, ast.YieldFrom, ast.Await, ast.Global, ast.Nonlocal)) for n in ast.walk(callee)):
        return None
    params = [p.arg for p in a.args]
    static = any(norm(d) == 'staticmethod' for d in callee.decorator_list)
    if not static:
        if not params or params[0] not in ('self', 'cls'):
            return None
        params = params[1:]
    bound: T.Dict[str, ast.AST] = {}
    if len(call.args) > len(params):
        return None
    for p, v in zip(params, call.args):
        bound[p] = v
    kwonly = [p.arg for p in a.kwonlyargs]
    for k in call.keywords:
        if k.arg in bound or k.arg not in params + kwonly:
            return None
        bound[k.arg] = k.value          # type: ignore[index]
    defaults = dict(zip(params[len(params) - len(a.defaults):], a.defaults))
    defaults.update({p: d for p, d in zip(kwonly, a.kw_defaults) if d is not None})
    for p in params + kwonly:
        if p not in bound:
            if p not in defaults:
                return None
            bound[p] = defaults[p]
    local_names = {n.id for n in ast.walk(callee) if isinstance(n, ast.Name) and isinstance(n.ctx, (ast.Store, ast.Del))} | set(params) | set(kwonly)
    mapping = {n: f'{tag}{n}' for n in local_names}
    body = [_Rename(mapping).visit(_copy.deepcopy(s)) for s in callee.body]
    if body and isinstance(body[0], ast.Expr) and isinstance(body[0].value, ast.Constant) and isinstance(body[0].value.value, str):
        body = body[1:]
    pre: T.List[ast.stmt] = []
    for p in params + kwonly:
        st = ast.Assign(targets=[ast.Name(id=mapping[p], ctx=ast.Store())], value=_copy.deepcopy(bound[p]))
        pre.append(ast.copy_location(st, call))
    out = pre + body
    for s in out:
        ast.fix_missing_locations(s)
    return out


def returns_to_assign(body: T.List[ast.stmt], target: T.Optional[ast.AST]) -> T.Optional[T.List[ast.stmt]]:
    """A helper body with early returns as straight-line code for its caller: `return E` becomes `target = E` (nothing when the value is not
    used) and the statements after an `if` that may return are moved into the branches that fall through.  None when a return sits inside a
    loop / try / with (not modelled)."""
    def has_return(stmts: T.List[ast.stmt]) -> bool:
        return any(isinstance(n, ast.Return) for st in stmts for n in ast.walk(st) if not isinstance(st, (ast.FunctionDef, ast.ClassDef)))

    def rec(stmts: T.List[ast.stmt]) -> T.Optional[T.Tuple[T.List[ast.stmt], bool]]:
        # returns (statements, falls_through)
        out: T.List[ast.stmt] = []
        for i, st in enumerate(stmts):
            if isinstance(st, ast.Return):
                if target is not None:
                    val = st.value if st.value is not None else ast.Constant(value=None)
                    a = ast.Assign(targets=[_copy.deepcopy(target)], value=val)
                    ast.copy_location(a, st)
                    ast.fix_missing_locations(a)
                    out.append(a)
                elif st.value is not None and any(isinstance(n, ast.Call) for n in ast.walk(st.value)):
                    e = ast.Expr(value=st.value)
                    ast.copy_location(e, st)
                    out.append(e)
                return out, False
            if isinstance(st, ast.Raise):
                out.append(st)
                return out, False
            if isinstance(st, ast.If) and has_return([st]):
                rest = stmts[i + 1:]
                b = rec(list(st.body) + _copy.deepcopy(rest))
                o = rec(list(st.orelse) + _copy.deepcopy(rest))
                if b is None or o is None:
                    return None
                new = _copy.copy(st)
                new.body = b[0] or [ast.copy_location(ast.Pass(), st)]
                new.orelse = o[0]
                out.append(new)
                return out, b[1] or o[1]
            if has_return([st]):
                return None
            out.append(st)
        return out, True
    r = rec(list(body))
    return None if r is None else r[0]


def _returns(body: T.List[ast.stmt]) -> T.List[ast.Return]:
    out = []
    for s in body:
        for n in ast.walk(s):
            if isinstance(n, ast.Return):
                out.append(n)
    return out


def inline_helpers(body: T.List[ast.stmt], helpers: T.Dict[str, ast.FunctionDef], depth: int = 2, _counter: T.Optional[T.List[int]] = None,
                   _stack: T.Tuple[str, ...] = ()) -> T.List[ast.stmt]:
    """Copy of `body` in which statement-level calls of the given same-class helpers are replaced by the helper's statements:
         return self._h(a)      -> the helper body (its returns are the caller's returns)
         self._h(a)             -> the helper body, if it has no `return`
         x = self._h(a)         -> the helper body, if its only `return` is its last statement, then `x = <returned expression>`
    Anything else stays an opaque call (the rules then see an unknown callee and must not guess)."""
    counter = _counter if _counter is not None else [0]

    def expand(callee: ast.FunctionDef, call: ast.Call) -> T.Optional[T.List[ast.stmt]]:
        if depth <= 0 or callee.name in _stack:
            return None
        counter[0] += 1
        inst = _instantiate(callee, call, f'_inl{counter[0]}_')
        if inst is None:
            return None
        return inline_helpers(inst, helpers, depth - 1, counter, _stack + (callee.name,))

    out: T.List[ast.stmt] = []
    work = list(body)
    while work:
        st = work.pop(0)
        # A-normal form: a helper call nested in the statement's expression, evaluated before any other call, is bound to a temporary first
        lifted = _lift_nested(st, helpers, counter) if depth > 0 else None
        if lifted is not None:
            work[0:0] = lifted
            continue
        if isinstance(st, ast.Raise) and st.exc is not None and st.cause is None:
            # `raise self._h(a)` with a helper that only builds the exception: the helper body, then `raise <returned expression>`
            c = _callee_of(st.exc, helpers)
            if c is not None:
                rets = _returns(c.body)
                if len(rets) == 1 and c.body and c.body[-1] is rets[0] and rets[0].value is not None:
                    inst = expand(c, st.exc)        # type: ignore[arg-type]
                    if inst is not None and isinstance(inst[-1], ast.Return):
                        last = inst[-1]
                        out.extend(inst[:-1])
                        out.append(ast.copy_location(ast.Raise(exc=last.value, cause=None), st))
                        ast.fix_missing_locations(out[-1])
                        continue
        if isinstance(st, ast.Return) and st.value is not None:
            c = _callee_of(st.value, helpers)
            if c is not None:
                inst = expand(c, st.value)          # type: ignore[arg-type]
                if inst is not None:
                    if not inst or not isinstance(inst[-1], (ast.Return, ast.Raise)):
                        inst = inst + [ast.copy_location(ast.Return(value=None), st)]
                    out.extend(inst)
                    continue
        elif isinstance(st, ast.Expr):
            c = _callee_of(st.value, helpers)
            if c is not None:
                inst = expand(c, st.value)          # type: ignore[arg-type]
                if inst is not None and _returns(inst):
                    inst = returns_to_assign(inst, None)
                if inst is not None:
                    out.extend(inst)
                    continue
        elif isinstance(st, ast.Assign) and len(st.targets) == 1:
            c = _callee_of(st.value, helpers)
            if c is not None:
                rets = _returns(c.body)
                if len(rets) == 1 and c.body and c.body[-1] is rets[0] and rets[0].value is not None:
                    inst = expand(c, st.value)      # type: ignore[arg-type]
                    if inst is not None and isinstance(inst[-1], ast.Return):
                        last = inst[-1]
                        out.extend(inst[:-1])
                        out.append(ast.copy_location(ast.Assign(targets=[_copy.deepcopy(st.targets[0])], value=last.value), st))
                        ast.fix_missing_locations(out[-1])
                        continue
                elif rets:
                    inst = expand(c, st.value)      # type: ignore[arg-type]
                    conv = returns_to_assign(inst, st.targets[0]) if inst is not None else None
                    if conv is not None:
                        out.extend(conv)
                        continue
        new = st
        if isinstance(st, (ast.If, ast.For, ast.AsyncFor, ast.While, ast.With, ast.AsyncWith, ast.Try)):
            new = _copy.copy(st)
            for field in ('body', 'orelse', 'finalbody'):
                sub = getattr(st, field, None)
                if isinstance(sub, list) and sub and isinstance(sub[0], ast.stmt):
                    setattr(new, field, inline_helpers(sub, helpers, depth, counter, _stack))
            if isinstance(st, ast.Try):
                hs = []
                for h in st.handlers:
                    h2 = _copy.copy(h)
                    h2.body = inline_helpers(h.body, helpers, depth, counter, _stack)
                    hs.append(h2)
                new.handlers = hs
        out.append(new)
    return out


_CONDITIONAL_EVAL = (ast.IfExp, ast.BoolOp, ast.Lambda, ast.ListComp, ast.SetComp, ast.DictComp, ast.GeneratorExp, ast.NamedExpr, ast.Await, ast.Yield, ast.YieldFrom,
                     ast.Dict, ast.JoinedStr)


def _first_call(e: ast.AST) -> T.Any:
    """The call completed first when `e` is evaluated; None when `e` contains no call; False when that cannot be told from the shape
    (conditionally evaluated sub-expressions)."""
    if isinstance(e, _CONDITIONAL_EVAL):
        return False if any(isinstance(n, ast.Call) for n in ast.walk(e)) else None
    if isinstance(e, ast.Call):
        for ch in [e.func] + list(e.args) + [k.value for k in e.keywords]:
            r = _first_call(ch)
            if r is not None:
                return r
        return e
    if isinstance(e, ast.Compare):
        kids: T.List[ast.AST] = [e.left] + list(e.comparators)
    else:
        kids = [c for c in ast.iter_child_nodes(e) if isinstance(c, ast.expr)]
    for ch in kids:
        r = _first_call(ch)
        if r is not None:
            return r
    return None


def _lift_nested(st: ast.stmt, helpers: T.Dict[str, ast.FunctionDef], counter: T.List[int]) -> T.Optional[T.List[ast.stmt]]:
    """`f(a, self._h(x))` / `y = g(self._h(x))` / `return [self._h(x)]` ... -> `_lift = self._h(x)` followed by the statement over `_lift`, when the helper
    call is the first call the statement evaluates (so binding it first keeps the order of effects).  A helper call that IS the statement's value
    is left to the statement-level cases of inline_helpers."""
    if isinstance(st, (ast.Expr, ast.Return, ast.Assign, ast.AnnAssign, ast.AugAssign)):
        top = st.value
    elif isinstance(st, ast.Raise) and st.cause is None:
        top = st.exc
    elif isinstance(st, ast.If):
        top = st.test
    else:
        return None
    if top is None:
        return None
    if isinstance(st, (ast.Assign, ast.AugAssign, ast.AnnAssign)):
        tgs = st.targets if isinstance(st, ast.Assign) else [st.target]
        if any(isinstance(n, ast.Call) for t in tgs for n in ast.walk(t)):
            return None
    fc = _first_call(top)
    if not isinstance(fc, ast.Call) or (fc is top and not isinstance(st, ast.If)):
        return None
    c = _callee_of(fc, helpers)
    if c is None:
        return None
    counter[0] += 1
    tmp = f'_lift{counter[0]}_'
    bind = ast.copy_location(ast.Assign(targets=[ast.Name(id=tmp, ctx=ast.Store())], value=fc), st)
    new = _copy.copy(st)
    repl = ast.copy_location(ast.Name(id=tmp, ctx=ast.Load()), fc)
    field = 'test' if isinstance(st, ast.If) else 'exc' if isinstance(st, ast.Raise) else 'value'
    if fc is top:
        setattr(new, field, repl)
    else:
        top2 = _copy.deepcopy(top)          # the module's tree is shared: never rewrite it in place
        fc2 = next(c for o, c in zip(ast.walk(top), ast.walk(top2)) if o is fc)
        setattr(new, field, _ReplaceNode(fc2, repl).visit(top2))
    ast.fix_missing_locations(bind)
    ast.fix_missing_locations(new)
    return [bind, new]


def private_helpers(cls: ast.ClassDef, stop: T.Iterable[str] = ()) -> T.Dict[str, ast.FunctionDef]:
    """Private (underscore, non-dunder) methods of a class: candidates for having been extracted from a public method."""
    stop = set(stop)
    return {s.name: s for s in cls.body if isinstance(s, ast.FunctionDef) and s.name.startswith('_') and not s.name.startswith('__') and s.name not in stop
            and all(norm(d) == 'staticmethod' for d in s.decorator_list)}


# ---------------------------------------------------------------------------
# loops driven by a constant table (policy form c: a finite domain the source declares): unrolled before path enumeration
# ---------------------------------------------------------------------------

def _table_rows(value: ast.AST) -> T.Optional[T.List[T.List[ast.AST]]]:
    """Rows of a constant display: tuple/list of tuples (or scalars), or a dict display (rows are [key, value])."""
    def simple(e: ast.AST) -> bool:
        return isinstance(e, ast.Constant) or attr_chain(e) is not None
    if isinstance(value, (ast.Tuple, ast.List)):
        rows = []
        for el in value.elts:
            if isinstance(el, (ast.Tuple, ast.List)) and all(simple(x) for x in el.elts):
                rows.append(list(el.elts))
            elif simple(el):
                rows.append([el])
            else:
                return None
        return rows
    if isinstance(value, ast.Dict) and all(k is not None and simple(k) and simple(v) for k, v in zip(value.keys, value.values)):
        return [[k, v] for k, v in zip(value.keys, value.values)]       # type: ignore[list-item]
    return None


class _Subst(ast.NodeTransformer):
    def __init__(self, mapping: T.Dict[str, ast.AST]):
        self.mapping = mapping

    def visit_Name(self, n: ast.Name) -> ast.AST:
        if isinstance(n.ctx, ast.Load) and n.id in self.mapping:
            return ast.copy_location(_copy.deepcopy(self.mapping[n.id]), n)
        return n


def unroll_table_loops(body: T.List[ast.stmt], lookup: T.Callable[[str], T.Optional[ast.AST]], limit: int = 32) -> T.List[ast.stmt]:
    """`for a, b in TABLE: BODY` with TABLE a module/class-level constant display -> BODY once per row, the loop variables replaced by the row's
    entries (only when BODY neither breaks/continues nor re-binds the loop variables, and the loop has no else)."""
    out: T.List[ast.stmt] = []
    for st in body:
        new: ast.stmt = st
        if isinstance(st, (ast.If, ast.For, ast.AsyncFor, ast.While, ast.With, ast.AsyncWith, ast.Try)):
            new = _copy.copy(st)
            for field in ('body', 'orelse', 'finalbody'):
                sub = getattr(st, field, None)
                if isinstance(sub, list) and sub and isinstance(sub[0], ast.stmt):
                    setattr(new, field, unroll_table_loops(sub, lookup, limit))
            if isinstance(st, ast.Try):
                hs = []
                for h in st.handlers:
                    h2 = _copy.copy(h)
                    h2.body = unroll_table_loops(h.body, lookup, limit)
                    hs.append(h2)
                new.handlers = hs      # type: ignore[attr-defined]
        if isinstance(new, ast.For) and not new.orelse:
            it = new.iter
            dict_items = False
            if isinstance(it, ast.Call) and isinstance(it.func, ast.Attribute) and it.func.attr == 'items' and not it.args:
                it, dict_items = it.func.value, True
            name = attr_chain(it)
            value = lookup(name) if name and '.' not in name else None
            rows = _table_rows(value) if value is not None else None
            if rows is not None and dict_items != isinstance(value, ast.Dict):
                rows = None if dict_items else ([[r[0]] for r in rows] if isinstance(value, ast.Dict) else rows)
            targets = [new.target] if isinstance(new.target, ast.Name) else list(new.target.elts) if isinstance(new.target, (ast.Tuple, ast.List)) else []
            ok = rows is not None and 0 < len(rows) <= limit and targets and all(isinstance(t, ast.Name) for t in targets) and all(len(r) == len(targets) for r in rows)
            if ok:
                tnames = {t.id for t in targets}       # type: ignore[attr-defined]
                for n in ast.walk(ast.Module(body=new.body, type_ignores=[])):
                    if isinstance(n, (ast.Break, ast.Continue)) or (isinstance(n, ast.Name) and isinstance(n.ctx, (ast.Store, ast.Del)) and n.id in tnames):
                        ok = False
            if ok:
                for r in rows:      # type: ignore[union-attr]
                    mapping = {t.id: e for t, e in zip(targets, r)}       # type: ignore[attr-defined]
                    for s in new.body:
                        s2 = _Subst(mapping).visit(_copy.deepcopy(s))
                        ast.fix_missing_locations(s2)
                        out.append(s2)
                continue
        out.append(new)
    return out


# ---------------------------------------------------------------------------
# source normal form applied before path enumeration (pass 7, D.4): conditional expressions become if/else statements
# ---------------------------------------------------------------------------

def _pure_test(e: ast.AST) -> bool:
    return not any(isinstance(n, (ast.Call, ast.Await, ast.Yield, ast.YieldFrom, ast.NamedExpr)) for n in ast.walk(e)) or \
        all(isinstance(n.func, ast.Name) and n.func.id in ('isinstance', 'len', 'bool') for n in ast.walk(e) if isinstance(n, ast.Call))


class _ReplaceNode(ast.NodeTransformer):
    def __init__(self, target: ast.AST, repl: ast.AST):
        self.target, self.repl = target, repl

    def generic_visit(self, node: ast.AST) -> ast.AST:
        if node is self.target:
            return self.repl
        return super().generic_visit(node)

    def visit(self, node: ast.AST) -> ast.AST:
        if node is self.target:
            return self.repl
        return super().visit(node)


def _first_ifexp(st: ast.stmt) -> T.Optional[ast.IfExp]:
    """The conditional expression of a simple statement that can be lifted: its test is pure and nothing with an effect is evaluated before it."""
    if not isinstance(st, (ast.Assign, ast.AnnAssign, ast.Return, ast.Expr, ast.AugAssign)):
        return None
    value = st.value
    if value is None:
        return None
    if isinstance(value, ast.IfExp) and _pure_test(value.test):
        return value
    # an argument of the outermost call (first effectful thing evaluated after the receiver)
    if isinstance(value, ast.Call):
        for a in value.args:
            if isinstance(a, ast.IfExp) and _pure_test(a.test):
                before = value.args[:value.args.index(a)]
                if all(not any(isinstance(n, ast.Call) for n in ast.walk(b)) for b in before) and \
                        not any(isinstance(n, ast.Call) for n in ast.walk(value.func)):
                    return a
                return None
        if isinstance(value.func, ast.IfExp) and _pure_test(value.func.test):
            return value.func
    return None


def desugar_conditionals(body: T.List[ast.stmt]) -> T.List[ast.stmt]:
    """`x = a if c else b` / `return f(a if c else b)` / `(f if c else g)(x)` -> `if c: <stmt with a> else: <stmt with b>` (c pure)."""
    out: T.List[ast.stmt] = []
    for st in body:
        new: ast.stmt = st
        if isinstance(st, (ast.If, ast.For, ast.AsyncFor, ast.While, ast.With, ast.AsyncWith, ast.Try)):
            new = _copy.copy(st)
            for field in ('body', 'orelse', 'finalbody'):
                sub = getattr(st, field, None)
                if isinstance(sub, list) and sub and isinstance(sub[0], ast.stmt):
                    setattr(new, field, desugar_conditionals(sub))
            if isinstance(st, ast.Try):
                hs = []
                for h in st.handlers:
                    h2 = _copy.copy(h)
                    h2.body = desugar_conditionals(h.body)
                    hs.append(h2)
                new.handlers = hs          # type: ignore[attr-defined]
            out.append(new)
            continue
        ie = _first_ifexp(st)
        if ie is None:
            out.append(st)
            continue
        s1, s2 = _copy.deepcopy(st), _copy.deepcopy(st)
        # locate the copied IfExp by position in a parallel walk
        def swap(stmt: ast.stmt, orig: ast.stmt, pick: str) -> ast.stmt:
            pairs = list(zip(ast.walk(orig), ast.walk(stmt)))
            for o, c in pairs:
                if o is ie:
                    return _ReplaceNode(c, getattr(c, pick)).visit(stmt)
            return stmt
        s1 = swap(s1, st, 'body')
        s2 = swap(s2, st, 'orelse')
        node = ast.If(test=_copy.deepcopy(ie.test), body=desugar_conditionals([s1]), orelse=desugar_conditionals([s2]))
        ast.copy_location(node, st)
        ast.fix_missing_locations(node)
        out.append(node)
    return out


# ---------------------------------------------------------------------------
# constant folding through table-builder functions (policy form a): `T = _build(A)` with `def _build(x): return [*B, ('id', x), *C]`
# ---------------------------------------------------------------------------

from ..consteval import Folder as _Folder


class BFolder(_Folder):
    """sa.consteval.Folder + beta reduction of a call of a module-level function whose body is a single `return <expression>`: the expression is
    folded with the parameters bound to the folded arguments (no statement is executed, no loop is run)."""

    def sub(self, mod: T.Any, scope: T.Optional[ast.ClassDef] = None) -> '_Folder':
        if self.depth > 12:
            raise Undecided('constant folding recursion too deep')
        return BFolder(self.repo, mod, scope, None, self.depth + 1)

    def f_Call(self, e: ast.Call) -> T.Any:
        f = e.func
        if isinstance(f, ast.Name) and f.id not in self.env and self.mod.has_func(f.id) and not self.mod.has_assign(f.id):
            fn = self.mod.func(f.id)
            body = [s_ for s_ in fn.body if not (isinstance(s_, ast.Expr) and isinstance(s_.value, ast.Constant))]
            a = fn.args
            if len(body) == 1 and isinstance(body[0], ast.Return) and body[0].value is not None and not fn.decorator_list and not (a.vararg or a.kwarg or a.posonlyargs) \
                    and not any(isinstance(x, ast.Starred) for x in e.args) and all(k.arg for k in e.keywords) and len(e.args) <= len(a.args):
                if self.depth > 12:
                    raise Undecided('constant folding recursion too deep')
                params = [p.arg for p in a.args] + [p.arg for p in a.kwonlyargs]
                env: T.Dict[str, T.Any] = {}
                for p, v in zip(params, e.args):
                    env[p] = self.fold(v)
                for k in e.keywords:
                    if k.arg in env or k.arg not in params:
                        raise Undecided(f'cannot fold call {norm(e)}: argument {k.arg}')
                    env[k.arg] = self.fold(k.value)          # type: ignore[index]
                defaults = dict(zip([p.arg for p in a.args][len(a.args) - len(a.defaults):], a.defaults))
                defaults.update({p.arg: d for p, d in zip(a.kwonlyargs, a.kw_defaults) if d is not None})
                for p in params:
                    if p not in env:
                        if p not in defaults:
                            raise Undecided(f'cannot fold call {norm(e)}: parameter {p} unbound')
                        env[p] = BFolder(self.repo, self.mod, None, None, self.depth + 1).fold(defaults[p])
                return BFolder(self.repo, self.mod, None, env, self.depth + 1).fold(body[0].value)
        return super().f_Call(e)


def fold_expr(repo: T.Any, mod: T.Any, e: ast.AST, cls: T.Optional[str] = None, env: T.Optional[T.Dict[str, T.Any]] = None) -> T.Any:
    """Drop-in for sa.consteval.fold_expr that also reads tables built by one-expression builder functions."""
    return BFolder(repo, mod, mod.cls(cls) if cls else None, env).fold(e)
