"""Symbolic file-name terms for C09 (helper of sa/rules/c09.py).

A path expression is folded, without executing anything, into a small term algebra

    ('const', 'text')                 a string literal
    ('join', (t1, ..., tn))           os.path.join / pathlib '/' / Path(a, b)   (flattened, constants split on '/')
    ('cat', base, suffix)             base + suffix, f-strings
    ('opaque', 'text')                anything else (a parameter, an attribute, an unknown call)

through local assignments (flow-insensitive: every definition of a local counts), module constants, and
*repository callees*: a call is resolved to its definition (same module, `module.func` through the import table,
`self.meth` through the MRO, `param.meth` through the parameter's annotation) and replaced by the terms of its
`return` expressions with the arguments bound to the parameters.  The result is a *set* of terms.

`basename(term)` / `dirname(term)` are defined only where the constant structure decides them.

Family policy: this is a def-use / value-flow summary (DESIGN E4), not an interpreter - all definitions of a name are
unioned regardless of order, no statement sequence, loop or branch is evaluated, parameters stay opaque leaves unless a
call site's argument expression is substituted; only constant string structure is folded (policy item (a)).
"""
from __future__ import annotations

import ast
import typing as T

from ..core import Module, Repo, FuncNode, attr_chain, norm, walk_no_nested

Term = T.Tuple[T.Any, ...]
Terms = T.FrozenSet[Term]

IDENTITY_CALLS = {'os.path.abspath', 'os.path.normpath', 'os.path.realpath', 'os.fspath', 'os.path.expanduser', 'str',
                  'os.fsdecode', 'os.path.normcase'}
PATH_CTORS = {'Path', 'PurePath', 'pathlib.Path', 'pathlib.PurePath', 'PosixPath', 'PurePosixPath'}
MAX_TERMS = 12


def const(s: str) -> Term:
    return ('const', s)


def opaque(s: str) -> Term:
    return ('opaque', s)


def mk_join(parts: T.Sequence[Term]) -> Term:
    flat: T.List[Term] = []
    for p in parts:
        if p[0] == 'join':
            flat.extend(p[1])
        elif p[0] == 'const':
            segs = [s for s in p[1].split('/')]
            if p[1].startswith('/'):
                flat = []          # an absolute component restarts the path
                segs = ['/'] + [s for s in segs if s]
            flat.extend(const(s) for s in segs if s)
        else:
            flat.append(p)
    if len(flat) == 1:
        return flat[0]
    return ('join', tuple(flat))


def mk_cat(a: Term, b: Term) -> Term:
    if a[0] == 'const' and b[0] == 'const':
        return const(a[1] + b[1])
    if a[0] == 'const' and a[1] == '':
        return b
    if b[0] == 'const' and b[1] == '':
        return a
    return ('cat', a, b)


def basename(t: Term) -> T.Optional[str]:
    if t[0] == 'const':
        return t[1].rsplit('/', 1)[-1]
    if t[0] == 'join':
        return basename(t[1][-1]) if t[1] else None
    if t[0] == 'cat':
        a, b = t[1], t[2]
        if b[0] == 'const':
            if '/' in b[1]:
                return b[1].rsplit('/', 1)[-1]
            ba = basename(a)
            return None if ba is None else ba + b[1]
        return None
    return None


def dirname(t: Term) -> T.Optional[Term]:
    """The directory part as a term, or None when the structure does not decide it."""
    if t[0] == 'join':
        last = t[1][-1]
        if last[0] == 'const':
            return mk_join(t[1][:-1]) if len(t[1]) > 1 else const('')
        if last[0] == 'cat':
            d = dirname(last)
            if d is not None and d == const(''):
                return mk_join(t[1][:-1])
        return None
    if t[0] == 'const':
        return const(t[1].rsplit('/', 1)[0] if '/' in t[1] else '')
    if t[0] == 'cat':
        a, b = t[1], t[2]
        if b[0] == 'const' and '/' not in b[1]:
            if a[0] == 'opaque':
                return ('dirof', a)
            return dirname(a)
        return None
    if t[0] == 'opaque':
        return ('dirof', t)
    return None


def consts_in(t: Term) -> T.Iterator[str]:
    if t[0] == 'const':
        yield t[1]
    elif t[0] == 'join':
        for p in t[1]:
            yield from consts_in(p)
    elif t[0] == 'cat':
        yield from consts_in(t[1])
        yield from consts_in(t[2])


def show(t: Term) -> str:
    if t[0] == 'const':
        return repr(t[1])
    if t[0] == 'join':
        return 'join(' + ', '.join(show(p) for p in t[1]) + ')'
    if t[0] == 'cat':
        return show(t[1]) + ' + ' + show(t[2])
    if t[0] == 'dirof':
        return 'dir(' + show(t[1]) + ')'
    return '<' + str(t[1]) + '>'


def show_all(ts: T.Iterable[Term]) -> str:
    return ' | '.join(sorted(show(t) for t in ts))


def _display_elements(it: ast.AST) -> T.Optional[T.List[T.Optional[ast.AST]]]:
    """Elements of `[a, b] + f(...)`-like iterables: the spelled-out ones, None for the rest; None if nothing is spelled out."""
    if isinstance(it, (ast.List, ast.Tuple)):
        out0: T.List[T.Optional[ast.AST]] = []
        for e in it.elts:
            if isinstance(e, ast.Starred):
                inner = _display_elements(e.value)
                out0 += inner if inner is not None else [None]
            else:
                out0.append(e)
        return out0
    if isinstance(it, ast.Call) and (attr_chain(it.func) or '').split('.')[-1] in ('chain', 'list', 'tuple', 'sorted', 'iter', 'reversed') and it.args:
        parts = [_display_elements(a) for a in it.args if not isinstance(a, ast.Starred)]
        if all(p is None for p in parts):
            return None
        out: T.List[T.Optional[ast.AST]] = []
        for p in parts:
            out += p if p is not None else [None]
        return out
    if isinstance(it, ast.BinOp) and isinstance(it.op, ast.Add):
        l, r = _display_elements(it.left), _display_elements(it.right)
        if l is None and r is None:
            return None
        return (l if l is not None else [None]) + (r if r is not None else [None])
    return None


class FuncRef(T.NamedTuple):
    mod: Module
    qn: str

    @property
    def node(self) -> FuncNode:
        return self.mod.func(self.qn)

    def __repr__(self) -> str:
        return f'{self.mod.rel}:{self.qn}'


def params_of(fn: FuncNode) -> T.List[str]:
    return [a.arg for a in fn.args.posonlyargs + fn.args.args]


class PathSym:
    def __init__(self, repo: Repo):
        self.repo = repo
        self._defs: T.Dict[int, T.Dict[str, T.List[T.Optional[ast.AST]]]] = {}
        self._reexp: T.Dict[T.Tuple[str, str], T.Optional[FuncRef]] = {}
        self._imp: T.Dict[str, T.Dict[str, str]] = {}
        self._cls: T.Dict[T.Tuple[str, str], T.Optional[T.Tuple[Module, ast.ClassDef]]] = {}
        self._mro: T.Dict[T.Tuple[str, str, int], T.List[T.Tuple[Module, ast.ClassDef]]] = {}
        self._meth: T.Dict[T.Tuple[str, str, int, str], T.Optional[FuncRef]] = {}
        self._callee: T.Dict[T.Tuple[str, str, int], T.Optional[FuncRef]] = {}

    def resolve_class(self, mod: Module, name: str) -> T.Optional[T.Tuple[Module, ast.ClassDef]]:
        """Same contract as Repo.resolve_class, on cached import tables (the engine re-walks the module per query)."""
        key = (mod.rel, name)
        if key in self._cls:
            return self._cls[key]
        self._cls[key] = None
        r: T.Optional[T.Tuple[Module, ast.ClassDef]] = None
        m, n = mod, name
        for _ in range(8):
            if not n:
                break
            if m.has_cls(n):
                r = (m, m.cls(n))
                break
            head, _, tail = n.partition('.')
            imps = self._imports(m)
            if head not in imps:
                # `from x import *` re-exports
                r = self._class_via_star(m, n, 0)
                break
            origin = imps[head] + ('.' + tail if tail else '')
            if not origin.startswith('mesonbuild'):
                break
            parts = origin.split('.')
            nxt = None
            for i in range(len(parts) - 1, 0, -1):
                m2 = self.repo.module_by_dotted('.'.join(parts[:i]))
                if m2 is not None:
                    rest = '.'.join(parts[i:])
                    if not (m2 is m and rest == n):
                        nxt = (m2, rest)
                    break
            if nxt is None:
                break
            m, n = nxt
        self._cls[key] = r
        return r

    def _class_via_star(self, m: Module, name: str, depth: int) -> T.Optional[T.Tuple[Module, ast.ClassDef]]:
        if depth > 3 or '.' in name:
            return None
        for dotted in self._star_imports(m):
            m2 = self.repo.module_by_dotted(dotted)
            if m2 is None:
                continue
            if m2.has_cls(name):
                return m2, m2.cls(name)
            imps = self._imports(m2)
            if name in imps and imps[name].startswith('mesonbuild'):
                return self.resolve_class(m2, name)
            r = self._class_via_star(m2, name, depth + 1)
            if r is not None:
                return r
        return None

    def _star_imports(self, m: Module) -> T.List[str]:
        out = []
        pkg = m.rel[:-3].replace('/', '.').split('.')
        base = pkg[:-1]
        for st in m.tree.body:
            if isinstance(st, ast.ImportFrom) and any(a.name == '*' for a in st.names):
                if st.level:
                    b = base[:len(base) - (st.level - 1)]
                    dotted = '.'.join(b + ([st.module] if st.module else []))
                else:
                    dotted = st.module or ''
                if dotted.startswith('mesonbuild'):
                    out.append(dotted)
        return out

    def mro(self, mod: Module, cls: ast.ClassDef) -> T.List[T.Tuple[Module, ast.ClassDef]]:
        key = (mod.rel, cls.name, cls.lineno)
        got = self._mro.get(key)
        if got is not None:
            return got
        out: T.List[T.Tuple[Module, ast.ClassDef]] = []

        def rec(m: Module, c: ast.ClassDef, depth: int) -> None:
            if depth > 12 or any(c is x[1] for x in out):
                return
            out.append((m, c))
            for b in c.bases:
                n = attr_chain(b.value if isinstance(b, ast.Subscript) else b)
                if n:
                    r = self.resolve_class(m, n)
                    if r is not None:
                        rec(r[0], r[1], depth + 1)
        rec(mod, cls, 0)
        self._mro[key] = out
        return out

    def _imports(self, mod: Module) -> T.Dict[str, str]:
        d = self._imp.get(mod.rel)
        if d is None:
            d = mod.imports()
            self._imp[mod.rel] = d
        return d

    # -- local definitions ------------------------------------------------
    def local_defs(self, fn: FuncNode) -> T.Dict[str, T.List[T.Optional[ast.AST]]]:
        """name -> value expressions (None = a binding whose value is not an expression we fold)."""
        d = self._defs.get(id(fn))
        if d is not None:
            return d
        d = {}

        def bind(t: ast.AST, v: T.Optional[ast.AST]) -> None:
            if isinstance(t, ast.Name):
                d.setdefault(t.id, []).append(v)
            elif isinstance(t, ast.Attribute) and isinstance(t.value, ast.Name) and t.value.id == 'self':
                d.setdefault('self.' + t.attr, []).append(v)      # attribute of self assigned in this function
            elif isinstance(t, (ast.Tuple, ast.List)):
                if isinstance(v, (ast.Tuple, ast.List)) and len(v.elts) == len(t.elts):
                    for a, b in zip(t.elts, v.elts):
                        bind(a, b)
                else:
                    for a in t.elts:
                        bind(a, None)
            elif isinstance(t, ast.Starred):
                bind(t.value, None)
        loops: T.List[T.Union[ast.For, ast.AsyncFor]] = []
        for n in walk_no_nested(fn):
            if isinstance(n, ast.Assign):
                for t in n.targets:
                    bind(t, n.value)
            elif isinstance(n, ast.AnnAssign) and n.value is not None:
                bind(n.target, n.value)
            elif isinstance(n, ast.AugAssign):
                if isinstance(n.target, ast.Name):
                    bind(n.target, ast.BinOp(left=ast.Name(id=n.target.id, ctx=ast.Load()), op=n.op, right=n.value))
            elif isinstance(n, (ast.For, ast.AsyncFor)):
                loops.append(n)
            elif isinstance(n, ast.comprehension):
                bind(n.target, None)
            elif isinstance(n, (ast.With, ast.AsyncWith)):
                for i in n.items:
                    if i.optional_vars is not None:
                        bind(i.optional_vars, None)
            elif isinstance(n, ast.NamedExpr):
                bind(n.target, n.value)
            elif isinstance(n, ast.ExceptHandler) and n.name:
                d.setdefault(n.name, []).append(None)
        for lp in loops:
            it: ast.AST = lp.iter
            if isinstance(it, ast.Name) and len(d.get(it.id, [])) == 1 and d[it.id][0] is not None:
                it = d[it.id][0]          # the iterable named first
            elems = _display_elements(it)
            if isinstance(lp.target, ast.Name) and elems is not None:
                for el in elems:
                    bind(lp.target, el)        # el is None for an element the display does not spell out
            else:
                bind(lp.target, None)
        self._defs[id(fn)] = d
        return d

    # -- callee resolution --------------------------------------------------
    def _class_of(self, ref: FuncRef) -> T.Optional[ast.ClassDef]:
        parts = ref.qn.split('.')
        for i in range(len(parts) - 1, 0, -1):
            q = '.'.join(parts[:i])
            if ref.mod.has_cls(q):
                return ref.mod.cls(q)
        return None

    def _method(self, mod: Module, cls: ast.ClassDef, name: str) -> T.Optional[FuncRef]:
        key = (mod.rel, cls.name, cls.lineno, name)
        if key in self._meth:
            return self._meth[key]
        found: T.Optional[FuncRef] = None
        for m2, c2 in self.mro(mod, cls):
            f2 = next((st for st in c2.body if isinstance(st, (ast.FunctionDef, ast.AsyncFunctionDef)) and st.name == name), None)
            if f2 is not None:
                for q, f in m2.funcs().items():
                    if f is f2:
                        found = FuncRef(m2, q)
                        break
                break
        self._meth[key] = found
        return found

    def _func_in(self, m2: T.Optional[Module], name: str, depth: int = 0) -> T.Optional[FuncRef]:
        """Module-level function `name` of m2, following `from x import name` / `from x import *` re-exports."""
        if m2 is None or depth > 4:
            return None
        if m2.has_func(name):
            return FuncRef(m2, name)
        key = (m2.rel, name)
        if key in self._reexp:
            return self._reexp[key]
        self._reexp[key] = None
        found: T.Optional[FuncRef] = None
        pkg = m2.rel[:-3].replace('/', '.').split('.')
        base = pkg[:-1] if pkg[-1] != '__init__' else pkg[:-1]
        for st in m2.tree.body:
            if isinstance(st, ast.ImportFrom) and any(a.name == '*' or (a.asname or a.name) == name for a in st.names):
                if st.level:
                    b = base[:len(base) - (st.level - 1)]
                    dotted = '.'.join(b + ([st.module] if st.module else []))
                else:
                    dotted = st.module or ''
                if not dotted.startswith('mesonbuild'):
                    continue
                real = name
                for a in st.names:
                    if (a.asname or a.name) == name:
                        real = a.name
                found = self._func_in(self.repo.module_by_dotted(dotted), real, depth + 1)
                if found is not None:
                    break
        self._reexp[key] = found
        return found

    def _module_func(self, mod: Module, dotted_head: str, name: str) -> T.Optional[FuncRef]:
        imps = self._imports(mod)
        head = dotted_head.split('.')[0]
        if head not in imps:
            return None
        origin = imps[head] + dotted_head[len(head):]
        if not origin.startswith('mesonbuild'):
            return None
        return self._func_in(self.repo.module_by_dotted(origin), name)

    def resolve_callee(self, ref: FuncRef, call: ast.Call) -> T.Optional[FuncRef]:
        mod = ref.mod
        f = call.func
        if isinstance(f, ast.Name):
            # nested function of an enclosing scope, then module level, then `from x import f`
            parts = ref.qn.split('.')
            for i in range(len(parts), 0, -1):
                q = '.'.join(parts[:i]) + '.' + f.id
                if mod.has_func(q) and not mod.has_cls('.'.join(parts[:i])):
                    return FuncRef(mod, q)
            if mod.has_func(f.id):
                return FuncRef(mod, f.id)
            imps = self._imports(mod)
            if f.id in imps:
                origin = imps[f.id]
                if not origin.startswith('mesonbuild'):
                    return None
                mname, _, fname = origin.rpartition('.')
                return self._func_in(self.repo.module_by_dotted(mname), fname)
            return None
        if isinstance(f, ast.Attribute):
            base = attr_chain(f.value)
            if base is None:
                return None
            if base in ('self', 'cls'):
                c = self._class_of(ref)
                return self._method(mod, c, f.attr) if c is not None else None
            # module.func
            r = self._module_func(mod, base, f.attr)
            if r is not None:
                return r
            # local bound once to an instance of a repository class: cfg = CmdLineFileParser(); cfg.m()
            if '.' not in base:
                d = self.local_defs(ref.node).get(base, [])
                if len(d) == 1 and isinstance(d[0], ast.Call):
                    cn0 = attr_chain(d[0].func)
                    rc0 = self.resolve_class(mod, cn0) if cn0 else None
                    if rc0 is not None:
                        m0 = self._method(rc0[0], rc0[1], f.attr)
                        if m0 is not None:
                            return m0
            # annotated parameter
            if '.' not in base:
                fn = ref.node
                for a in fn.args.posonlyargs + fn.args.args + fn.args.kwonlyargs:
                    if a.arg == base and a.annotation is not None:
                        ann = a.annotation
                        if isinstance(ann, ast.Constant) and isinstance(ann.value, str):
                            try:
                                ann = ast.parse(ann.value, mode='eval').body
                            except SyntaxError:
                                return None
                        cn = attr_chain(ann)
                        if cn:
                            rc = self.resolve_class(mod, cn)
                            if rc is not None:
                                return self._method(rc[0], rc[1], f.attr)
        return None

    def bind_args(self, callee: FuncRef, call: ast.Call, caller: FuncRef, env: T.Dict[str, Terms], depth: int,
                  busy: T.FrozenSet[str]) -> T.Dict[str, Terms]:
        fn = callee.node
        ps = params_of(fn)
        if ps and ps[0] in ('self', 'cls') and isinstance(call.func, ast.Attribute) and self._class_of(callee) is not None:
            ps = ps[1:]
        out: T.Dict[str, Terms] = {}
        for p, a in zip(ps, call.args):
            if isinstance(a, ast.Starred):
                break
            out[p] = self.resolve(caller, a, env, depth, busy)
        names = set(params_of(fn)) | {a.arg for a in fn.args.kwonlyargs}
        for k in call.keywords:
            if k.arg and k.arg in names:
                out[k.arg] = self.resolve(caller, k.value, env, depth, busy)
        return out

    def returns(self, callee: FuncRef, env: T.Dict[str, Terms], depth: int) -> Terms:
        out: T.Set[Term] = set()
        fn = callee.node
        for n in walk_no_nested(fn):
            if isinstance(n, ast.Return) and n.value is not None:
                out |= self.resolve(callee, n.value, env, depth, frozenset())
        return frozenset(out)

    # -- folding ------------------------------------------------------------
    def resolve(self, ref: FuncRef, e: ast.AST, env: T.Optional[T.Dict[str, Terms]] = None, depth: int = 3,
                busy: T.FrozenSet[str] = frozenset()) -> Terms:
        env = env or {}
        out = self._res(ref, e, env, depth, busy)
        if len(out) > MAX_TERMS:
            return frozenset([opaque('many:' + norm(e)[:60])])
        return out

    @staticmethod
    def _cat_all(p: T.List[Term]) -> Term:
        acc = const('')
        for x in p:
            acc = mk_cat(acc, x)
        return acc

    def _product(self, sets: T.List[Terms], build: T.Callable[[T.List[Term]], Term]) -> Terms:
        import itertools
        n = 1
        for s in sets:
            n *= max(len(s), 1)
        if n > MAX_TERMS * 4:
            return frozenset([opaque('many')])
        return frozenset(build(list(c)) for c in itertools.product(*sets))

    def _res(self, ref: FuncRef, e: ast.AST, env: T.Dict[str, Terms], depth: int, busy: T.FrozenSet[str]) -> Terms:
        if isinstance(e, ast.Constant):
            if isinstance(e.value, str):
                return frozenset([const(e.value)])
            if e.value is None:
                return frozenset()      # `x = None` placeholder: not a file name
            return frozenset([opaque(repr(e.value))])
        if isinstance(e, ast.Name):
            return self._name(ref, e.id, env, depth, busy)
        if isinstance(e, ast.Attribute):
            c = attr_chain(e)
            if c is not None:
                # Class.CONST / module.CONST
                head, _, last = c.rpartition('.')
                rc = self.resolve_class(ref.mod, head) if head not in ('self', 'cls') else None
                if rc is not None and rc[0].has_assign(last, rc[1]):
                    v = rc[0].assign_value(last, rc[1])
                    if isinstance(v, ast.Constant) and isinstance(v.value, str):
                        return frozenset([const(v.value)])
                # self.x assigned in this very function: the values it is given here (flow-insensitive, like a local)
                if head == 'self' and ('attr:' + c) not in busy:
                    adefs = self.local_defs(ref.node).get(c, [])
                    if adefs and all(v is not None for v in adefs):
                        acc: T.Set[Term] = set()
                        for v in adefs:
                            acc |= self._res(ref, v, env, depth, busy | {'attr:' + c})     # type: ignore[arg-type]
                        if acc:
                            return frozenset(acc)
                return frozenset([opaque(c)])
            return frozenset([opaque(norm(e))])
        if isinstance(e, ast.BinOp) and isinstance(e.op, ast.Add):
            return self._product([self._res(ref, e.left, env, depth, busy), self._res(ref, e.right, env, depth, busy)],
                                 lambda p: mk_cat(p[0], p[1]))
        if isinstance(e, ast.BinOp) and isinstance(e.op, ast.Mod) and isinstance(e.left, ast.Constant) and isinstance(e.left.value, str):
            # '%s~' % x  /  '%s/%s' % (a, b): the same text template as an f-string
            fmt = e.left.value
            args = list(e.right.elts) if isinstance(e.right, ast.Tuple) else [e.right]
            pieces = fmt.split('%s')
            if len(pieces) == len(args) + 1 and '%' not in ''.join(pieces):
                sets: T.List[Terms] = []
                for i, piece in enumerate(pieces):
                    sets.append(frozenset([const(piece)]))
                    if i < len(args):
                        sets.append(self._res(ref, args[i], env, depth, busy))
                return self._product(sets, self._cat_all)
            return frozenset([opaque(norm(e))])
        if isinstance(e, ast.Call) and isinstance(e.func, ast.Attribute) and e.func.attr == 'format' and isinstance(e.func.value, ast.Constant) \
                and isinstance(e.func.value.value, str) and not e.keywords:
            fmt = e.func.value.value
            pieces = fmt.split('{}')
            if len(pieces) == len(e.args) + 1 and '{' not in ''.join(pieces):
                sets = []
                for i, piece in enumerate(pieces):
                    sets.append(frozenset([const(piece)]))
                    if i < len(e.args):
                        sets.append(self._res(ref, e.args[i], env, depth, busy))
                return self._product(sets, self._cat_all)
            return frozenset([opaque(norm(e))])
        if isinstance(e, ast.Call) and isinstance(e.func, ast.Attribute) and e.func.attr == 'join' and isinstance(e.func.value, ast.Constant) \
                and isinstance(e.func.value.value, str) and len(e.args) == 1 and isinstance(e.args[0], (ast.List, ast.Tuple)):
            sep = e.func.value.value
            elts = e.args[0].elts
            if sep in ('', '/') and not any(isinstance(x, ast.Starred) for x in elts):
                parts_sets = [self._res(ref, x, env, depth, busy) for x in elts]
                return self._product(parts_sets, self._cat_all if sep == '' else mk_join)
            return frozenset([opaque(norm(e))])
        if isinstance(e, ast.BinOp) and isinstance(e.op, ast.Div):
            return self._product([self._res(ref, e.left, env, depth, busy), self._res(ref, e.right, env, depth, busy)], mk_join)
        if isinstance(e, ast.JoinedStr):
            parts: T.List[Terms] = []
            for v in e.values:
                if isinstance(v, ast.FormattedValue):
                    if v.format_spec is not None or v.conversion not in (-1, 115):
                        parts.append(frozenset([opaque(norm(v))]))
                    else:
                        parts.append(self._res(ref, v.value, env, depth, busy))
                else:
                    parts.append(self._res(ref, v, env, depth, busy))

            def cat_all(p: T.List[Term]) -> Term:
                acc = const('')
                for x in p:
                    acc = mk_cat(acc, x)
                return acc
            return self._product(parts, cat_all) if parts else frozenset([const('')])
        if isinstance(e, ast.NamedExpr):
            return self._res(ref, e.value, env, depth, busy)
        if isinstance(e, ast.IfExp):
            return self._res(ref, e.body, env, depth, busy) | self._res(ref, e.orelse, env, depth, busy)
        if isinstance(e, ast.Call):
            cn = attr_chain(e.func)
            if cn in ('os.path.join', 'posixpath.join', 'ntpath.join') or (cn in PATH_CTORS and e.args):
                if any(isinstance(a, ast.Starred) for a in e.args):
                    return frozenset([opaque(norm(e))])
                return self._product([self._res(ref, a, env, depth, busy) for a in e.args], mk_join)
            if cn in IDENTITY_CALLS and len(e.args) == 1:
                return self._res(ref, e.args[0], env, depth, busy)
            if isinstance(e.func, ast.Attribute) and e.func.attr in ('resolve', 'absolute', 'as_posix', 'expanduser') and not e.args:
                return self._res(ref, e.func.value, env, depth, busy)
            if isinstance(e.func, ast.Attribute) and e.func.attr in ('with_suffix', 'with_name') and len(e.args) == 1:
                return frozenset([opaque(norm(e))])
            if depth > 0:
                callee = self.resolve_callee(ref, e)
                if callee is not None:
                    key = f'{callee.mod.rel}:{callee.qn}'
                    if key not in busy:
                        env2 = self.bind_args(callee, e, ref, env, depth - 1, busy)
                        r = self.returns(callee, env2, depth - 1)
                        if r:
                            return r
            return frozenset([opaque(norm(e))])
        return frozenset([opaque(norm(e))])

    def _name(self, ref: FuncRef, name: str, env: T.Dict[str, Terms], depth: int, busy: T.FrozenSet[str]) -> Terms:
        tag = f'{ref.mod.rel}:{ref.qn}:{name}'
        if tag in busy:
            return frozenset([opaque('rec:' + name)])
        busy = busy | {tag}
        fn = ref.node
        defs = self.local_defs(fn).get(name, [])
        out: T.Set[Term] = set()
        allp = set(params_of(fn)) | {a.arg for a in fn.args.kwonlyargs}
        if name in allp:
            out |= env.get(name, frozenset([opaque('param:' + name)]))
        for v in defs:
            if v is None:
                out.add(opaque('bound:' + name))
            else:
                out |= self._res(ref, v, env, depth, busy)
        if not defs and name not in allp:
            # enclosing function scopes, then module level
            parts = ref.qn.split('.')
            for i in range(len(parts) - 1, 0, -1):
                q = '.'.join(parts[:i])
                if ref.mod.has_func(q):
                    outer = FuncRef(ref.mod, q)
                    if name in self.local_defs(outer.node) or name in params_of(outer.node):
                        return self._name(outer, name, {}, depth, busy)
            if ref.mod.has_assign(name):
                v = ref.mod.assign_value(name)
                return self._res(FuncRef(ref.mod, ref.qn), v, {}, 0, busy) if isinstance(v, (ast.Constant, ast.JoinedStr, ast.BinOp, ast.Call)) \
                    else frozenset([opaque('global:' + name)])
            return frozenset([opaque('name:' + name)])
        return frozenset(out)
