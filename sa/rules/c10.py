"""C10 - dependency fallback policy and verified wrap sources (DESIGN section 2, C10; data sheet A.11)."""
from __future__ import annotations

import ast
import copy
import typing as T

from ..core import Undecided, norm, short, attr_chain, call_name, call_method, calls_in, walk_no_nested, kwarg, decorator_names, Module
from ..report import Rule, RuleCtx
from ..cfg import CFG, Node
from ..flow import Flow
from .. import tables
from ..tables import Atom
from . import c10_sym as S
from .c10_sym import SymRow, symtable, sympaths, decide

DF = 'mesonbuild/interpreter/dependencyfallbacks.py'
WRAP = 'mesonbuild/wrap/wrap.py'
H = 'DependencyFallbacksHolder'
R = 'Resolver'

EXPLANATION = (
    'Decides structural clauses of C10 on every path of the anchored functions (no lookup is executed). '
    'R1a: _get_candidates yields [cache per name, existing subproject, system per name, configure subproject] under the guards '
    'subproject_name / (not forcefallback or not subproject_name) / subproject_name, each candidate identified by what it calls. '
    'R1b: _do_subproject configures iff forcefallback or not nofallback and returns the subproject dependency; _do_dependency/_do_existing_subproject '
    'return a dependency only when found / configured. R1c: _get_cached_dep: override wins, disk cache ignored iff forcefallback and subproject_name, '
    'version mismatch -> None (disk) / not-found (override). R1d: on every path of the prologue of lookup() the last constant written to forcefallback (flag assignments are first rewritten to if/else of constant writes: or-chain, if/elif ladder and |= read alike) equals the OR of exactly {force_fallback argument, wrap_mode==forcefallback, '
    'any name in force_fallback_for, subproject in force_fallback_for} (+ provider in force_fallback_for), nofallback = wrap_mode==nofallback. '
    'R1e: implicit [provide] fallback adopted iff no explicit fallback, allow_fallback is not False, a provider exists and (forced or allow_fallback is True '
    'or required or already configured). R1f: candidate loop: found -> implicit override for every name not yet overridden, return; required and '
    '(not-found object or last) -> error; not-found object -> returned; only the last candidate is required. R1g: _get_subproject_dep: not configured -> None; '
    'override by any name wins; else variable (explicit or wrap [provide]); no variable / version mismatch -> not-found object, never None. '
    'R1b/R1c key agreement: every access of the override table / dependency cache in _do_dependency and _get_cached_dep whose key is a get_dep_identifier(..) call uses [self.for_machine] and (the name parameter, the kwargs parameter) - the same key R1f requires of the implicit override (another operand or machine index is a violation; a key that is no get_dep_identifier call stays Undecided). '
    'R2a: every path _get_file_internal returns is verified on that path by check_hash(what, path) or _download(what, path) (hash optional only without <what>_url). '
    'R2b: check_hash raises unless sha256(file) == <what>_hash. R2c: in _download os.rename(tmp, ofname) is reached only after digest == expected, with '
    'digest/tmp from one get_data call; mismatch removes tmp and raises; get_data hashes every block it writes. R2d: every unpack_archive in wrap.py takes '
    'its archive from _get_file_internal. R3: every network primitive reachable from Resolver.resolve() is reachable only after check_can_download() completed (a callee is entered with the flag parameters its call site binds to literal True/False/None - given or defaulted - so a guard under `if not fallback:` counts for the calls that pass False only; a guard inside `with contextlib.suppress(<class its exception is an instance of>)` or a try whose handler goes on is no guard). '
    'R5: a keyword argument that Interpreter.func_dependency reads again after lookup() returned (include_type, not_found_message) or that is rewritten in the dict the '
    'identifier is computed from (required) is on no path of get_dep_identifier put into the identifier. '
    'R6: a placeholder that Dependency.get_version() returns for a missing version never satisfies a constraint in DependencyFallbacksHolder._check_version, and '
    'ExternalDependency._check_version compares versions only when self.version is non-empty. '
    'R7: every read of a [provide] table (provided_deps, wrapdb_provided_deps) in Resolver uses a lower-cased key or a key of the table itself. '
    'R8: on every path of Interpreter.func_dependency that reaches lookup(), the value of the `fallback` keyword was handed to set_fallback() or is known to be None. '
    'R9: in Interpreter.do_subproject the call of the wrap resolver\'s resolve() has, for every exception class of wrap.py that wrap.py raises (closed world of the module, class hierarchy from its class statements), a handler that catches it, and every path of that handler on which the subproject is not required returns self.disabled_subproject(..) (so an optional lookup whose fallback cannot be resolved - hash mismatch, nodownload, failed patch - yields not-found). '
    'R1a/R1f also read candidates given as closures with the name bound (functools.partial(self.m, <name parameter>=X), the loop supplying the other two parameters by signature); R2d reads an archive path that is a parameter through every call site of the function in wrap.py (who-may-call; a function used as a value ends Undecided); local closures (def inside the function, only called) are expanded like helpers and an applied lambda is beta-reduced. '
    'R4: every step that writes the directory _resolve found absent from an archive - the unpack of the source archive (shutil.unpack_archive reached from _resolve, today in _get_file) and '
    'apply_patch/apply_diff_files - runs, on every call chain from _resolve, inside a try whose handlers catch Exception, remove self.dirname and re-raise (in the function of the step or in a caller on the chain); every return of _resolve is '
    'gated by has_buildfile(). NOT decided: outcomes of run-time lookups (system state, subproject configuration), the cross product of the policy table as behaviour, '
    'that sha256/urlopen behave as documented, KeyboardInterrupt during patching, how the text of a [provide] value is cut into names (per-item strip()/lower() in PackageDefinition.parse_provide_section is string processing on run-time values), '
    'that an override is found by a dependency() call that names another method/modules/components (these keywords are part of the identifier by upstream design; confirmed by probe, not armed), a guard of _get_cached_dep spelled with another attribute than the reference knows (ends Undecided), override_dependency() in interpreter/mesonmain.py (which static=/default_library variants of the identifier an override is registered under - seed C10-r7-2, if/elif over membership tests - is a value-level table of another module that no rule of this pack anchors), '
    'a failure of the other acquisition steps (_get_git/_get_hg/_get_svn run external programs, copy_tree copies from the extracted-package cache, all outside the cleanup try: what a failing clone/checkout leaves under self.dirname is behaviour of the external program, not readable from the source; the property lists fetch/verify/unpack/patch/diff of archives - printed as an information note by R4 with a confirmed wrap-git witness: a clone whose revision cannot be checked out is accepted by the next run; not armed), '
    'which exception class a failing unpack is reported as (tarfile.ReadError / zipfile.BadZipFile are no OSError: library knowledge), '
    '`meson subprojects update/packagefiles` (msubprojects.py re-applies patches outside the cleanup), a known call made with other operands than the reference reads (e.g. _get_cached_dep(self.names[0], ..) inside the loop over the names, get_varname() with swapped operands, find_dep_provider(self.names[0])): the atom is not recognised and the table rule ends Undecided, it is not reported as a violation.')
ASSUMPTIONS = ['Dependency objects are truthy; NotFoundDependency.found() is False',
               'hashlib.sha256 / os.rename / shutil.unpack_archive behave as documented',
               'git submodule update is exempt from nodownload (documented in check_can_download)',
               'loops over self.names are analysed with 0/1 iterations (the loop body is the unit)']
TECHNIQUE = ('decision tables by path enumeration over canonical atoms (locals named by their reaching definition on the path), worlds of the atoms vs a '
             'reference policy with symbolic comparison of outcomes/effects; CFG reachability/dominance incl. exception edges; interprocedural guard '
             '(must-pass) analysis over the Resolver call graph incl. constant dispatch tables; who-may-call; def-use origin flows.  Before paths are taken a private '
             'copy of each function is put into one spelling (extracted helpers expanded, call arguments bound by signature, text templates, De Morgan/'
             'bool returns, next()-search -> loop, membership/len/chained comparisons, `d.setdefault(k, v)` statement -> `if k not in d: d[k] = v`, `with contextlib.suppress(E): B` -> `try: B except E: pass`).  No repository code is interpreted on values.')


# The vocabulary the reference is written in: the operations of the two classes as the design read them.  A method that is
# not in it is a helper somebody extracted later; its calls are expanded in place (c10_sym.inline_helpers) before paths are taken.
VOCAB = {
    H: frozenset({'__init__', '_check_version', '_do_dependency', '_do_dependency_cache', '_do_existing_subproject', '_do_subproject',
                  '_get_cached_dep', '_get_candidates', '_get_subproject', '_get_subproject_dep', '_get_subproject_variable',
                  '_handle_featurenew_dependencies', '_log_found', '_notfound_dependency', '_subproject_impl', '_verify_fallback_consistency',
                  'lookup', 'set_fallback'}),
    R: frozenset({'__post_init__', '_download', '_get_file', '_get_file_internal', '_get_git', '_get_hg', '_get_svn', '_resolve', 'add_wrap',
                  'apply_diff_files', 'apply_patch', 'check_can_download', 'check_hash', 'copy_tree', 'find_dep_provider', 'find_program_provider',
                  'get_cargo_lock', 'get_data', 'get_data_with_backoff', 'get_directory', 'get_from_wrapdb', 'get_netrc_credentials', 'get_varname',
                  'hash_file', 'is_git_full_commit_id', 'load_and_merge', 'load_netrc', 'load_wrapdb', 'load_wraps', 'merge_wraps', 'resolve',
                  'resolve_git_submodule', 'validate'}),
}
_INLINED: T.Dict[T.Any, T.Tuple[T.Any, T.Any]] = {}


# module-level functions of the anchored modules as the design read them; any other module-level function is a helper
MODULE_VOCAB = {
    WRAP: frozenset({'patch_command', 'ssl_truststore', 'whitelist_wrapdb', 'open_wrapdburl', 'read_and_decompress', 'get_releases_data', 'get_releases',
                     'update_wrap_file', 'parse_patch_url', 'verbose_git'}),
    DF: frozenset(),
}


def _records(mod: Module, cls: str) -> T.Dict[str, T.List[str]]:
    """small record classes of the module: NamedTuple subclasses and dataclasses with up to four annotated fields and no methods"""
    out: T.Dict[str, T.List[str]] = {}
    for q, c in mod.classes().items():
        if '.' in q or q == cls:
            continue
        named = any((attr_chain(b) or '').split('.')[-1] == 'NamedTuple' for b in c.bases)
        data = any((attr_chain(d.func if isinstance(d, ast.Call) else d) or '').split('.')[-1] == 'dataclass' for d in c.decorator_list)
        fields = [st.target.id for st in c.body if isinstance(st, ast.AnnAssign) and isinstance(st.target, ast.Name)]
        if (named or data) and 1 <= len(fields) <= 4 and not any(isinstance(st, (ast.FunctionDef, ast.AsyncFunctionDef)) for st in c.body):
            out[q] = fields
    return out


def _constants(mod: Module, cls: str) -> T.Dict[str, ast.AST]:
    """module-level and class-level names bound exactly once to a string/number literal"""
    out: T.Dict[str, ast.AST] = {}
    seen: T.Dict[str, int] = {}
    for scope, prefix in ((mod.tree, ('',)), (mod.cls(cls), ('self.', cls + '.', 'cls.'))):
        for st in scope.body:  # type: ignore[attr-defined]
            tgts = st.targets if isinstance(st, ast.Assign) else [st.target] if isinstance(st, ast.AnnAssign) and st.value is not None else []
            for t in tgts:
                if isinstance(t, ast.Name):
                    for pre in prefix:
                        seen[pre + t.id] = seen.get(pre + t.id, 0) + 1
                        if isinstance(st.value, ast.Constant) and isinstance(st.value.value, (str, int)) and not isinstance(st.value.value, bool):  # type: ignore[union-attr]
                            out[pre + t.id] = st.value  # type: ignore[union-attr,assignment]
    return {k: v for k, v in out.items() if seen.get(k) == 1}


def _fn(mod: Module, qn: str) -> T.Any:
    """the function `Cls.name`, with calls of extracted helpers of Cls expanded"""
    fn = mod.func(qn)
    cls = qn.split('.')[0]
    if cls not in VOCAB or qn.count('.') != 1:
        return fn
    key = (id(mod), qn)
    if key not in _INLINED:
        if len(_INLINED) > 200:
            _INLINED.clear()
        repo = getattr(mod, 'repo', None)
        if repo is not None:      # get_dep_identifier(name=.., kwargs=..) is read like the positional call: parameter names from its definition
            dm = repo.module(DETECT)
            if dm.has_func('get_dep_identifier'):
                a = dm.func('get_dep_identifier').args
                S.EXTERNAL_PARAMS['get_dep_identifier'] = [x.arg for x in a.posonlyargs + a.args]
        meths = mod.methods(cls)
        helpers = {q: f for q, f in mod.funcs().items() if '.' not in q and q not in MODULE_VOCAB.get(mod.rel, frozenset())}
        # local closures (`def f(..)` as a statement of the function, used in call position only): late binding makes the call read like
        # the body written in place, so they are expanded like module-level helpers (round 13)
        callpos = {id(c.func) for c in ast.walk(fn) if isinstance(c, ast.Call)}
        for st in fn.body:
            if isinstance(st, ast.FunctionDef) and not st.decorator_list and st.name not in helpers \
                    and sum(1 for n in ast.walk(fn) if isinstance(n, (ast.FunctionDef, ast.AsyncFunctionDef, ast.ClassDef)) and n.name == st.name) == 1 \
                    and not any(isinstance(n, ast.Name) and n.id == st.name and (id(n) not in callpos or isinstance(n.ctx, ast.Store)) for n in ast.walk(fn)) \
                    and not any(isinstance(n, ast.Call) and isinstance(n.func, ast.Name) and n.func.id == st.name for n in ast.walk(st)):
                helpers = dict(helpers)
                helpers[st.name] = st
        new = S.inline_helpers(fn, meths, VOCAB[cls], modfuncs=helpers)          # (always a private copy)
        _INLINED[key] = (mod, S.canonicalise(new, meths, cls, _constants(mod, cls), _records(mod, cls)))
    return _INLINED[key][1]


def _opaque(sp: T.Any, cls: str) -> T.List[str]:
    """calls on the path into helpers of the class that are neither part of the vocabulary nor could be expanded: what they do is not seen"""
    return sorted({short(o, 60) for o, _, _ in sp.calls() if S.self_method_called(o) and S.self_method_called(o) not in VOCAB[cls]})


def _truth(s: str) -> Atom:
    return Atom('truth', (s,))


def _parse(s: str) -> ast.AST:
    return ast.parse(s, mode='eval').body


def _label_atoms(tab: tables.Table, classify: T.Callable[[Atom, ast.AST], T.Optional[str]]) -> T.Dict[Atom, str]:
    sem: T.Dict[Atom, str] = {}
    for a in tab.atoms():
        try:
            e = _parse(a.args[0]) if a.kind in ('truth', 'is', 'in', 'isinstance') else _parse(a.args[1])
        except SyntaxError:
            continue
        lab = classify(a, e)
        if lab:
            sem[a] = lab
    return sem


# ---------------------------------------------------------------------------------------------
# R1a  candidate order and guards

def _candidate_kinds(mod: Module) -> T.Dict[str, str]:
    """method name -> what kind of candidate it is, decided by what the method calls."""
    for anchor in ('_get_cached_dep', '_get_subproject_dep'):
        mod.func(f'{H}.{anchor}')
    out: T.Dict[str, str] = {}
    for name in mod.methods(H):
        called = {call_method(c) for c in calls_in(_fn(mod, f'{H}.{name}'))}
        if 'do_subproject' in called:
            out[name] = 'configure'
        elif 'find_external_dependency' in called:
            out[name] = 'system'
        elif '_get_subproject_dep' in called:
            out[name] = 'existing'
        elif '_get_cached_dep' in called:
            out[name] = 'cache'
    return out


def _cand_params(mod: Module, m: str) -> T.List[str]:
    """parameters of the candidate method `self.<m>` after the receiver (reference signature: kwargs, name, subproject kwargs)"""
    if not (m.startswith('self.') and mod.has_func(f'{H}.{m[5:]}')):
        raise Undecided(f'_get_candidates: bound function {m} is not a method of {H}')
    a = mod.func(f'{H}.{m[5:]}').args
    if a.vararg or a.kwarg or a.kwonlyargs or a.posonlyargs or len(a.args) != 4:
        raise Undecided(f'_get_candidates: {m} does not have the signature (kwargs, name, subproject kwargs)')
    return [x.arg for x in a.args[1:]]


def _closure_pair(mod: Module, e: ast.AST) -> T.Optional[ast.AST]:
    """a candidate given as a closure with its name bound, `functools.partial(self.m, <name parameter of m>=X)`, read as the pair (self.m, X);
    None when `e` is no partial application; a partial that binds anything else than exactly the name parameter is not read"""
    if not (isinstance(e, ast.Call) and (call_name(e) or '') in ('functools.partial', 'partial')):
        return None
    if len(e.args) != 1 or len(e.keywords) != 1 or e.keywords[0].arg is None:
        raise Undecided(f'_get_candidates: {short(e)} does not bind exactly the name parameter by keyword')
    params = _cand_params(mod, attr_chain(e.args[0]) or '?')
    if e.keywords[0].arg != params[1]:
        raise Undecided(f'_get_candidates: {short(e)} binds {e.keywords[0].arg!r}, the name parameter is {params[1]!r}')
    return ast.Tuple(elts=[e.args[0], e.keywords[0].value], ctx=ast.Load())


def _closure_candidates(mod: Module) -> T.Optional[T.List[T.List[str]]]:
    """None when _get_candidates builds (function, name) pairs; when every candidate is a closure with the name bound: the parameter lists
    of the bound methods (the candidate loop then calls the closure with the remaining two)"""
    fn = _fn(mod, f'{H}._get_candidates')
    parts = [c for c in calls_in(fn, nested=True) if (call_name(c) or '') in ('functools.partial', 'partial')]
    if not parts:
        return None
    kinds = _candidate_kinds(mod)
    pairs = [t for t in ast.walk(fn) if isinstance(t, ast.Tuple) and len(t.elts) == 2 and (attr_chain(t.elts[0]) or '')[5:] in kinds]
    if pairs:
        raise Undecided('_get_candidates: some candidates are (function, name) pairs and some are partial applications')
    out = []
    for c in parts:
        _closure_pair(mod, c)
        out.append(_cand_params(mod, attr_chain(c.args[0]) or '?'))
    return out


def r1a(ctx: RuleCtx) -> None:
    mod = ctx.repo.module(DF)
    kinds = _candidate_kinds(mod)
    fn = _fn(mod, f'{H}._get_candidates')
    tab = symtable(fn, '_get_candidates')
    sem = {_truth('self.subproject_name'): 'subp', _truth('self.forcefallback'): 'force'}
    used: T.Set[str] = set()

    def one(pair: ast.AST, var: T.Optional[str]) -> T.Tuple[str, str]:
        pair = _closure_pair(mod, pair) or pair
        if not (isinstance(pair, ast.Tuple) and len(pair.elts) == 2):
            raise Undecided(f'_get_candidates: candidate is not a (function, name) pair: {short(pair)}')
        m = attr_chain(pair.elts[0]) or ''
        kind = kinds.get(m[5:]) if m.startswith('self.') else None
        if kind is None:
            m2 = attr_chain(pair.elts[1]) or ''
            if m2.startswith('self.') and kinds.get(m2[5:]):
                return (f'{m} where the function belongs', f'{kinds[m2[5:]]} function where the name belongs')
            raise Undecided(f'_get_candidates: cannot classify candidate function {m}')
        used.add(kind)
        a = norm(pair.elts[1])
        if var is not None and a == var:
            a = 'each(self.names)'
        return (kind, {'each(self.names)': 'each name', 'self.subproject_name': 'subproject'}.get(a, a))

    def items(e: ast.AST, lst: str, cur: T.List[T.Any]) -> T.List[T.Any]:
        """the candidates a list-valued expression denotes, in order; the name `lst` inside it stands for what the list holds so far"""
        if isinstance(e, ast.Name) and e.id == lst:
            return list(cur)
        if isinstance(e, (ast.List, ast.Tuple)):
            out: T.List[T.Any] = []
            for x in e.elts:
                out.extend(items(x.value, lst, cur) if isinstance(x, ast.Starred) else [one(x, None)])
            return out
        if isinstance(e, (ast.ListComp, ast.GeneratorExp)) and len(e.generators) == 1 and not e.generators[0].ifs \
                and isinstance(e.generators[0].target, ast.Name):
            it = norm(e.generators[0].iter)
            k, a = one(e.elt, e.generators[0].target.id)
            return [(k, a if it == 'self.names' or a != 'each name' else f'each({it})')]
        if isinstance(e, ast.Call) and call_name(e) == 'zip' and len(e.args) == 2 and not e.keywords and isinstance(e.args[0], ast.Call) \
                and (call_name(e.args[0]) or '').split('.')[-1] == 'repeat' and len(e.args[0].args) == 1:
            # zip(itertools.repeat(f), xs): the pair (f, x) for every x
            k, a = one(ast.Tuple(elts=[e.args[0].args[0], ast.Name(id='_elem', ctx=ast.Load())], ctx=ast.Load()), '_elem')
            return [(k, a if norm(e.args[1]) == 'self.names' else f'each({norm(e.args[1])})')]
        if isinstance(e, ast.Call) and call_name(e) == 'map' and len(e.args) == 2 and isinstance(e.args[0], ast.Lambda) and len(e.args[0].args.args) == 1:
            k, a = one(e.args[0].body, e.args[0].args.args[0].arg)
            return [(k, a if norm(e.args[1]) == 'self.names' or a != 'each name' else f'each({norm(e.args[1])})')]
        if isinstance(e, ast.BinOp) and isinstance(e.op, ast.Add):
            return items(e.left, lst, cur) + items(e.right, lst, cur)
        if isinstance(e, ast.Call) and call_name(e) in ('list', 'tuple') and len(e.args) == 1 and not e.keywords:
            return items(e.args[0], lst, cur)
        raise Undecided(f'_get_candidates: cannot read the candidates of {short(e)}')

    def got(r: SymRow) -> T.Any:
        if r.skipped():
            return None
        if r.path.outcome != 'return' or not isinstance(r.path.value, ast.Name):
            raise Undecided(f'_get_candidates: result is not a named list: {r.outcome}')
        lst = r.path.value.id
        sp = r.sp

        def sym_keep(e: ast.AST, i: int) -> ast.AST:      # everything named by its definition on this path, except the list itself
            return S._subst(e, {k: v for k, v in sp.envs[i].items() if k != lst}, sp.params, frozenset())
        seq: T.Optional[T.List[T.Any]] = None
        for i, ev in enumerate(sp.path.events):
            st = ev.node
            if ev.kind != 'stmt' or st is None:
                if ev.kind == 'cond' and lst in {n.id for n in ast.walk(st) if isinstance(n, ast.Name)}:
                    raise Undecided(f'_get_candidates: the list is tested in {short(st)}')
                continue
            uses = [n for n in ast.walk(st) if isinstance(n, ast.Name) and n.id == lst]
            if not uses or isinstance(st, ast.Return):
                continue
            if isinstance(st, (ast.Assign, ast.AnnAssign)) and st.value is not None and \
                    [attr_chain(t) for t in (st.targets if isinstance(st, ast.Assign) else [st.target])] == [lst]:
                seq = items(sym_keep(st.value, i), lst, seq or [])
            elif isinstance(st, ast.AugAssign) and attr_chain(st.target) == lst and isinstance(st.op, ast.Add):
                seq = (seq or []) + items(sym_keep(st.value, i), lst, seq or [])
            elif isinstance(st, ast.Expr) and isinstance(st.value, ast.Call) and isinstance(st.value.func, ast.Attribute) \
                    and attr_chain(st.value.func.value) == lst and st.value.func.attr in ('append', 'extend') and len(st.value.args) == 1 \
                    and not st.value.keywords and seq is not None and len(uses) == 1:
                arg = sym_keep(st.value.args[0], i)
                seq = seq + ([one(arg, None)] if st.value.func.attr == 'append' else items(arg, lst, seq))
            else:
                raise Undecided(f'_get_candidates: the list is used by {short(st)}, which is not a way of adding candidates this rule reads')
        if seq is None:
            raise Undecided('_get_candidates: the returned list is never bound on this path')
        if sp.left_early():
            seq.append(('a loop over the names is left before all names were added',))
        return tuple(seq)

    def ref(v: T.Dict[str, bool]) -> T.Any:
        seq = [('cache', 'each name')]
        if v['subp']:
            seq.append(('existing', 'subproject'))
        if not v['force'] or not v['subp']:
            seq.append(('system', 'each name'))
        if v['subp']:
            seq.append(('configure', 'subproject'))
        return tuple(seq)
    decide(ctx, mod, f'{H}._get_candidates', fn, tab, sem, ref, got, 'candidate sequence')
    ctx.floor('candidate kinds appended', len(used), 4)
    ctx.note(f'candidate functions by what they call: {kinds}')


# ---------------------------------------------------------------------------------------------
# R1b  the candidate functions

def _keyed_accesses(e: ast.AST) -> T.Iterator[T.Tuple[str, ast.AST, ast.AST]]:
    """(table, machine index, key) of every access `TABLE[IDX].get/put/setdefault/pop(KEY..)`, `TABLE[IDX][KEY]`, `KEY in TABLE[IDX]` inside `e`,
    TABLE being the override table (`*.dependency_overrides`) or the dependency cache (`self.coredata.deps`)"""
    def table(x: ast.AST) -> T.Optional[T.Tuple[str, ast.AST]]:
        if isinstance(x, ast.Subscript):
            t = norm(x.value)
            if t.endswith('.dependency_overrides') or t == 'self.coredata.deps':
                return t, x.slice
        return None
    for x in ast.walk(e):
        if isinstance(x, ast.Call) and isinstance(x.func, ast.Attribute) and x.func.attr in ('get', 'put', 'setdefault', 'pop') and x.args and table(x.func.value):
            t, idx = T.cast(T.Tuple[str, ast.AST], table(x.func.value))
            yield t, idx, x.args[0]
        elif isinstance(x, ast.Subscript) and table(x.value):
            t, idx = T.cast(T.Tuple[str, ast.AST], table(x.value))
            yield t, idx, x.slice
        elif isinstance(x, ast.Compare) and len(x.ops) == 1 and isinstance(x.ops[0], (ast.In, ast.NotIn)) and table(x.comparators[0]):
            t, idx = T.cast(T.Tuple[str, ast.AST], table(x.comparators[0]))
            yield t, idx, x.left


def _key_agreement(ctx: RuleCtx, mod: Module, qn: str, exprs: T.Iterable[ast.AST], name: str, kwargs: str, minimum: int) -> None:
    """Writers and readers of the override table and of the dependency cache must agree on the key: every access made with a
    get_dep_identifier(..) key uses (the dependency name of this scope, the kwargs of the lookup) and the table of self.for_machine -
    what lookup() records under identifier(name, kwargs) is otherwise not what the next lookup with the same arguments reads.
    (An access whose key is not a get_dep_identifier call is left to the table rules, which do not recognise it.)"""
    seen: T.Dict[str, T.Tuple[str, ast.AST, ast.AST]] = {}
    for e in exprs:
        for t, idx, key in _keyed_accesses(e):
            if isinstance(key, ast.Call) and call_method(key) == 'get_dep_identifier':
                seen.setdefault(f'{t}[{norm(idx)}] key {norm(key)}', (t, idx, key))
    for text, (t, idx, key) in sorted(seen.items()):
        assert isinstance(key, ast.Call)
        if len(key.args) != 2 or key.keywords:
            raise Undecided(f'{qn}: get_dep_identifier called as {short(key)} (not two positional operands)')
        ok = norm(idx) == 'self.for_machine' and [norm(a) for a in key.args] == [name, kwargs]
        ctx.require(ok, f'{t.split(".")[-1]} accessed as [self.for_machine][identifier(name, kwargs)]', mod, qn,
                    f'{t.split(".")[-1]} access: machine {norm(idx)}, identifier operands ({", ".join(norm(a) for a in key.args)})',
                    f'{t}[{norm(idx)}] is accessed with the key {short(key)}; every other reader/writer of that table uses [self.for_machine] and '
                    f'get_dep_identifier(<dependency name>={name}, <lookup kwargs>={kwargs}) - the entry recorded by one lookup is not the one the next lookup with the same arguments reads')
    if len(seen) < minimum:
        raise Undecided(f'{qn}: {len(seen)} accesses of the override table / dependency cache keyed by get_dep_identifier were read, {minimum} expected')
    ctx.note(f'{qn}: accesses of the override table / dependency cache keyed by get_dep_identifier: {len(seen)}')


def r1b(ctx: RuleCtx) -> None:
    mod = ctx.repo.module(DF)
    # _do_subproject
    qn = f'{H}._do_subproject'
    fn = _fn(mod, qn)
    tab = symtable(fn, qn)
    sem = {_truth('self.forcefallback'): 'force', _truth('self.nofallback'): 'nofb'}

    def got(r: SymRow) -> T.Any:
        conf = [(s, i) for o, s, i in r.calls() if call_method(o) == 'do_subproject']
        if not conf:
            return ('skip',) + r.outcome
        if len(conf) != 1:
            return ('configure', f'{len(conf)} times')
        c, at = conf[0]
        sub = norm(c.args[0]) if c.args else ''
        if sub not in ('SubProject(self.subproject_name)', 'self.subproject_name'):
            return ('configure', 'other subproject ' + sub)
        want = [sub, 'self.subproject_varname', 'ARG1']
        v = r.sp.value()
        ok = (r.path.outcome == 'return' and isinstance(v, ast.Call) and attr_chain(v.func) == 'self._get_subproject_dep'
              and [norm(a) for a in v.args] == want)
        return ('configure', 'then subproject dependency') if ok else ('configure', 'then ' + ' '.join(r.outcome))

    def ref(v: T.Dict[str, bool]) -> T.Any:
        if v['nofb'] and not v['force']:
            return ('skip', 'return', 'None')
        return ('configure', 'then subproject dependency')
    decide(ctx, mod, qn, fn, tab, sem, ref, got, 'configure unless nofallback (forced wins)')

    # _do_dependency: a dependency object only when found, else None (so that the lookup goes on)
    qn = f'{H}._do_dependency'
    fn = _fn(mod, qn)
    tab = symtable(fn, qn)

    def cls_sys(a: Atom, e: ast.AST) -> T.Optional[str]:
        if a.kind == 'truth' and isinstance(e, ast.Call) and call_method(e) == 'found' and isinstance(e.func, ast.Attribute) \
                and call_method(e.func.value) == 'find_external_dependency':
            return 'found'
        return None
    sem2 = _label_atoms(tab, cls_sys)

    stores: T.List[ast.AST] = []

    def got2(r: SymRow) -> T.Any:
        v = r.sp.value()
        if r.path.outcome == 'return' and isinstance(v, ast.Call) and call_method(v) == 'find_external_dependency':
            args = [norm(a) for a in v.args]
            puts = [s for o, s, _ in r.calls() if call_method(o) == 'put' and 'self.coredata.deps' in norm(s.func)]
            stores.extend(puts)
            cached = any(len(p.args) == 2 and norm(p.args[1]) == norm(v) and call_method(p.args[0]) == 'get_dep_identifier' for p in puts)
            return ('dep', args[0] if args else '', 'cached' if cached else 'not cached')
        return r.outcome
    decide(ctx, mod, qn, fn, tab, sem2, lambda v: ('dep', 'ARG2', 'cached') if v['found'] else ('return', 'None'), got2,
           'system lookup: found -> stored and returned, else None', ('found',))
    _key_agreement(ctx, mod, qn, stores, 'ARG2', 'ARG1', 1)

    # _do_existing_subproject
    qn = f'{H}._do_existing_subproject'
    fn = _fn(mod, qn)
    tab = symtable(fn, qn)
    sem3 = {_truth('ARG2'): 'name', _truth('self._get_subproject(ARG2)'): 'configured'}

    def got3(r: SymRow) -> T.Any:
        v = r.sp.value()
        if r.path.outcome == 'return' and isinstance(v, ast.Call) and attr_chain(v.func) == 'self._get_subproject_dep':
            return ('dep', tuple(norm(a) for a in v.args))
        return r.outcome
    decide(ctx, mod, qn, fn, tab, sem3,
           lambda v: ('dep', ('ARG2', 'self.subproject_varname', 'ARG1')) if v['name'] and v['configured'] else ('return', 'None'), got3,
           'existing subproject used only when configured')

    # _get_subproject: only a *found* subproject counts as configured
    qn = f'{H}._get_subproject'
    fn = _fn(mod, qn)
    tab = symtable(fn, qn)
    subx = 'self.interpreter.subprojects[self.for_machine].get(ARG1)'
    sem4 = {_truth(subx): 'known', _truth(subx + '.found()'): 'found'}
    decide(ctx, mod, qn, fn, tab, sem4, lambda v: ('return', subx) if v['known'] and v['found'] else ('return', 'None'),
           lambda r: r.outcome, 'a subproject counts only when it is found')


# ---------------------------------------------------------------------------------------------
# R1c  _get_cached_dep

def _is_override(e: ast.AST) -> bool:
    return isinstance(e, ast.Call) and call_method(e) == 'get' and isinstance(e.func, ast.Attribute) \
        and 'dependency_overrides' in norm(e.func.value) and len(e.args) == 1 and call_method(e.args[0]) == 'get_dep_identifier'


def _is_disk(e: ast.AST) -> bool:
    return isinstance(e, ast.Call) and call_method(e) == 'get' and isinstance(e.func, ast.Attribute) \
        and norm(e.func.value) == 'self.coredata.deps[self.for_machine]' and len(e.args) == 1 and call_method(e.args[0]) == 'get_dep_identifier'


def _is_override_dep(e: ast.AST) -> bool:
    return isinstance(e, ast.Attribute) and e.attr == 'dep' and _is_override(e.value)


def r1c(ctx: RuleCtx) -> None:
    mod = ctx.repo.module(DF)
    qn = f'{H}._get_cached_dep'
    fn = _fn(mod, qn)
    tab = symtable(fn, qn)

    read: T.List[ast.AST] = []

    def cls(a: Atom, e: ast.AST) -> T.Optional[str]:
        read.append(e)
        if a.kind != 'truth':
            return None
        if _is_override(e):
            return 'override'
        if isinstance(e, ast.Call) and call_method(e) == 'found' and isinstance(e.func, ast.Attribute) and _is_override_dep(e.func.value):
            return 'override found'
        if _is_override_dep(e) or _is_disk(e):
            return 'object'
        if isinstance(e, ast.Call) and call_method(e) == '_check_version' and len(e.args) == 2 and call_method(e.args[1]) == 'get_version':
            return 'version ok' if norm(e.args[0]) == "stringlistify(ARG2.get('version', []))" else 'another list checked against the version'
        if a.args[0] == 'self.forcefallback':
            return 'force'
        if a.args[0] == 'self.subproject_name':
            return 'subp'
        if isinstance(e, ast.Attribute) and e.attr == 'explicit' and _is_override(e.value):
            return 'explicit'                      # wording of the log only
        if isinstance(e, ast.Call) and call_method(e) == 'get_version' and isinstance(e.func, ast.Attribute) and (_is_override_dep(e.func.value) or _is_disk(e.func.value)):
            return 'has version'                   # wording of the log only
        return None
    sem = _label_atoms(tab, cls)
    LABELS = ('override', 'override found', 'object', 'version ok', 'force', 'subp')

    def got(r: SymRow) -> T.Any:
        if r.path.outcome != 'return':
            return r.outcome
        v = r.sp.value()
        if v is None or (isinstance(v, ast.Constant) and v.value is None):
            return 'None'
        read.append(v)
        if _is_override_dep(v):
            return 'override dependency'
        if _is_disk(v):
            return 'disk cache entry'
        if isinstance(v, ast.Call) and attr_chain(v.func) == 'self._notfound_dependency':
            return 'not-found object'
        return 'other: ' + short(v)

    def ref(v: T.Dict[str, bool]) -> T.Any:
        if v['override']:
            if not v['override found']:
                return 'override dependency'        # explicit not-found override ends the lookup
            if not v['object']:
                return None                         # dependency objects are truthy
            return 'override dependency' if v['version ok'] else 'not-found object'
        if v['force'] and v['subp']:
            return 'None'                           # forced fallback: the on-disk cache is not consulted
        if not v['object']:
            return 'None'
        return 'disk cache entry' if v['version ok'] else 'None'
    decide(ctx, mod, qn, fn, tab, sem, ref, got, 'override > (forced: nothing | disk cache), version checked', LABELS)
    _key_agreement(ctx, mod, qn, read, 'ARG1', 'ARG2', 2)


# ---------------------------------------------------------------------------------------------
# R1d-f  lookup

WM = "WrapMode.from_string(self.coredata.optstore.get_value_for(OptionKey('wrap_mode')))"
FFOR = "self.coredata.optstore.get_value_for(OptionKey('force_fallback_for'))"
PROVIDER = 'self.wrap_resolver.find_dep_provider(each(self.names))'


class _Alpha(ast.NodeTransformer):
    """rename the variable of a one-generator comprehension to _x"""
    def _comp(self, n: T.Any) -> ast.AST:
        if len(n.generators) == 1 and isinstance(n.generators[0].target, ast.Name):
            old = n.generators[0].target.id

            class Ren(ast.NodeTransformer):
                def visit_Name(self, x: ast.Name) -> ast.AST:
                    return ast.Name(id='_x', ctx=x.ctx) if x.id == old else x
            n = Ren().visit(n)
        return self.generic_visit(n)
    visit_GeneratorExp = visit_ListComp = visit_SetComp = _comp


def _operands(e: ast.AST, op: T.Type[ast.boolop]) -> T.List[ast.AST]:
    if isinstance(e, ast.BoolOp) and isinstance(e.op, op):
        out: T.List[ast.AST] = []
        for v in e.values:
            out.extend(_operands(v, op))
        return out
    return [e]


def _atom_set(e: ast.AST, op: T.Type[ast.boolop]) -> T.Set[str]:
    out = set()
    for x in _operands(e, op):
        a, v = tables.canon(_Alpha().visit(copy.deepcopy(x)), True)
        out.add(('' if v else 'not ') + repr(a))
    return out


def _candidate_loop(fn: ast.AST) -> ast.For:
    loops = [s for s in fn.body if isinstance(s, ast.For)]  # type: ignore[attr-defined]
    loops = [l for l in loops if any(call_method(c) == '_get_candidates' or (isinstance(l.iter, ast.Call) and call_name(l.iter) == 'enumerate')
                                     for c in calls_in(l.iter)) and any(isinstance(n, ast.Raise) for n in walk_no_nested(l))]
    if len(loops) != 1:
        raise Undecided(f'lookup: expected one top-level candidate loop, found {len(loops)}')
    return loops[0]


_SRC_MEMO: T.Dict[Atom, T.Optional[str]] = {}


def _source_label(a: Atom) -> T.Optional[str]:
    if a not in _SRC_MEMO:
        if len(_SRC_MEMO) > 5000:
            _SRC_MEMO.clear()
        _SRC_MEMO[a] = _source_label_(a)
    return _SRC_MEMO[a]


def _source_label_(a: Atom) -> T.Optional[str]:
    """which documented source of `forcefallback` / `nofallback` an atom of lookup()'s prologue is"""
    if a == _truth('ARG2'):
        return 'force_fallback argument'
    def mode(x: str) -> T.Optional[str]:          # a comparison of the wrap mode with any member of the enum is a fact this table knows
        return 'wrap_mode=' + x.split('.', 1)[1] if x.startswith('WrapMode.') and x.count('.') == 1 else None
    if a.kind == 'cmp' and a.args[0] == 'eq' and WM in a.args[1:]:
        other = [x for x in a.args[1:] if x != WM]
        return mode(other[0]) if other else None
    if a.kind == 'is' and a.args[0] == WM:
        return mode(a.args[1])
    if a.kind == 'truth' and a.args[0] in (FFOR, f'bool({FFOR})'):
        return 'force_fallback_for is not empty'      # (known, and not one of the documented sources)
    if a.kind == 'in' and a.args[1] == FFOR:
        return {'each(self.names)': 'a name in force_fallback_for', 'self.subproject_name': 'subproject in force_fallback_for',
                PROVIDER + '[0]': 'provider in force_fallback_for'}.get(a.args[0])
    if a.kind == 'truth':
        try:
            e = _Alpha().visit(copy.deepcopy(_parse(a.args[0])))
        except SyntaxError:
            return None
        if norm(e) in (f'any((_x in {FFOR} for _x in self.names))', f'any([_x in {FFOR} for _x in self.names])'):
            return 'a name in force_fallback_for'
    return None


def _flag_prologue(fn: T.Any, loop: ast.For) -> T.List[ast.stmt]:
    """the statements of lookup() before the candidate loop that can have a say in the flags or in the adoption of an implicit
    fallback: simple statements, and compound ones that write self.forcefallback / self.nofallback or call a method of the class
    (display-name decoration, type assertions and argument errors are left out - they only multiply paths)"""
    out: T.List[ast.stmt] = []
    needed: T.Set[str] = set()
    for st in reversed(fn.body[:fn.body.index(loop)]):
        if isinstance(st, ast.Assert):
            continue
        if isinstance(st, (ast.If, ast.For, ast.While, ast.With, ast.Try)):
            writes = any(isinstance(n, (ast.Assign, ast.AugAssign, ast.AnnAssign)) and
                         any(attr_chain(t) in ('self.forcefallback', 'self.nofallback') for t in (n.targets if isinstance(n, ast.Assign) else [n.target]))
                         for n in ast.walk(st))
            calls = any(isinstance(n, ast.Call) and S.self_method_called(n) for n in ast.walk(st))
            feeds = any(isinstance(n, ast.Name) and isinstance(n.ctx, ast.Store) and n.id in needed for n in ast.walk(st))
            if not writes and not calls and not feeds:
                continue
        needed |= {n.id for n in ast.walk(st) if isinstance(n, ast.Name) and isinstance(n.ctx, ast.Load)}
        out.append(st)
    return out[::-1]


def _loop_region(fn: T.Any, loop: ast.For) -> T.List[ast.stmt]:
    """the candidate loop and what follows it, preceded by the single-definition top-level locals of the prologue it reads"""
    counts: T.Dict[str, int] = {}
    for n in ast.walk(fn):
        if isinstance(n, ast.Name) and isinstance(n.ctx, ast.Store):
            counts[n.id] = counts.get(n.id, 0) + 1
    i = fn.body.index(loop)
    pre = [st for st in fn.body[:i] if isinstance(st, (ast.Assign, ast.AnnAssign)) and st.value is not None
           and all(isinstance(t, ast.Name) and counts.get(t.id) == 1 for t in (st.targets if isinstance(st, ast.Assign) else [st.target]))]
    return pre + fn.body[i:]


GATING = {_truth('self.subproject_name'): 'explicit fallback', Atom('is', ('self.allow_fallback', 'False')): 'allow=false',
          _truth(PROVIDER + '[0]'): 'provider'}


def r1d(ctx: RuleCtx) -> None:
    mod = ctx.repo.module(DF)
    qn = f'{H}.lookup'
    fn = _fn(mod, qn)
    loop = _candidate_loop(fn)
    pre = _flag_prologue(fn, loop)
    adoption_only = {Atom('is', ('self.allow_fallback', 'True')), _truth('self.forcefallback'), _truth("ARG1.get('required', True)"),
                     _truth(f'self._get_subproject({PROVIDER}[0])'), _truth("ARG1.get('modules', [])"), _truth('self._get_candidates()')}
    tab = symtable(fn, qn + ':flags', pre, drop=lambda a: a in adoption_only)
    sem = dict(GATING)
    for a in tab.atoms():
        lab = _source_label(a)
        if lab:
            sem[a] = lab
    SRC = ('force_fallback argument', 'wrap_mode=forcefallback', 'a name in force_fallback_for', 'subproject in force_fallback_for')

    def last_write(r: SymRow, attr: str) -> T.Any:
        val: T.Any = 'never written'
        for st, i in r.sp.stmts():
            tgts = st.targets if isinstance(st, ast.Assign) else [st.target] if isinstance(st, (ast.AugAssign, ast.AnnAssign)) else []
            if any(attr_chain(t) == attr for t in tgts):
                v = st.value if isinstance(st, (ast.Assign, ast.AnnAssign)) else None
                if not (isinstance(v, ast.Constant) and isinstance(v.value, bool)):
                    raise Undecided(f'{qn}: {attr} is written by {short(st)}, which is not a flag computed from conditions')
                val = v.value
        if val == 'never written':
            raise Undecided(f'{qn}: a path through the prologue never writes {attr}')
        return val

    def got_force(r: SymRow) -> T.Any:
        return None if r.skipped() else last_write(r, 'self.forcefallback')

    def ref_force(v: T.Dict[str, bool]) -> T.Any:
        forced = any(v[k] for k in SRC)
        if not v['explicit fallback'] and not v['allow=false'] and v['provider']:
            forced = forced or v['provider in force_fallback_for']      # the wrap that provides the dependency is named in force_fallback_for
        return forced
    decide(ctx, mod, qn, fn, tab, sem, ref_force, got_force, 'forcefallback = OR of the documented sources',
           SRC + ('provider in force_fallback_for', 'explicit fallback', 'allow=false', 'provider'))
    decide(ctx, mod, qn, fn, tab, sem, lambda v: v['wrap_mode=nofallback'], lambda r: None if r.skipped() else last_write(r, 'self.nofallback'),
           'nofallback = (wrap_mode == nofallback)', ('wrap_mode=nofallback',))
    ctx.floor('paths through the prologue of lookup', len(tab.rows), 1)


def r1e(ctx: RuleCtx) -> None:
    mod = ctx.repo.module(DF)
    qn = f'{H}.lookup'
    fn = _fn(mod, qn)
    loop = _candidate_loop(fn)
    pre = _flag_prologue(fn, loop)
    tab = symtable(fn, qn + ':implicit fallback', pre, drop=lambda a: _source_label(a) is not None)
    sem = {_truth('self.subproject_name'): 'explicit fallback', Atom('is', ('self.allow_fallback', 'False')): 'allow=false',
           Atom('is', ('self.allow_fallback', 'True')): 'allow=true', _truth(PROVIDER + '[0]'): 'provider',
           _truth('self.forcefallback'): 'forced', _truth("ARG1.get('required', True)"): 'required',
           _truth(f'self._get_subproject({PROVIDER}[0])'): 'configured',
           # facts of the prologue that have no say in the adoption (display name, type assertions, the empty-candidates error)
           _truth("ARG1.get('modules', [])"): 'modules', _truth('self._get_candidates()'): 'has candidates'}
    for a in tab.atoms():
        if a.kind == 'isinstance' and a.args[0].startswith('self.coredata.optstore.get_value_for('):
            sem[a] = 'option type assertion ' + a.args[0][-22:]

    def got(r: SymRow) -> T.Any:
        if r.skipped():
            return None
        adopt = [s for o, s, _ in r.calls() if attr_chain(o.func) == 'self._subproject_impl']
        if not adopt:
            return 'not adopted'
        if len(adopt) == 1 and [norm(a) for a in adopt[0].args] == [PROVIDER + '[0]', PROVIDER + '[1]']:
            # the widening of forcefallback must precede the decision
            widened = [i for a, v, i in r.sp.conds() if _source_label(a) == 'provider in force_fallback_for']
            tested = [i for a, v, i in r.sp.conds() if a == _truth('self.forcefallback')]
            if tested and (not widened or min(widened) > min(tested)):
                return 'adopted, but forcefallback tested before the provider was checked against force_fallback_for'
            return 'adopted'
        return 'adopted with ' + '; '.join(norm(a) for a in adopt)

    def ref(v: T.Dict[str, bool]) -> T.Any:
        if v['allow=false'] and v['allow=true']:
            return None
        if v['explicit fallback'] or v['allow=false'] or not v['provider']:
            return 'not adopted'
        if v['forced'] or v['allow=true'] or v['required'] or v['configured']:
            return 'adopted'
        return 'not adopted'
    decide(ctx, mod, qn, fn, tab, sem, ref, got, 'implicit [provide] fallback',
           ('explicit fallback', 'allow=false', 'allow=true', 'provider', 'forced', 'required', 'configured'))


def r1f(ctx: RuleCtx) -> None:
    mod = ctx.repo.module(DF)
    qn = f'{H}.lookup'
    fn = _fn(mod, qn)
    loop = _candidate_loop(fn)
    tab = symtable(fn, qn + ':candidate loop', _loop_region(fn, loop), since=lambda sp: sp.first_iter(loop))
    cand = 'each(enumerate(self._get_candidates()))'
    OVR = 'self.build.dependency_overrides[self.for_machine]'
    IDENT = 'dependencies.get_dep_identifier(each(self.names), ARG1)'
    LAST = tables.canon(_parse(f'{cand}[0] == len(self._get_candidates()) - 1'), True)[0]
    calls: T.Set[str] = set()

    closures = _closure_candidates(mod)      # candidates as closures with the name bound: the loop calls `candidate(kwargs, subproject kwargs)`
    CALLEE = f'{cand}[1][0]' if closures is None else f'{cand}[1]'

    def cls(a: Atom, e: ast.AST) -> T.Optional[str]:
        if a.kind == 'truth' and isinstance(e, ast.Call) and norm(e.func) == CALLEE:
            calls.add(a.args[0])
            return 'object'
        if a.kind == 'truth' and isinstance(e, ast.Call) and call_method(e) == 'found' and isinstance(e.func, ast.Attribute) \
                and isinstance(e.func.value, ast.Call) and norm(e.func.value.func) == CALLEE:
            return 'found'
        if a == _truth("ARG1.get('required', True)"):
            return 'required'
        if a == LAST:
            return 'last'
        if a.kind == 'in' and a.args[1] == OVR and isinstance(e, ast.Call) and call_method(e) == 'get_dep_identifier':
            return 'already overridden'     # (that it is the identifier of each name is checked where the override is written)
        return None
    sem = _label_atoms(tab, cls)
    if len(calls) != 1:
        raise Undecided(f'{qn}: candidate invoked in {len(calls)} different ways')
    call = _parse(next(iter(calls)))
    assert isinstance(call, ast.Call)
    if closures is not None:
        # bind the call by the signature of every bound method: the name parameter is the closure's, the other two come from the loop
        if any(isinstance(x, ast.Starred) for x in call.args) or any(k.arg is None for k in call.keywords):
            raise Undecided(f'{qn}: candidate call {short(call)} passes */** arguments')
        views = set()
        for params in closures:
            got_: T.Dict[str, ast.AST] = {}
            free = [p_ for p_ in params if p_ != params[1]]
            for p_, x in zip(params, call.args):       # positional arguments fill the parameters from the left (partial bound by keyword)
                got_[p_] = x
            for k in call.keywords:
                if k.arg in got_ or k.arg not in params:
                    raise Undecided(f'{qn}: candidate call {short(call)} does not fit the signature {params} of a bound method')
                got_[k.arg] = k.value      # type: ignore[index]
            if len(call.args) > 3 or sorted(got_) != sorted(free):
                raise Undecided(f'{qn}: candidate call {short(call)} does not supply exactly {free} of a bound method (name bound by the closure)')
            views.add((norm(got_[params[0]]), norm(got_[params[2]])))
        if len(views) != 1:
            raise Undecided(f'{qn}: candidate call {short(call)} binds differently for different candidate methods')
        v0, v2 = next(iter(views))
        call = ast.Call(func=call.func, args=[_parse(v0), _parse(f'{cand}[1][1]'), _parse(v2)], keywords=[])
    if not (len(call.args) == 3 and not call.keywords):
        raise Undecided(f'{qn}: candidate call {short(call)} is not (kwargs, name, subproject kwargs)')
    if norm(call.args[0]) != 'ARG1' and not (isinstance(call.args[0], ast.Name) and False):
        raise Undecided(f'{qn}: candidates are not called with the kwargs of lookup(): {short(call.args[0])}')
    other = _parse(norm(call.args[1]))
    own = norm(call.args[1]) == f'{cand}[1][1]'
    if not own and not (isinstance(other, ast.Subscript) and norm(other).startswith(cand)):
        raise Undecided(f'{qn}: second argument of the candidate call not understood: {short(call.args[1])}')
    ctx.require(own, 'each candidate is called with (kwargs, its own name, subproject kwargs)', mod, qn, 'candidate call',
                f'candidate call is {short(call)}: the function of one candidate is called with {short(call.args[1])}, not with its own name')
    # only the last candidate is required
    req_sets: T.Set[str] = set()
    for r in tab.rows:
        for st, i in r.sp.stmts(T.cast(SymRow, r).start):
            if isinstance(st, ast.Assign) and len(st.targets) == 1 and norm(r.sp.sym(st.targets[0], i)) == "ARG1['required']":
                req_sets.add(repr(sorted(_atom_set(r.sp.sym(st.value, i), ast.And))))
    want_req = repr(sorted({repr(_truth("ARG1.get('required', True)")), repr(LAST)}))
    if not req_sets:
        raise Undecided(f"{qn}: no assignment to kwargs['required'] recognised in the candidate loop")
    known = {repr(_truth("ARG1.get('required', True)")), repr(LAST), 'not ' + repr(LAST), 'not ' + repr(_truth("ARG1.get('required', True)"))}
    for rs in req_sets:
        if not set(eval(rs)) <= known:      # (rs is the repr of a sorted list of atom texts built above)
            raise Undecided(f"{qn}: kwargs['required'] is computed from {rs}, which is outside (required, is-last)")
    ctx.require(req_sets == {want_req}, "kwargs['required'] = required and this is the last candidate", mod, qn, "kwargs['required']",
                f"kwargs['required'] is set to {sorted(req_sets)}; reference {want_req}")

    def got(r: SymRow) -> T.Any:
        if r.skipped():
            return None
        v = r.sp.value()
        if r.path.outcome == 'raise':
            return 'error ' + r.outcome[1]
        if r.path.outcome != 'return':
            return ' '.join(r.outcome)
        if isinstance(v, ast.Call) and attr_chain(v.func) == 'self._notfound_dependency':
            return 'next candidate'        # (after the last one: the not-found object)
        if norm(v) in calls:
            inst = []
            for st, i in r.sp.stmts(r.start):
                if isinstance(st, ast.Assign) and len(st.targets) == 1 and isinstance(st.targets[0], ast.Subscript) \
                        and norm(r.sp.sym(st.targets[0].value, i)) == OVR:
                    val = r.sp.sym(st.value, i)
                    ok = (norm(r.sp.sym(st.targets[0].slice, i)) == IDENT and isinstance(val, ast.Call) and call_method(val) == 'DependencyOverride'
                          and val.args and norm(val.args[0]) in calls and isinstance(kwarg(val, 'explicit'), ast.Constant)
                          and kwarg(val, 'explicit').value is False)  # type: ignore[union-attr]
                    inst.append('implicit override installed' if ok else 'override written as ' + short(st))
            if not inst:
                opaque = [short(o) for o, sc, _ in r.calls() if S.self_method_called(o) and S.self_method_called(o) not in VOCAB[H]
                          and any(norm(x) in calls for x in list(sc.args) + [k.value for k in sc.keywords])]
                if opaque:
                    raise Undecided(f'{qn}: the found dependency is handed to {opaque}, which could not be expanded; the implicit override may be installed there')
            if any(l is not loop for l in r.sp.left_early(r.start)):      # (the candidate loop itself is left by this return)
                inst.append('the loop over the names is left before every name was handled')
            return 'candidate result; ' + ('; '.join(inst) if inst else 'overrides untouched')
        return 'returns ' + short(v)

    def ref(v: T.Dict[str, bool]) -> T.Any:
        if v['object'] and v['found']:
            return 'candidate result; ' + ('overrides untouched' if v['already overridden'] else 'implicit override installed')
        if v['required'] and (v['object'] or v['last']):
            return 'error DependencyException'
        if v['object']:
            return 'candidate result; overrides untouched'
        return 'next candidate'
    decide(ctx, mod, qn, fn, tab, sem, ref, got, 'candidate loop', ('object', 'found', 'required', 'last', 'already overridden'))


# ---------------------------------------------------------------------------------------------
# R1g  _get_subproject_dep

def r1g(ctx: RuleCtx) -> None:
    mod = ctx.repo.module(DF)
    qn = f'{H}._get_subproject_dep'
    fn = _fn(mod, qn)
    tab = symtable(fn, qn)
    CACHED = 'self._get_cached_dep(each(self.names), ARG3)'
    WRAPVAR = 'self.wrap_resolver.get_varname(ARG1, each(self.names))'
    NF = 'self._notfound_dependency()'

    def var_of(e: ast.AST) -> T.Optional[T.Tuple[str, bool]]:
        """`<subproject variable> [or <not-found>]` -> (variable name expression, cannot be None)"""
        safe = False
        if isinstance(e, ast.BoolOp) and isinstance(e.op, ast.Or) and len(e.values) == 2 and norm(e.values[1]) == NF:
            e, safe = e.values[0], True
        if isinstance(e, ast.Call) and attr_chain(e.func) == 'self._get_subproject_variable' and len(e.args) == 2 \
                and norm(e.args[0]) == 'self._get_subproject(ARG1)':
            return norm(e.args[1]), safe
        return None

    def cls(a: Atom, e: ast.AST) -> T.Optional[str]:
        if a.kind != 'truth':
            return None
        t = a.args[0]
        if t == 'self._get_subproject(ARG1)':
            return 'configured'
        if t == CACHED:
            return 'overridden'
        if t == 'ARG2':
            return 'variable given'
        if t == WRAPVAR:
            return 'wrap names a variable'
        if var_of(e):
            return 'variable exists'
        if isinstance(e, ast.Call) and call_method(e) == 'found' and isinstance(e.func, ast.Attribute) and var_of(e.func.value):
            return 'variable found'
        if isinstance(e, ast.Call) and call_method(e) == '_check_version' and len(e.args) == 2 and call_method(e.args[1]) == 'get_version' \
                and var_of(e.args[1].func.value):  # type: ignore[attr-defined]
            return 'version ok' if norm(e.args[0]) == "stringlistify(ARG3.get('version', []))" else 'another list checked against the version'
        return None
    sem = _label_atoms(tab, cls)
    LABELS = ('configured', 'overridden', 'variable given', 'wrap names a variable', 'variable found', 'version ok')

    def got(r: SymRow) -> T.Any:
        if r.skipped():
            return None
        if r.path.outcome != 'return':
            return ' '.join(r.outcome)
        v = r.sp.value()
        if v is None or (isinstance(v, ast.Constant) and v.value is None):
            return 'None'
        if norm(v) == NF:
            return 'not-found object'
        if norm(v) == CACHED:
            return 'override'
        var = var_of(v)
        if var is not None:
            name = {'ARG2': 'given name', WRAPVAR: 'wrap name'}.get(var[0], var[0])
            return f'variable ({name}) or not-found object' if var[1] else f'variable ({name}), None when it does not exist'
        local_defs = {n.name for n in ast.walk(fn) if isinstance(n, (ast.FunctionDef, ast.Lambda)) and n is not fn and hasattr(n, 'name')}
        for c in [v] + [x for x in ast.walk(v) if isinstance(x, ast.Call)]:
            if isinstance(c, ast.Call) and (isinstance(c.func, ast.Lambda) or (isinstance(c.func, ast.Name) and c.func.id in local_defs)
                                            or (S.self_method_called(c) and S.self_method_called(c) not in VOCAB[H])):
                raise Undecided(f'{qn}: the result `{short(v)}` is computed by a local function / helper that could not be expanded')
        return 'other: ' + short(v)

    def ref(v: T.Dict[str, bool]) -> T.Any:
        if not v['configured']:
            return 'None'
        if v['overridden']:
            return 'override'
        if v['variable given']:
            kind = 'variable (given name) or not-found object'
        elif v['wrap names a variable']:
            kind = 'variable (wrap name) or not-found object'
        else:
            return 'not-found object'
        if not v['variable found']:
            return kind
        return kind if v['version ok'] else 'not-found object'
    decide(ctx, mod, qn, fn, tab, sem, ref, got, 'override > variable > not-found object (never None once configured)', LABELS)

    # the pieces the table relies on
    qn2 = f'{H}._notfound_dependency'
    fn2 = _fn(mod, qn2)
    outs = {sp.outcome()[0] + ' ' + (call_name(sp.value()) or '?') for sp in sympaths(fn2)}  # type: ignore[arg-type]
    ctx.require(outs == {'return NotFoundDependency'}, '_notfound_dependency always builds a NotFoundDependency', mod, qn2, fn2,
                f'_notfound_dependency leaves by {sorted(outs)}')
    qn3 = f'{H}._check_version'
    fn3 = _fn(mod, qn3)
    tab3 = symtable(fn3, qn3, bool_returns=True)
    sem3 = {_truth('ARG1'): 'constraint', Atom('cmp', ('eq', 'ARG2', "'undefined'")): "found == 'undefined'",
            _truth('version_compare_many(ARG2, ARG1)[0]'): 'all hold'}
    for a in tab3.atoms():     # further placeholders for "no version" (which ones there must be is R6's business)
        if a.kind == 'cmp' and a.args[0] == 'eq' and a.args[1] == 'ARG2' and isinstance(_parse(a.args[2]), ast.Constant):
            sem3[a] = f'found == {a.args[2]}'
    decide(ctx, mod, qn3, fn3, tab3, sem3,
           lambda v: ('return', 'True') if not v['constraint'] else ('return', 'False') if any(x for k, x in v.items() if k.startswith('found == ')) else ('return', str(v['all hold'])),
           lambda r: r.outcome, 'no constraint -> ok; placeholder version -> mismatch; else all constraints hold')


# ---------------------------------------------------------------------------------------------
# R2  hash dominates use

def r2a(ctx: RuleCtx) -> None:
    mod = ctx.repo.module(WRAP)
    qn = f'{R}._get_file_internal'
    fn = _fn(mod, qn)
    url_atom = Atom('in', ("f'{ARG1}_url'", 'self.wrap.values'))
    n = 0
    seen: T.Set[str] = set()
    for sp in sympaths(fn):
        if sp.path.outcome != 'return':
            continue
        n += 1
        v = sp.value()
        vt = norm(v) if v is not None else 'None'
        url = {a: val for a, val, _ in sp.conds()}.get(url_atom)
        strong: T.List[str] = []
        weak: T.List[str] = []
        for o, s, _ in sp.calls():
            m = S.self_method_called(o)
            if m in ('check_hash', '_download') and len(s.args) >= 2 and norm(s.args[0]) == 'ARG1' and norm(s.args[1]) == vt:
                opt = kwarg(s, 'hash_required') if m == 'check_hash' else None
                if m == 'check_hash' and len(s.args) > 2:
                    opt = s.args[2]
                if opt is None or (isinstance(opt, ast.Constant) and opt.value is True):
                    strong.append(m)
                else:
                    weak.append(m)
        ok = bool(strong) or (url is False and bool(weak))
        how = f'{strong + weak} ({"hash optional" if not strong else "hash required"})' if ok else 'nothing'
        key = f'{vt}|{url}|{how}'
        if key in seen:
            continue
        seen.add(key)
        if not ok:
            taking = [short(o, 60) for o, sc, _ in sp.calls() if S.self_method_called(o) not in ('check_hash', '_download') and
                      (call_name(o) or '').split('.')[0] not in ('os', 'mlog', 'Path') and any(norm(x) == vt for x in list(sc.args) + [k.value for k in sc.keywords])]
            if taking:
                raise Undecided(f'{qn}: no verification recognised on `{short(sp.path.describe(), 160)}`, but {taking} receive the returned path')
        if not ok and _opaque(sp, R):
            raise Undecided(f'{qn}: no verification seen on `{short(sp.path.describe(), 160)}`, but {_opaque(sp, R)} could not be looked into')
        branch = {True: 'URL branch', False: 'packagefiles branch', None: 'no <what>_url test on the path'}[url]
        ctx.require(ok, f'{branch}: returned {short(vt, 60)} verified by {how}', mod, qn, sp.path.events[-1].node,
                    f'{branch}: the path `{short(sp.path.describe(), 200)}` returns {short(vt, 80)} without '
                    + ('a hash check that requires the hash' if weak else f'check_hash(what, <that path>) / _download(what, <that path>)'))
    ctx.floor('returning paths of _get_file_internal', n, 1)


def r2b(ctx: RuleCtx) -> None:
    mod = ctx.repo.module(WRAP)
    qn = f'{R}.check_hash'
    fn = _fn(mod, qn)
    DIG, EXPS = 'self.hash_file(ARG2)', ("self.wrap.get(f'{ARG1}_hash').lower()", "self.wrap.get(f'{ARG1}_hash')")
    recorded = Atom('in', ("f'{ARG1}_hash'", 'self.wrap.values'))
    n_acc = n_rej = 0
    seen: T.Set[str] = set()
    for sp in sympaths(fn):
        conds = {a: v for a, v, _ in sp.conds()}
        equal = [v for a, v in conds.items() if a.kind == 'cmp' and a.args[0] == 'eq' and DIG in a.args[1:] and any(x in a.args[1:] for x in EXPS)]
        if sp.path.outcome == 'raise':
            n_rej += 1
            continue
        n_acc += 1
        why = None
        if equal and all(equal):
            why = 'sha256(file at path) == recorded hash'
        elif conds.get(recorded) is False and conds.get(_truth('ARG3')) is False:
            why = 'no hash recorded and none required'
        if why is None:
            odd = [repr(a) for a in conds if ('hash_file(' in repr(a) or '_hash' in repr(a)) and a != recorded and not
                   (a.kind == 'cmp' and a.args[0] == 'eq' and any(x.startswith('self.hash_file(') for x in a.args[1:]) and any(x in a.args[1:] for x in EXPS))]
            if odd:
                raise Undecided(f'{qn}: accepting path `{short(sp.path.describe(), 160)}` tests {odd}, which is not a comparison this rule reads')
        if why is None and _opaque(sp, R):
            raise Undecided(f'{qn}: accepting path `{short(sp.path.describe(), 160)}` goes through {_opaque(sp, R)}, which could not be looked into')
        key = f'{why}|{"" if why else sp.path.describe()}'
        if key in seen:
            continue
        seen.add(key)
        ctx.require(why is not None, f'check_hash accepts because {why}', mod, qn, f'accepting path: {short(sp.path.describe(), 200)}',
                    f'check_hash returns normally on the path `{short(sp.path.describe(), 220)}` although neither `{DIG} == {EXPS[0]}` was established '
                    'nor (hash not recorded and not required)', sp.path.events[-1].node if sp.path.events else fn)
    ctx.floor('accepting paths of check_hash', n_acc, 1)
    ctx.require(n_rej >= 1, 'check_hash has a rejecting path', mod, qn, fn, 'check_hash never raises')
    # PackageDefinition.get: missing key raises
    g = mod.func('PackageDefinition.get')
    for out in sorted({sp.outcome() for sp in sympaths(g)}):
        if out[0] == 'raise' or out == ('return', 'self.values[ARG1]'):
            ctx.ok(f'PackageDefinition.get: {" ".join(out)}')
        elif out[0] == 'return' and isinstance(_parse(out[1]), ast.Constant):
            ctx.violation(mod, 'PackageDefinition.get', f'return {out[1]}', f'PackageDefinition.get yields the default {out[1]} for a missing key: a missing <what>_hash is then compared as {out[1]}', g)
        else:
            raise Undecided(f'PackageDefinition.get leaves by {out}')
    # hash_file: sha256 over the content of that path
    hf = _fn(mod, f'{R}.hash_file')
    fl = Flow(hf)
    rets = [n for n in walk_no_nested(hf) if isinstance(n, ast.Return)]
    if not rets:
        raise Undecided('hash_file: no return found')
    for rt in rets:
        o = fl.origins(rt.value) if rt.value is not None else set()
        reads = any(x.startswith('call:') and x.split('.')[-1] in ('read', 'read_bytes') or x == 'call:open' for x in o)
        good = rt.value is not None and call_method(rt.value) == 'hexdigest' and 'call:hashlib.sha256' in o and 'param:path' in o and reads
        if not good:
            # positive evidence only: a sha256 over something made from the *name* (no read of the file anywhere in the flow)
            other = {x for x in o if x.startswith('call:') and x[5:].split('.')[-1] not in ('sha256', 'hexdigest', 'update', 'encode', 'str', 'bytes', 'fsencode', '<dynamic>')}
            if not ('call:hashlib.sha256' in o and 'param:path' in o and not reads and not other):
                raise Undecided(f'hash_file: `{short(rt)}` is not read as sha256(content of path).hexdigest() (flows from {sorted(o)})')
        ctx.require(good, 'hash_file returns sha256(content of path).hexdigest()', mod, f'{R}.hash_file', rt,
                    f'`{short(rt)}` hashes a value made from the file name, not the content of the file at `path` (flows from {sorted(o)})')


def _assigned(fn: ast.AST, name: str) -> T.List[ast.AST]:
    """values bound to a local name by assignment / with / for (None when the binding is not a plain value)"""
    out: T.List[T.Any] = []
    for n in ast.walk(fn):
        if isinstance(n, ast.Assign):
            for t in n.targets:
                if isinstance(t, ast.Name) and t.id == name:
                    out.append(n.value)
                elif any(isinstance(x, ast.Name) and x.id == name for x in ast.walk(t)) and not isinstance(t, (ast.Attribute, ast.Subscript)):
                    out.append(None)
        elif isinstance(n, (ast.AnnAssign, ast.AugAssign, ast.NamedExpr)) and isinstance(n.target, ast.Name) and n.target.id == name:
            out.append(n.value if isinstance(n, ast.AnnAssign) else None)
        elif isinstance(n, ast.withitem) and n.optional_vars is not None and any(isinstance(x, ast.Name) and x.id == name for x in ast.walk(n.optional_vars)):
            out.append(n.context_expr)
        elif isinstance(n, (ast.For, ast.comprehension)) and any(isinstance(x, ast.Name) and x.id == name for x in ast.walk(n.target)):
            out.append(None)
    return out


def _paired_writes(ctx: RuleCtx, mod: Module, fn: ast.AST, qn: str) -> T.Tuple[T.Set[str], T.Set[str]]:
    """every <tmpfile>.write(B) sits next to <sha>.update(B) in one straight-line block"""
    fl = Flow(fn)  # type: ignore[arg-type]
    lists: T.List[T.List[ast.stmt]] = []
    for n in ast.walk(fn):
        for field in ('body', 'orelse', 'finalbody'):
            b = getattr(n, field, None)
            if isinstance(b, list) and b and isinstance(b[0], ast.stmt):
                lists.append(b)
    files: T.Set[str] = set()
    shas: T.Set[str] = set()
    n_w = 0
    for b in lists:
        for i, st in enumerate(b):
            c = st.value if isinstance(st, ast.Expr) else None
            if not (isinstance(c, ast.Call) and call_method(c) == 'write' and isinstance(c.func, ast.Attribute) and isinstance(c.func.value, ast.Name)
                    and 'call:tempfile.NamedTemporaryFile' in fl.origins(c.func.value) and len(c.args) == 1):
                continue
            n_w += 1
            files.add(c.func.value.id)
            blk = norm(c.args[0])
            partner = None
            for j, st2 in enumerate(b):
                c2 = st2.value if isinstance(st2, ast.Expr) else None
                if isinstance(c2, ast.Call) and call_method(c2) == 'update' and isinstance(c2.func, ast.Attribute) and isinstance(c2.func.value, ast.Name) \
                        and len(c2.args) == 1 and norm(c2.args[0]) == blk:
                    lo, hi = sorted((i, j))
                    between = b[lo:hi + 1]
                    straight = all(isinstance(x, (ast.Expr, ast.Assign, ast.AugAssign, ast.AnnAssign)) for x in between)
                    rebound = any(isinstance(t, ast.Name) and t.id in {x.id for x in ast.walk(c.args[0]) if isinstance(x, ast.Name)}
                                  for x in between for t in ast.walk(x) if isinstance(t, ast.Name) and isinstance(t.ctx, ast.Store))
                    defs = _assigned(fn, c2.func.value.id)
                    is_sha = bool(defs) and all(call_name(d) == 'hashlib.sha256' for d in defs)
                    if straight and not rebound and is_sha:
                        partner = c2
                        shas.add(c2.func.value.id)
            ctx.require(partner is not None, f'{short(c)} is hashed by the sha256 update next to it', mod, qn, c,
                        f'{short(c)} writes a block into the download that no adjacent <sha256>.update({blk}) covers')
    ctx.floor('streamed writes in get_data', n_w, 1)
    return files, shas


def r2c(ctx: RuleCtx) -> None:
    mod = ctx.repo.module(WRAP)
    qn = f'{R}._download'
    fn = _fn(mod, qn)
    EXPS = {"self.wrap.get(f'{ARG1}_hash').lower()", "self.wrap.get(f'{ARG1}_hash')"}
    n_pub = n_bad = 0
    seen: T.Set[str] = set()
    for sp in sympaths(fn):
        conds = sp.conds()
        calls = sp.calls()
        for o, s, at in calls:
            if call_name(o) not in ('os.rename', 'os.replace', 'shutil.move'):
                continue
            n_pub += 1
            src, dst = (norm(a) for a in s.args[:2]) if len(s.args) >= 2 else ('?', '?')
            problem = None
            if dst != 'ARG2':
                problem = f'publishes to {dst}, not to the requested cache path'
            else:
                src_e = s.args[0]
                if not (isinstance(src_e, ast.Subscript) and isinstance(src_e.value, ast.Call) and S.self_method_called(src_e.value) in ('get_data_with_backoff', 'get_data')
                        and isinstance(src_e.slice, ast.Constant) and src_e.slice.value == 1):
                    problem = f'publishes {src}, which is not the file returned by the download'
                else:
                    dig = norm(ast.Subscript(value=src_e.value, slice=ast.Constant(value=0), ctx=ast.Load()))
                    good = [1 for a, v, i in conds if i < at and v and a.kind == 'cmp' and a.args[0] == 'eq'
                            and dig in a.args[1:] and (set(a.args[1:]) - {dig}) <= EXPS and len(set(a.args[1:])) == 2]
                    if not good:
                        problem = f'reaches {short(o)} without `digest of that download == <what>_hash` being established on the path'
            if problem and _opaque(sp, R):
                raise Undecided(f'{qn}: {problem}; but {_opaque(sp, R)} on that path could not be looked into')
            key = f'pub|{problem}|{short(sp.path.describe(), 160) if problem else ""}'
            if key in seen:
                continue
            seen.add(key)
            ctx.require(problem is None, f'{short(o)} only after digest == recorded hash (digest and file from one download)', mod, qn, o,
                        f'on path `{short(sp.path.describe(), 200)}`: {problem}')
        # mismatch: remove + raise
        for a, v, i in conds:
            if a.kind == 'cmp' and a.args[0] == 'eq' and not v and (set(a.args[1:]) & EXPS):
                n_bad += 1
                dig = next(iter(set(a.args[1:]) - EXPS), '')
                tmp = dig[:-3] + '[1]' if dig.endswith('[0]') else '?'
                removed = any(call_name(o) in ('os.remove', 'os.unlink') and s.args and norm(s.args[0]) == tmp for o, s, j in calls if j > i)
                raised = sp.path.outcome == 'raise'
                key = f'bad|{removed}|{raised}'
                if key in seen:
                    continue
                seen.add(key)
                ctx.require(removed and raised, 'digest mismatch: temporary removed, WrapException raised', mod, qn, 'digest mismatch branch',
                            f'on digest mismatch the path `{short(sp.path.describe(), 160)}` ' +
                            ('does not remove the downloaded temporary' if not removed else f'continues ({sp.path.outcome}) instead of raising'))
        # the retry publishes under the same key to the same place
        v = sp.value()
        if sp.path.outcome == 'return' and isinstance(v, ast.Call) and S.self_method_called(v) == '_download':
            args = [norm(x) for x in v.args]
            key = 'retry|' + repr(args)
            if key not in seen:
                seen.add(key)
                ctx.require(args[:2] == ['ARG1', 'ARG2'], 'fallback-URL retry keeps (what, ofname)', mod, qn, v,
                            f'the fallback retry is {short(v)}: it must verify the same <what>_hash and publish to the same path')
    ctx.floor('publication sites on paths of _download', n_pub, 1)
    ctx.floor('digest-mismatch paths of _download', n_bad, 1)
    # the digest is the hash of what was written
    gb = _fn(mod, f'{R}.get_data_with_backoff')
    for out in sorted({sp.outcome() for sp in sympaths(gb) if sp.path.outcome == 'return'}):
        if out[1] in ('self.get_data(ARG1)', '(self.get_data(ARG1)[0], self.get_data(ARG1)[1])'):
            ctx.ok('get_data_with_backoff returns (digest, file) of get_data(url) unchanged')
        elif 'self.get_data(' in out[1]:
            raise Undecided(f'get_data_with_backoff returns {out[1]}')
        else:
            ctx.violation(mod, f'{R}.get_data_with_backoff', f'return {out[1]}', f'get_data_with_backoff returns {out[1]}, not the (digest, file) pair of get_data(url)', gb)
    gd = mod.func(f'{R}.get_data')
    files, shas = _paired_writes(ctx, mod, gd, f'{R}.get_data')
    fl = Flow(gd)
    n_ret = 0
    for rt in [n for n in walk_no_nested(gd) if isinstance(n, ast.Return)]:
        n_ret += 1
        v = rt.value
        ok = False
        if isinstance(v, ast.Tuple) and len(v.elts) == 2:
            d, p = v.elts
            if isinstance(d, ast.Call) and S.self_method_called(d) == 'hash_file' and len(d.args) == 1 and norm(d.args[0]) == norm(p):
                ok = True      # digest computed from the very file that is returned
            else:
                dd = _assigned(gd, d.id) if isinstance(d, ast.Name) else [d]
                ok = bool(dd) and all(isinstance(x, ast.Call) and call_method(x) == 'hexdigest' and isinstance(x.func, ast.Attribute)
                                      and isinstance(x.func.value, ast.Name) and x.func.value.id in shas for x in dd) \
                    and isinstance(p, ast.Attribute) and p.attr == 'name' and isinstance(p.value, ast.Name) and p.value.id in files
        ctx.require(ok, f'get_data returns (digest of the written stream, its file): {short(v)}', mod, f'{R}.get_data', rt,
                    f'`{short(rt)}`: the digest is not the sha256 that covered the writes into the returned file')
    ctx.floor('returns of get_data', n_ret, 1)


_R2D_NEUTRAL = {'call:str', 'call:os.fspath', 'call:os.path.abspath', 'call:os.path.normpath'}


def _archive_origins(mod: Module, q: str, e: ast.AST, flows: T.Dict[str, Flow], depth: int = 0) -> T.Set[str]:
    """origins of expression `e` of function `q`; a parameter of a function of the closed module is replaced by the origins of what
    every call site binds to it (who-may-call over the module: `self.f(..)` / `f(..)`); a function that is also referenced outside
    call position, is never called, or is called with */** arguments is not read (Undecided)"""
    funcs = mod.funcs()
    fn = funcs[q]
    if q not in flows:
        flows[q] = Flow(fn, cut={'_get_file_internal'})
    out: T.Set[str] = set()
    for o in flows[q].origins(e) - _R2D_NEUTRAL:
        if not o.startswith('param:'):
            out.add(o)
            continue
        pname = o[len('param:'):]
        if depth >= 3:
            raise Undecided(f'{q}: archive path parameter {pname!r} is handed down through more than three calls')
        a = fn.args
        pos = [x.arg for x in a.posonlyargs + a.args]
        is_method = '.' in q and q.count('.') == 1 and 'staticmethod' not in decorator_names(fn)
        if a.vararg and a.vararg.arg == pname or a.kwarg and a.kwarg.arg == pname or pname not in pos + [x.arg for x in a.kwonlyargs]:
            raise Undecided(f'{q}: archive path comes from the variadic/nested parameter {pname!r}')
        if is_method and pos and pname == pos[0]:
            out.add(o)      # the receiver: state of the object, no verified source
            continue
        if q.count('.') > 1:
            raise Undecided(f'{q}: archive path comes from {pname!r} (parameter of a nested function)')
        short_name = q.split('.')[-1]
        sites: T.List[T.Tuple[str, ast.Call]] = []
        called: T.Set[int] = set()
        for cq, cfn in funcs.items():
            if any(cq.startswith(o2 + '.') for o2 in funcs if o2 != cq):
                continue
            for c in calls_in(cfn, nested=True):
                f = c.func
                hit = (isinstance(f, ast.Attribute) and f.attr == short_name and is_method and attr_chain(f.value) in ('self', 'cls', q.split('.')[0])) \
                    or (isinstance(f, ast.Name) and f.id == short_name and '.' not in q)
                if hit:
                    sites.append((cq, c))
                    called.add(id(f))
        for n_ in ast.walk(mod.tree):
            if id(n_) in called:
                continue
            if (isinstance(n_, ast.Attribute) and n_.attr == short_name and isinstance(n_.ctx, ast.Load)) or \
                    (isinstance(n_, ast.Name) and n_.id == short_name and isinstance(n_.ctx, ast.Load) and '.' not in q):
                raise Undecided(f'{q} is used as a value (`{short(n_)}`): the archive paths it is called with are not all seen')
        if not sites:
            raise Undecided(f'{q}: no call site binds the archive path parameter {pname!r}')
        for cq, c in sites:
            if any(isinstance(x, ast.Starred) for x in c.args) or any(k.arg is None for k in c.keywords):
                raise Undecided(f'{cq}: `{short(c)}` passes */** arguments to {q}')
            plist = pos[1:] if is_method and isinstance(c.func, ast.Attribute) and attr_chain(c.func.value) in ('self', 'cls') else pos
            arg: T.Optional[ast.AST] = None
            if pname in plist and plist.index(pname) < len(c.args):
                arg = c.args[plist.index(pname)]
            else:
                arg = next((k.value for k in c.keywords if k.arg == pname), None)
            if arg is None:
                out.add('default')
                continue
            out |= _archive_origins(mod, cq, arg, flows, depth + 1)
    return out


def r2d(ctx: RuleCtx) -> None:
    mod = ctx.repo.module(WRAP)
    n = 0
    flows: T.Dict[str, Flow] = {}
    for q, fn in mod.funcs().items():
        if any(q.startswith(o + '.') for o in mod.funcs() if o != q):
            continue   # nested functions are visited with their owner
        for c in calls_in(fn, nested=True):
            if call_name(c) in ('shutil.unpack_archive', 'unpack_archive'):
                n += 1
                arch = c.args[0] if c.args else kwarg(c, 'filename')
                o = _archive_origins(mod, q, arch, flows) if arch is not None else set()
                ctx.require(o == {'san:_get_file_internal'}, f'{q}: {short(c)} unpacks a path from _get_file_internal', mod, q, c,
                            f'{short(c)} unpacks an archive whose path comes from {sorted(o)}, not (only) from the verifying _get_file_internal')
    ctx.floor('unpack_archive call sites in wrap.py', n, 1)
    if ctx.thorough:
        others = []
        for rel in ctx.repo.py_files('mesonbuild'):
            if rel != WRAP and 'unpack_archive' in ctx.repo.read(rel):
                others.append(rel)
        ctx.note(f'unpack_archive outside wrap.py (not wrap sources): {others}')


# ---------------------------------------------------------------------------------------------
# R3  nodownload dominates the network

GUARD = 'check_can_download'


def _argv_words(arg: ast.AST, fn: ast.AST) -> T.Set[str]:
    words: T.Set[str] = set()
    lits: T.List[ast.AST] = []
    if isinstance(arg, ast.Name):
        for n in ast.walk(fn):
            if isinstance(n, ast.Assign) and any(isinstance(t, ast.Name) and t.id == arg.id for t in n.targets):
                lits.append(n.value)
            elif isinstance(n, ast.AugAssign) and isinstance(n.target, ast.Name) and n.target.id == arg.id:
                lits.append(n.value)
    else:
        lits.append(arg)
    for l in lits:
        for x in ast.walk(l):
            if isinstance(x, ast.Constant) and isinstance(x.value, str):
                words.add(x.value)
            elif isinstance(x, ast.Name):
                for n in ast.walk(fn):
                    if isinstance(n, ast.Assign) and any(isinstance(t, ast.Name) and t.id == x.id for t in n.targets) \
                            and call_name(n.value) == 'shutil.which' and n.value.args and isinstance(n.value.args[0], ast.Constant):  # type: ignore[attr-defined]
                        words.add('which:' + str(n.value.args[0].value))  # type: ignore[attr-defined]
    return words


def _primitive(c: ast.Call, fn: ast.AST) -> T.Optional[str]:
    name = call_name(c) or ''
    last = name.split('.')[-1]
    if last == 'open_wrapdburl':
        return 'open_wrapdburl'
    if last == 'urlopen':
        return 'urlopen'
    if last in ('verbose_git', 'quiet_git', 'git') and c.args:
        w = _argv_words(c.args[0], fn)
        hit = sorted(w & {'clone', 'fetch', 'pull'})
        return f'git {"/".join(hit)}' if hit else None
    if name.startswith('subprocess.') or last in ('Popen_safe',):
        if not c.args:
            return None
        w = _argv_words(c.args[0], fn)
        if 'which:hg' in w and w & {'clone', 'pull'}:
            return 'hg clone'
        if 'which:svn' in w and w & {'checkout', 'co', 'update'}:
            return 'svn checkout'
        if 'which:sftp' in w:
            return 'sftp'
    return None


def _nodownload_atoms() -> T.Tuple[Atom, ...]:
    return (Atom('is', ('self.wrap_mode', 'WrapMode.nodownload')), tables.canon(_parse('self.wrap_mode == WrapMode.nodownload'), True)[0])


def _unguarded(cfg: CFG, is_guard: T.Callable[[Node], T.Any], dead: T.Set[T.Tuple[int, T.Any]]) -> T.Set[int]:
    """S.unguarded() with the edges in `dead` (test node, label) removed: nodes that can start although no guard has completed"""
    guards = {n.id: g for n in cfg.nodes for g in [is_guard(n)] if g}

    def follow(a: Node, b: Node, lab: T.Any) -> bool:
        if (a.id, lab) in dead:
            return False
        g = guards.get(a.id)
        if g is None:
            return True
        if g in ('T', 'F'):            # an inline test: only its "allowed" edge is guarded
            return lab != (g == 'T')
        return lab == 'exc'
    return cfg.reachable([cfg.entry], edge_ok=follow, include_start=True)


class _Net:
    def __init__(self, mod: Module):
        self.mod = mod
        self.methods = mod.methods(R)
        self.cfgs: T.Dict[str, CFG] = {}
        self.memo: T.Dict[T.Any, T.Dict[T.Tuple[str, str], T.List[str]]] = {}
        self.guard_sites: T.Set[str] = set()
        self._guarding: T.Dict[str, bool] = {}
        self.inline_guards = 0
        self._in_progress: T.Set[str] = set()
        self._swallowed: T.Dict[str, T.Dict[int, str]] = {}
        self._swallow_by_node: T.Dict[int, str] = {}

    def fn_of(self, key: str) -> T.Optional[ast.AST]:
        if key.startswith('self.'):
            return self.methods.get(key[5:])
        f = self.mod.funcs().get(key)
        return f if f is not None and '.' not in key else None

    def cfg(self, key: str) -> CFG:
        if key not in self.cfgs:
            self.cfgs[key] = CFG(self.fn_of(key))  # type: ignore[arg-type]
            self._swallow_by_node.update(self._swallowing_withs(self.fn_of(key)))  # type: ignore[arg-type]
        return self.cfgs[key]

    def _guard_exceptions(self) -> T.Set[str]:
        """names under which a failure of the guard can be caught: the classes check_can_download() raises, their bases as far as this module
        declares them, Exception and BaseException"""
        out = {'Exception', 'BaseException'}
        g = self.methods.get(GUARD)
        todo = [(call_name(r.exc) if isinstance(r.exc, ast.Call) else attr_chain(r.exc)) or '' for r in ast.walk(g) if isinstance(r, ast.Raise) and r.exc is not None] if g is not None else []
        todo = todo or ['WrapException']
        classes = self.mod.classes()
        while todo:
            c = todo.pop().split('.')[-1]
            if c and c not in out:
                out.add(c)
                if c in classes:
                    todo += [attr_chain(b) or '' for b in classes[c].bases]
        return out

    def _swallowing_withs(self, fn: ast.AST) -> T.Dict[int, str]:
        """{id(node inside the body): with-item} for `with` statements that do not let a failure of the guard out of their body:
        contextlib.suppress(<a class the guard's exception is an instance of>).  A suppress() of unrelated builtin exceptions lets it out;
        anything else about suppress(), and a @contextmanager helper of this module that has an except clause, is not read (value '?')."""
        import builtins
        out: T.Dict[int, str] = {}
        caught = self._guard_exceptions()
        for w in ast.walk(fn):
            if not isinstance(w, (ast.With, ast.AsyncWith)):
                continue
            verdict = ''
            for it in w.items:
                c = it.context_expr
                if not isinstance(c, ast.Call):
                    continue
                cn = call_name(c) or ''
                if cn.split('.')[-1] == 'suppress':
                    names = [attr_chain(a) for a in c.args]
                    if any(isinstance(a, ast.Starred) for a in c.args) or None in names or c.keywords:
                        verdict = verdict or '?' + short(c, 60)
                    elif any(x.split('.')[-1] in caught for x in names):  # type: ignore[union-attr]
                        verdict = short(c, 60)
                    elif not all(isinstance(getattr(builtins, x, None), type) and issubclass(getattr(builtins, x), BaseException) for x in names):  # type: ignore[arg-type]
                        verdict = verdict or '?' + short(c, 60)
                else:
                    helper = self.fn_of(cn) if cn.startswith('self.') or '.' not in cn else None
                    if helper is not None and any((attr_chain(d) or '').split('.')[-1] == 'contextmanager' for d in helper.decorator_list) \
                            and any(isinstance(x, ast.ExceptHandler) for x in ast.walk(helper)):
                        verdict = verdict or '?' + short(c, 60)
            if verdict:
                for b in w.body:
                    for x in ast.walk(b):
                        if not out.get(id(x), '?').startswith('?'):
                            continue
                        out[id(x)] = verdict
        return out

    def guarding(self, m: str) -> bool:
        """every normal completion of self.<m>() has passed the guard (so a call of it is as good as the guard)"""
        if m == GUARD:
            return True
        if m not in self.methods or m in self._in_progress:
            return False
        if m not in self._guarding:
            self._in_progress.add(m)
            cfg = self.cfg('self.' + m)
            self._guarding[m] = cfg.exit_return.id not in S.unguarded(cfg, self._is_guard)
            self._in_progress.discard(m)
        return self._guarding[m]

    def _is_guard(self, n: Node) -> T.Any:
        """True: the statement calls the guard (or a helper that always passes it); 'T'/'F': a test of wrap_mode against nodownload
        written inline - the edge with that label is the one on which downloading is known to be allowed"""
        e = n.expr()
        if e is None:
            return False
        if n.kind == 'test':
            a, pol = tables.canon(e, True)
            if a in _nodownload_atoms():
                self.inline_guards += 1
                return 'F' if pol else 'T'
        hit = any(isinstance(c, ast.Call) and self.guarding(S.self_method_called(c) or '') for c in walk_no_nested(e))
        if hit and n.kind == 'stmt':
            sw = self._swallow_by_node.get(id(n.ast))
            if sw is not None and sw.startswith('?'):
                raise Undecided(f'`{short(e, 60)}` runs inside `with {sw[1:]}`, and whether that lets the refusal of check_can_download() out is not read')
            if sw is not None:
                return False        # (the refusal is suppressed: what follows runs whether or not downloading is allowed)
        return hit

    def dispatch_targets(self, c: ast.Call, fn: ast.AST) -> T.Optional[T.List[ast.AST]]:
        """`T[k](..)`, `T.get(k)(..)`, or `f = T[k] / T.get(k[, d])` ... `f(..)` with T a dict display (local, class-level or module-level
        constant): the values of T (and the default d)"""
        f: ast.AST = c.func
        if isinstance(f, ast.Name):
            defs = _assigned(fn, f.id)
            if not defs or any(d is None for d in defs):
                return None
            if len(defs) > 1 or isinstance(defs[0], ast.IfExp) or attr_chain(defs[0]) is not None or isinstance(defs[0], ast.Lambda):
                # a callable selected first, called later: `f = self.a if c else self.b` / `f = self.a ... f = self.b` -> any of them
                outs: T.List[ast.AST] = []
                todo = list(defs)
                while todo:
                    d = todo.pop()
                    if isinstance(d, ast.IfExp):
                        todo += [d.body, d.orelse]
                    elif attr_chain(d) is not None or isinstance(d, ast.Lambda):
                        outs.append(d)
                    else:
                        return None
                return outs
            f = defs[0]
        if isinstance(f, ast.IfExp):
            return [f.body, f.orelse] if all(attr_chain(x) is not None or isinstance(x, ast.Lambda) for x in (f.body, f.orelse)) else None
        extra: T.List[ast.AST] = []
        if isinstance(f, ast.Subscript):
            tab: ast.AST = f.value
        elif isinstance(f, ast.Call) and isinstance(f.func, ast.Attribute) and f.func.attr == 'get' and 1 <= len(f.args) <= 2:
            tab = f.func.value
            extra = [a for a in f.args[1:] if not (isinstance(a, ast.Constant) and a.value is None)]
        else:
            return None
        disp: T.Optional[ast.AST] = None
        if isinstance(tab, ast.Dict):
            disp = tab
        elif isinstance(tab, ast.Name):
            defs = _assigned(fn, tab.id)
            if len(defs) == 1 and isinstance(defs[0], ast.Dict):
                disp = defs[0]
            elif not defs and self.mod.has_assign(tab.id):
                disp = self.mod.assign_value(tab.id)
        elif isinstance(tab, ast.Attribute) and isinstance(tab.value, ast.Name) and tab.value.id in ('self', 'cls', R):
            cls = self.mod.cls(R)
            if self.mod.has_assign(tab.attr, cls):
                disp = self.mod.assign_value(tab.attr, cls)
        if not isinstance(disp, ast.Dict):
            return None
        return [v for v in disp.values if v is not None] + extra

    Bind = T.FrozenSet[T.Tuple[str, T.Any]]

    def flag_binding(self, callee: ast.AST, c: ast.Call) -> 'Bind':
        """call-site specialisation: the parameters of `callee` that this call binds to a literal True/False/None (given, or left to such a
        default) and that the callee never rebinds.  Inside the callee a test of such a parameter has one live edge only."""
        a = callee.args  # type: ignore[attr-defined]
        if a.vararg or a.kwarg or any(isinstance(x, ast.Starred) for x in c.args) or any(k.arg is None for k in c.keywords):
            return frozenset()
        params = [p.arg for p in a.posonlyargs + a.args]
        if params and params[0] in ('self', 'cls') and isinstance(c.func, ast.Attribute):
            params = params[1:]
        defaults: T.Dict[str, ast.AST] = dict(zip(reversed([p.arg for p in a.posonlyargs + a.args]), reversed(a.defaults)))
        defaults.update({p.arg: d for p, d in zip(a.kwonlyargs, a.kw_defaults) if d is not None})
        given: T.Dict[str, ast.AST] = dict(zip(params, c.args))
        given.update({T.cast(str, k.arg): k.value for k in c.keywords})
        out = set()
        for p in params + [x.arg for x in a.kwonlyargs]:
            v = given.get(p, defaults.get(p))
            if isinstance(v, ast.Constant) and (v.value is None or isinstance(v.value, bool)) and not _assigned(callee, p) \
                    and not any(isinstance(x, (ast.Global, ast.Nonlocal)) or (isinstance(x, ast.Name) and x.id == p and isinstance(x.ctx, (ast.Store, ast.Del)))
                                for x in ast.walk(callee)):
                out.add((p, v.value))
        return frozenset(out)

    @staticmethod
    def dead_edges(cfg: CFG, bind: 'Bind') -> T.Set[T.Tuple[int, T.Any]]:
        """(test node, edge label) pairs that cannot be taken when the parameters in `bind` have their literal values: plain tests
        `p`, `not p`, `p is/== True/False/None` (anything compound keeps both edges)"""
        vals = dict(bind)
        lit = {'True': True, 'False': False, 'None': None}
        dead: T.Set[T.Tuple[int, T.Any]] = set()
        for n in cfg.nodes:
            if n.kind != 'test' or not vals:
                continue
            a, pol = tables.canon(n.expr(), True)  # type: ignore[arg-type]
            v: T.Optional[bool] = None
            if a.kind == 'truth' and a.args[0] in vals:
                v = bool(vals[a.args[0]])
            elif a.kind in ('is', 'cmp'):
                x, y = a.args[-2:]
                if a.kind == 'cmp' and a.args[0] != 'eq':
                    continue
                if y in vals and x in lit:
                    x, y = y, x
                if x in vals and y in lit:
                    v = vals[x] is lit[y]
            if v is not None:
                dead.add((n.id, not (v == pol)))
        return dead

    def sites(self, key: str, unguarded_only: bool, busy: T.FrozenSet[T.Any] = frozenset(), bind: 'Bind' = frozenset()) -> T.Dict[T.Tuple[str, str], T.List[str]]:
        """primitive sites {(function, call text): call chain} reachable from the entry of `key`
        (all of them, or only those that can start before any guard completed), `key` being entered with the flag parameters in `bind`
        bound to literals by the call site."""
        mk = (key, unguarded_only, bind)
        if mk in self.memo:
            return self.memo[mk]
        if (key, bind) in busy:
            return {}
        fn = self.fn_of(key)
        cfg = self.cfg(key)
        dead = self.dead_edges(cfg, bind)
        if unguarded_only:
            live = _unguarded(cfg, self._is_guard, dead)
        else:
            live = cfg.reachable([cfg.entry], edge_ok=lambda a, b, lab: (a.id, lab) not in dead, include_start=True)
        out: T.Dict[T.Tuple[str, str], T.List[str]] = {}
        for n in cfg.nodes:
            if n.expr() is not None and any(isinstance(c, ast.Call) and S.self_method_called(c) == GUARD for c in walk_no_nested(n.expr())) \
                    and n.id in cfg.reachable([cfg.entry], include_start=True):
                self.guard_sites.add(f'{key[5:] if key.startswith("self.") else key}')
            if n.id not in live:
                continue
            e = n.expr()
            if e is None:
                continue
            todo: T.List[ast.AST] = [c for c in walk_no_nested(e) if isinstance(c, ast.Call)]
            while todo:
                c = todo.pop()
                if not isinstance(c, ast.Call):
                    continue
                p = _primitive(c, fn)  # type: ignore[arg-type]
                if p:
                    out.setdefault((key, f'{p}: {short(c, 90)}'), [key])
                    continue
                m = S.self_method_called(c)
                callees: T.List[str] = []
                if m and m != GUARD and m in self.methods:
                    callees.append('self.' + m)   # (a guarding callee is entered unguarded too: its own guard is inside)
                elif isinstance(c.func, ast.Name) and self.fn_of(c.func.id) is not None:
                    callees.append(c.func.id)
                else:
                    # a call through a constant dispatch table: every entry of the table may be the callee (finite declared domain)
                    for v in self.dispatch_targets(c, fn) or []:  # type: ignore[arg-type]
                        if isinstance(v, ast.Call) and (call_name(v) or '').split('.')[-1] == 'partial' and v.args:
                            v = v.args[0]               # functools.partial(f, ...) calls f
                        if isinstance(v, ast.Lambda):
                            todo.extend(x for x in ast.walk(v.body) if isinstance(x, ast.Call))
                        elif (attr_chain(v) or '').startswith('self.') and (attr_chain(v) or '')[5:] in self.methods:
                            callees.append(attr_chain(v) or '')
                        elif isinstance(v, ast.Name) and self.fn_of(v.id) is not None:
                            callees.append(v.id)
                for callee in callees:
                    cb = self.flag_binding(self.fn_of(callee), c) if (S.self_method_called(c) and 'self.' + (S.self_method_called(c) or '') == callee
                                                                      or isinstance(c.func, ast.Name) and c.func.id == callee) else frozenset()
                    for site, chain in self.sites(callee, unguarded_only, busy | {(key, bind)}, cb).items():
                        out.setdefault(site, [key] + chain)
        if not busy:
            self.memo[mk] = out
        return out


def r3(ctx: RuleCtx) -> None:
    mod = ctx.repo.module(WRAP)
    net = _Net(mod)
    entries = ['self.resolve']
    if ctx.thorough:
        # every Resolver method that another module of the package calls on a resolver object
        ext: T.Set[str] = set()
        for rel in ctx.repo.py_files('mesonbuild'):
            if rel == WRAP or 'esolver' not in ctx.repo.read(rel):
                continue
            m2 = ctx.repo.module(rel)
            bound = {t.id for n in ast.walk(m2.tree) if isinstance(n, ast.Assign) and (call_name(n.value) or '').split('.')[-1] == R
                     for t in n.targets if isinstance(t, ast.Name)}
            for c in ast.walk(m2.tree):
                if isinstance(c, ast.Call) and isinstance(c.func, ast.Attribute) and c.func.attr in net.methods:
                    recv = attr_chain(c.func.value) or ''
                    if 'resolver' in recv.split('.')[-1].lower() or recv in bound:
                        ext.add(c.func.attr)
        entries += sorted('self.' + m for m in ext if m not in ('resolve', GUARD))
        ctx.note(f'entry points called from other modules: {sorted(ext)}')
    total = 0
    for ent in entries:
        every = net.sites(ent, False)
        open_ = net.sites(ent, True)
        if ent == 'self.resolve':
            total = len(every)
        for site, chain in every.items():
            bad = open_.get(site)
            what = f'{ent[5:]}() -> {site[0].replace("self.", "")}: {site[1]}'
            ctx.require(bad is None, f'{what} only after check_can_download() [{" -> ".join(x.replace("self.", "") for x in chain)}]', mod,
                        f'{R}.{site[0][5:]}' if site[0].startswith('self.') else site[0], site[1],
                        f'{site[1]} is reachable from {R}.{ent[5:]}() without check_can_download() having completed: '
                        f'{" -> ".join(x.replace("self.", "") for x in (bad or []))}')
    kinds = {site[1].split(':')[0].split()[0] for site in net.sites('self.resolve', False)}
    ctx.floor('kinds of network primitive reachable from resolve() (wrapdb, urlopen, sftp, git, hg, svn)', len(kinds), 6)
    ctx.floor('functions on those chains that call check_can_download()', len(net.guard_sites) + net.inline_guards, 1)
    ctx.note(f'guards in: {sorted(net.guard_sites)}')
    # the guard itself
    qn = f'{R}.{GUARD}'
    if not mod.has_func(qn):
        ctx.note('check_can_download() is not a method any more; inline tests of wrap_mode were used as the guard')
        return
    g = _fn(mod, qn)
    ND = _nodownload_atoms()
    n_pass = 0
    for sp in sympaths(g):
        conds = {a: v for a, v, _ in sp.conds()}
        nd = [conds[a] for a in ND if a in conds]
        if sp.path.outcome == 'raise':
            ctx.require(bool(nd) and all(nd), 'check_can_download raises under wrap_mode=nodownload', mod, qn, f'raising path: {short(sp.path.describe(), 160)}',
                        f'check_can_download raises on `{short(sp.path.describe(), 160)}`, which is not (only) wrap_mode=nodownload')
        else:
            n_pass += 1
            ctx.require(bool(nd) and not any(nd), 'check_can_download completes only when wrap_mode is not nodownload', mod, qn,
                        f'completing path: {short(sp.path.describe(), 160)}',
                        f'check_can_download completes on the path `{short(sp.path.describe(), 160)}` without having established wrap_mode is not nodownload')
    ctx.floor('completing paths of check_can_download', n_pass, 1)
    # built-in positive example: the detector recognises an unguarded primitive
    demo = ast.parse('class Resolver:\n def resolve(self):\n  self.a()\n def a(self):\n  if self.x:\n   self.check_can_download()\n  verbose_git(["clone", u], d)\n').body[0]
    dm = Module.__new__(Module)
    dm.rel, dm._funcs, dm._classes = '<demo>', {'Resolver.' + f.name: f for f in demo.body}, {'Resolver': demo}  # type: ignore[attr-defined,union-attr]
    dn = _Net(dm)
    if len(dn.sites('self.resolve', True)) != 1:
        raise Undecided('R3 self-check: the unguarded clone of the built-in example was not recognised')


# ---------------------------------------------------------------------------------------------
# R4  half-prepared directories are removed

STEPS = ('apply_patch', 'apply_diff_files')
ACQUIRE = ('_get_file', '_get_git', '_get_hg', '_get_svn', 'copy_tree')


def _is_unpack(c: ast.Call) -> bool:
    """the in-process unpack primitive (the `unpack` step of fetch -> verify -> unpack -> patch -> diff), as R2d reads it"""
    return call_name(c) in ('shutil.unpack_archive', 'unpack_archive')


def _is_dirname(e: ast.AST, fn: ast.AST) -> bool:
    """self.dirname, a local bound once to it, or str()/Path()/os.fspath() of either"""
    if isinstance(e, ast.Call) and len(e.args) == 1 and not e.keywords and (call_name(e) or '').split('.')[-1] in ('str', 'Path', 'fspath', 'abspath'):
        e = e.args[0]
    if attr_chain(e) == 'self.dirname':
        return True
    if isinstance(e, ast.Name):
        defs = _assigned(fn, e.id)
        return len(defs) == 1 and defs[0] is not None and attr_chain(defs[0]) == 'self.dirname'
    return False


def _cleanup_problems(cfg: CFG, n: Node, fn: ast.AST) -> T.Tuple[T.List[str], T.List[str]]:
    """(why a failure of the statement at `n` does not end in `remove self.dirname; re-raise` inside this function ([] = it does),
    constructs around it that could do the clean-up in a way this rule does not read)"""
    rm = cfg.nodes_with_call(lambda c: 'rmtree' in (call_method(c) or '') and bool(c.args) and _is_dirname(c.args[0], fn))
    unread: T.List[str] = []
    for w in ast.walk(fn):
        if isinstance(w, (ast.With, ast.AsyncWith)) and any(x is n.ast or x is n.expr() for b in w.body for x in ast.walk(b)):
            for it in w.items:
                c = it.context_expr
                if not (isinstance(c, ast.Call) and (call_name(c) or '').split('.')[0] in ('open', 'tempfile', 'contextlib', 'DirectoryLock')):
                    unread.append(f'with {short(c, 50)}')

    def broad(h: Node) -> bool:
        return h.ast.type is None or attr_chain(h.ast.type) in ('Exception', 'BaseException')  # type: ignore[union-attr]
    heads = [cfg.nodes[b] for b, lab in cfg.succ[n.id] if lab == 'exc' and cfg.nodes[b].kind == 'handler']
    if not any(broad(h) for h in heads):
        return ['is not inside a try that catches Exception: a failing step leaves the freshly unpacked directory behind'], unread

    def within_scope(a: Node, b: Node, lab: T.Any) -> bool:
        # an exception edge straight to the exit next to one into an `except Exception` models BaseException only (not decided)
        return not (lab == 'exc' and b.id == cfg.exit_raise.id and any(
            l2 == 'exc' and cfg.nodes[c2].kind == 'handler' and broad(cfg.nodes[c2]) for c2, l2 in cfg.succ[a.id]))
    problems = []
    for h in heads:
        name = f'handler `except {short(h.ast.type) if h.ast.type is not None else ""}`'  # type: ignore[union-attr]
        esc = cfg.reachable([h], avoid=rm, edge_ok=within_scope)
        if cfg.exit_raise.id in esc or cfg.exit_return.id in esc:
            problems.append(f'{name} can be left without removing self.dirname')
            raised = {id(r.exc) for r in ast.walk(h.ast) if isinstance(r, ast.Raise) and isinstance(r.exc, ast.Call) and isinstance(r.exc.func, ast.Name)
                      and r.exc.func.id.endswith(('Exception', 'Error'))}     # `raise SomeException(..)`: builds the exception, cleans nothing
            for c in calls_in(h.ast, nested=True):     # a call in the handler that is neither the removal nor logging may be the clean-up
                if id(c) in raised:
                    continue
                cn = call_name(c) or short(c.func, 30)
                understood_rm = 'rmtree' in cn and c.args and (_is_dirname(c.args[0], fn) or attr_chain(c.args[0]) is not None and '.' in (attr_chain(c.args[0]) or ''))
                if not (cn.startswith('mlog.') or cn in ('str', 'repr', 'print', 'format') or understood_rm):
                    unread.append(f'{cn}(..) in the handler')
        elif cfg.exit_return.id in cfg.reachable([h]):
            problems.append(f'{name} swallows the failure instead of re-raising')
    return problems, unread


_R4_EXAMPLE = '''
def loose(self, p, d):
    try:
        shutil.unpack_archive(p, d)
    except OSError as e:
        raise WrapException(str(e)) from e
def tight(self, p, d):
    try:
        shutil.unpack_archive(p, d)
    except Exception as e:
        windows_proof_rmtree(self.dirname)
        raise WrapException(str(e)) from e
'''


def _r4_example() -> None:
    """built-in example: a narrow handler without removal is reported, `except Exception: remove self.dirname; raise X from e` is not"""
    got = {}
    for f in ast.parse(_R4_EXAMPLE).body:
        cfg = CFG(f)                     # type: ignore[arg-type]
        (n,) = cfg.nodes_with_call(_is_unpack)
        got[f.name] = _cleanup_problems(cfg, n, f)       # type: ignore[attr-defined]
    if not got['loose'][0] or got['tight'] != ([], []):
        raise AssertionError(f'R4: the built-in example is not read as intended: {got}')


def r4(ctx: RuleCtx) -> None:
    _r4_example()
    mod = ctx.repo.module(WRAP)
    qn = f'{R}._resolve'
    meths = mod.methods(R)
    cfgs: T.Dict[str, CFG] = {}
    fns: T.Dict[str, T.Any] = {}
    unsure: T.List[str] = []
    leaves: T.Dict[int, T.Tuple[str, ast.Call]] = {}
    Open = T.List[T.Tuple[T.List[str], ast.Call, str, T.List[str]]]      # call chain, step call, function of the step, why unprotected

    def unprotected(m: str, busy: T.FrozenSet[str]) -> Open:
        """patch/diff steps that a call of self.<m>() can run without a cleanup handler of <m> (or of a callee on the way) around them"""
        if m not in cfgs:
            fns[m] = _fn(mod, f'{R}.{m}')           # (extracted helpers expanded, loops over constant tuples of methods unrolled)
            cfgs[m] = CFG(fns[m])
        cfg = cfgs[m]
        out: Open = []
        for n in cfg.nodes:
            e = n.expr()
            if e is None:
                continue
            for c in [c for c in walk_no_nested(e) if isinstance(c, ast.Call)]:
                k = S.self_method_called(c)
                if k in STEPS or _is_unpack(c):      # (an unpack inside a patch/diff step belongs to that step: STEPS are not entered)
                    leaves[id(c)] = (m, c)
                    inner: Open = [([], c, m, [])]
                elif k in meths and k != m and k not in busy:
                    inner = unprotected(k, busy | {m})
                else:
                    continue
                if not inner:
                    continue
                problems, unread = _cleanup_problems(cfg, n, fns[m])
                if problems:
                    unsure.extend(unread)
                    out.extend(([m] + ch, leaf, where, why or problems) for ch, leaf, where, why in inner)
        return out
    bad = {id(leaf): (chain, where, why) for chain, leaf, where, why in unprotected('_resolve', frozenset())}
    if bad and unsure:
        raise Undecided(f'{qn}: no clean-up recognised around a patch/diff step, but {sorted(set(unsure))} could be one')
    n_unpack = 0
    for lid, (where, c) in leaves.items():
        unpack = _is_unpack(c)
        n_unpack += unpack
        if lid in bad:
            chain, _, why = bad[lid]
            if unpack:      # keyed without the names of the locals that hold archive and destination
                ctx.violation(mod, f'{R}.{where}', f'{call_name(c)}(..) of the source archive', f'{short(c)} (reached by {" -> ".join(chain)}) ' + '; '.join(why)
                              + ': an unpack that fails half-way (archive truncated before its hash was recorded, I/O error, disk full) leaves a partly unpacked '
                              'self.dirname, and when the build file was already written the next run accepts it through the first build-file test of _resolve', c)
            else:
                ctx.violation(mod, f'{R}.{where}', c, f'{short(c)} (reached by {" -> ".join(chain)}) ' + '; '.join(why), c)
        else:
            ctx.ok(f'{where}: {short(c)}: failure -> remove self.dirname -> re-raise, on every call chain from _resolve')
    ctx.floor('patch/diff steps reachable from _resolve', len(leaves) - n_unpack, 2)
    fn = _fn(mod, qn)
    cfg = CFG(fn)
    # observation (not armed): the other acquisition steps (external VCS programs, copy from the extracted-package cache) outside the cleanup.
    # The property lists fetch -> verify -> unpack -> patch -> diff of *archives*; what a failing git/hg/svn leaves behind is not readable here.
    acq = cfg.nodes_with_call(lambda c: S.self_method_called(c) in ACQUIRE and S.self_method_called(c) != '_get_file')
    loose = [short(n.expr(), 50) for n in acq if not any(lab == 'exc' and cfg.nodes[b].kind == 'handler' for b, lab in cfg.succ[n.id])]
    if loose:
        ctx.note(f'INFORMATION (not a violation; the clause covers the unpack/patch/diff steps of an archive): a failure inside {loose} also happens outside a '
                 'cleanup handler, so what the external program (or the interrupted copy) wrote under self.dirname stays and a later run accepts it through the '
                 'first build-file test when the build file is already there.  Witness (probe, outside the check): [wrap-git] url = file://<repo>, revision = <a name that does not exist>: '
                 "run 1 ERROR 'Git command failed: fetch', subprojects/<dir> keeps the clone of the default branch; run 2 configures it, found() is true (wrong revision).")
    if not n_unpack:
        unpack_unread = ('no unpack_archive call is reached from _resolve outside the patch/diff steps: the source archive is unpacked by something this rule does not '
                         'read, the clause "a failed unpack removes self.dirname and re-raises" is not decided')
        ctx.note('NOT DECIDED: ' + unpack_unread)
    others = sorted(f'{name}' for name, m in meths.items() for c in calls_in(m, nested=True)
                    if S.self_method_called(c) in STEPS and id(c) not in leaves)
    if others:
        ctx.note(f'patch/diff steps in Resolver methods that _resolve does not reach (not part of the clause): {others}')
    # every return of _resolve is gated by the build-file test.  The test is found by its role: a call of a function (closure of
    # _resolve, method of Resolver, module function) that tests the existence of a file under self.dirname, or such a test written inline.
    EXISTS = ('exists', 'isfile', 'is_file')

    def gate_fn(c: ast.Call) -> T.Optional[T.Tuple[str, ast.AST]]:
        m = S.self_method_called(c)
        if m and m in meths:
            return f'{R}.{m}', meths[m]
        if isinstance(c.func, ast.Name):
            for q in (f'{R}._resolve.{c.func.id}', c.func.id):
                if mod.has_func(q):
                    return q, mod.func(q)
        return None

    def is_gate(c: ast.Call) -> T.Optional[bool]:
        """True: build-file test; False: something else; None: cannot tell"""
        if call_method(c) in EXISTS:
            subj = c.args[0] if c.args else (c.func.value if isinstance(c.func, ast.Attribute) else c)
            for _ in range(3):                  # a path computed once into a local
                if isinstance(subj, ast.Name):
                    defs = _assigned(fn, subj.id)
                    if len(defs) == 1 and defs[0] is not None:
                        subj = defs[0]
                        continue
                break
            if isinstance(subj, ast.Call) and len(subj.args) == 1 and not subj.keywords:
                subj = subj.args[0]             # Path(x) / str(x)
            # a file *under* the directory, not the directory itself
            return attr_chain(subj) != 'self.dirname' and any(attr_chain(x) == 'self.dirname' for x in ast.walk(subj))
        g = gate_fn(c)
        if g is None:
            return False
        body = g[1]
        if not any(isinstance(x, ast.Call) and call_method(x) in EXISTS for x in ast.walk(body)):
            return False
        reads = {attr_chain(x) for x in ast.walk(body) if isinstance(x, ast.Attribute)}
        if 'self.dirname' in reads or any(attr_chain(x) == 'self.dirname' for a in list(c.args) + [k.value for k in c.keywords] for x in ast.walk(a)):
            return True
        return None
    tests: T.Dict[int, bool] = {}
    unclear: T.List[str] = []
    gates: T.Set[str] = set()
    for n in cfg.nodes:
        if n.kind != 'test':
            continue
        verdicts = {id(c): is_gate(c) for c in walk_no_nested(n.expr()) if isinstance(c, ast.Call)}  # type: ignore[arg-type]
        if None in verdicts.values():
            unclear.append(short(n.expr()))
        if True not in verdicts.values():
            continue
        a, pol = tables.canon(n.expr(), True)  # type: ignore[arg-type]
        e = _parse(a.args[0]) if a.kind == 'truth' else None
        if not (isinstance(e, ast.Call) and is_gate(e)):
            raise Undecided(f'_resolve: build-file test {short(n.expr())} is not a plain (negated) existence test')
        tests[n.id] = pol
        gates.add(a.args[0])
    if not tests:
        raise Undecided('_resolve: no test recognised as "the build file exists under self.dirname"')
    ctx.floor('build-file tests in _resolve', len(tests), 1)
    live = cfg.reachable([cfg.entry], edge_ok=lambda a, b, lab: not (a.id in tests and lab == tests[a.id]), include_start=True)
    n_ret = 0
    for n in cfg.nodes:
        if n.kind == 'stmt' and isinstance(n.ast, ast.Return):
            n_ret += 1
            if n.id in live and unclear:
                raise Undecided(f'_resolve: `{short(n.ast)}` is not behind a recognised build-file test, but {unclear} could be one')
            ctx.require(n.id not in live, f'`{short(n.ast)}` only after {sorted(gates)} held', mod, qn, n.ast,
                        f'`{short(n.ast)}` can be reached on a path on which none of the build-file tests {sorted(gates)} was taken with the outcome "exists": '
                        'a directory without build file is accepted', n.ast)
    ctx.floor('returns of _resolve', n_ret, 1)
    if ctx.thorough:
        ext = []
        for rel in ctx.repo.py_files('mesonbuild'):
            if rel == WRAP:
                continue
            src = ctx.repo.read(rel)
            if 'apply_patch' in src or 'apply_diff_files' in src:
                m2 = ctx.repo.module(rel)
                for q, f in m2.funcs().items():
                    for c in calls_in(f):
                        if call_method(c) in STEPS:
                            ext.append(f'{rel}:{c.lineno} {q}')
        ctx.note(f'not armed: patch/diff re-applied to an existing checkout outside the cleanup try (meson subprojects update/packagefiles): {ext}')
    if not n_unpack:
        raise Undecided(f'{qn}: ' + unpack_unread)


# ---------------------------------------------------------------------------------------------
# R5  what is applied after (or rewritten during) the lookup is not part of the lookup key

DETECT = 'mesonbuild/dependencies/detect.py'
INTERP = 'mesonbuild/interpreter/interpreter.py'


def _const_key(e: ast.AST, holder: T.Set[str]) -> T.Optional[str]:
    """`d['k']` / `d.get('k'..)` with d one of the names in `holder` -> 'k'"""
    if isinstance(e, ast.Subscript) and isinstance(e.value, ast.Name) and e.value.id in holder and isinstance(e.slice, ast.Constant) and isinstance(e.slice.value, str):
        return e.slice.value
    if isinstance(e, ast.Call) and isinstance(e.func, ast.Attribute) and e.func.attr == 'get' and isinstance(e.func.value, ast.Name) and e.func.value.id in holder \
            and e.args and isinstance(e.args[0], ast.Constant) and isinstance(e.args[0].value, str):
        return e.args[0].value
    return None


def r5(ctx: RuleCtx) -> None:
    from ..consteval import fold_expr
    dmod = ctx.repo.module(DETECT)
    imod = ctx.repo.module(INTERP)
    fmod = ctx.repo.module(DF)
    # (1) keyword arguments that Interpreter.func_dependency reads again once lookup() has returned (post-processing of the result), and
    #     keyword arguments that are rewritten in the dict the identifier is computed from
    fd = imod.func('Interpreter.func_dependency')
    cfg = CFG(fd)
    fl = Flow(fd)
    look = [n for n in cfg.nodes_with_call(lambda c: call_method(c) == 'lookup' and isinstance(c.func, ast.Attribute) and isinstance(c.func.value, ast.Name)
                                           and any(call_method(d) == H for d in _assigned(fd, c.func.value.id) if d is not None))]
    if len(look) != 1:
        raise Undecided(f'func_dependency: {len(look)} calls of {H}.lookup found')
    call = [c for c in walk_no_nested(look[0].expr()) if isinstance(c, ast.Call) and call_method(c) == 'lookup'][0]  # type: ignore[arg-type]
    passed = call.args[0] if call.args else None
    params = {a.arg for a in fd.args.args}
    holder = {o.split(':', 1)[1] for o in (fl.origins(passed) if passed is not None else set()) if o.startswith('param:')} & params - {'self'}
    if isinstance(passed, ast.Name):
        holder_all = holder | {passed.id}
    else:
        holder_all = set(holder)
    if not holder:
        raise Undecided('func_dependency: the dict handed to lookup() does not come from a parameter')
    after = cfg.reachable([look[0]])
    why: T.Dict[str, str] = {}
    for nid in after:
        e = cfg.nodes[nid].expr()
        if e is None:
            continue
        for x in walk_no_nested(e):
            k = _const_key(x, holder_all)
            if k and isinstance(getattr(x, 'ctx', ast.Load()), ast.Load):
                why.setdefault(k, f'func_dependency reads it after lookup() returned ({short(x)})')
            if isinstance(x, ast.Name) and isinstance(x.ctx, ast.Load):
                for d in _assigned(fd, x.id):
                    k2 = _const_key(d, holder_all) if d is not None else None
                    if k2:
                        why.setdefault(k2, f'func_dependency uses `{x.id}` (= {short(d)}) after lookup() returned')
    for n in ast.walk(fd):
        if isinstance(n, ast.Assign):
            for t in n.targets:
                k = _const_key(t, holder_all)
                if k:
                    why.setdefault(k, f'func_dependency rewrites it before the lookup ({short(n)})')
    for name, m in fmod.methods(H).items():
        mp = {a.arg for a in m.args.args}
        keyed = {c.args[1].id for c in calls_in(m, nested=True) if call_method(c) == 'get_dep_identifier' and len(c.args) == 2 and isinstance(c.args[1], ast.Name) and c.args[1].id in mp}
        for n in ast.walk(m):
            if isinstance(n, ast.Assign):
                for t in n.targets:
                    k = _const_key(t, keyed)
                    if k:
                        why.setdefault(k, f'{H}.{name} rewrites it between candidates ({short(n)})')
    ctx.floor('keyword arguments applied after / rewritten during the lookup', len(why), 1)
    # (2) get_dep_identifier: for such a keyword no path of the loop over the keyword arguments may put it into the identifier
    gi = dmod.func('get_dep_identifier')
    loops = [n for n in ast.walk(gi) if isinstance(n, ast.For) and isinstance(n.iter, ast.Call) and call_method(n.iter) == 'items'
             and isinstance(n.target, ast.Tuple) and len(n.target.elts) == 2 and isinstance(n.target.elts[0], ast.Name)]
    if len(loops) != 1:
        raise Undecided(f'get_dep_identifier: {len(loops)} loops over the items of the keyword arguments')
    keyvar = loops[0].target.elts[0].id  # type: ignore[attr-defined]
    rets = [n for n in walk_no_nested(gi) if isinstance(n, ast.Return) and isinstance(n.value, ast.Name)]
    if len(rets) != 1:
        raise Undecided('get_dep_identifier: result is not a single named value')
    ident = rets[0].value.id  # type: ignore[union-attr]
    paths = sympaths(gi, loops[0].body)

    def verdict(atom: Atom, val: bool, k: str) -> T.Optional[bool]:
        """is the condition `atom == val` consistent with key == k?  None: the atom does not speak about the key"""
        if atom.kind == 'in' and atom.args[0] == keyvar:
            c = fold_expr(ctx.repo, dmod, _parse(atom.args[1]))
            if not isinstance(c, (set, frozenset, tuple, list, dict)):
                raise Undecided(f'get_dep_identifier: cannot fold {atom.args[1]}')
            return (k in c) == val
        if atom.kind == 'cmp' and atom.args[0] == 'eq' and keyvar in atom.args[1:]:
            other = [x for x in atom.args[1:] if x != keyvar]
            c = fold_expr(ctx.repo, dmod, _parse(other[0])) if other else None
            if not isinstance(c, str):
                raise Undecided(f'get_dep_identifier: cannot fold {other}')
            return (k == c) == val
        if keyvar in {n.id for n in ast.walk(_parse(atom.args[0] if atom.kind != 'cmp' else atom.args[1])) if isinstance(n, ast.Name)}:
            raise Undecided(f'get_dep_identifier: test on the key not understood: {atom!r}')
        return None
    for k, reason in sorted(why.items()):
        bad = None
        for sp in paths:
            conds = [(a, v) for a, v, _ in sp.conds()]
            if any(verdict(a, v, k) is False for a, v in conds):
                continue
            writes = [st for st, _ in sp.stmts() if isinstance(st, (ast.Assign, ast.AugAssign)) and
                      any(attr_chain(t) == ident for t in (st.targets if isinstance(st, ast.Assign) else [st.target]))]
            if writes:
                bad = (sp, writes[0])
                break
        ctx.require(bad is None, f'{k!r} is left out of the dependency identifier ({reason})', dmod, 'get_dep_identifier', f'identifier includes {k!r}',
                    f'the identifier under which found and overridden dependencies are stored includes the keyword {k!r} '
                    f'(path `{short(bad[0].path.describe(), 160) if bad else ""}`), but {reason}: a result stored for one value of it is not found again with another',
                    bad[1] if bad else None)


# ---------------------------------------------------------------------------------------------
# R6  a placeholder for "no version" never satisfies a version constraint on the cached path either

DBASE = 'mesonbuild/dependencies/base.py'


def r6(ctx: RuleCtx) -> None:
    bmod = ctx.repo.module(DBASE)
    fmod = ctx.repo.module(DF)
    # the placeholders: string constants that Dependency.get_version() returns instead of a version
    gv = bmod.func('Dependency.get_version')
    place: T.Dict[str, str] = {}
    for sp in sympaths(gv):
        v = sp.value()
        if sp.path.outcome == 'return' and isinstance(v, ast.Constant) and isinstance(v.value, str):
            place[v.value] = f'Dependency.get_version() returns {v.value!r} on `{short(sp.path.describe(), 80)}`'
        elif sp.path.outcome == 'return' and not (v is not None and norm(v) == 'self.version'):
            raise Undecided(f'Dependency.get_version: return value {short(v)} not understood')
    # the system path: ExternalDependency._check_version compares self.version with the constraints only when there is a version
    qe = 'ExternalDependency._check_version'
    if bmod.has_func(qe):
        ext = bmod.func(qe)
        n_cmp = 0
        seen_e: T.Set[str] = set()
        for sp in sympaths(ext):
            for o, sc, i in sp.calls():
                if call_method(o) != 'version_compare_many' or not sc.args or norm(sc.args[0]) != 'self.version':
                    continue
                n_cmp += 1
                before = {a: v for a, v, j in sp.conds() if j <= i}
                has = before.get(_truth('self.version'), before.get(_truth('bool(self.version)')))
                none = before.get(Atom('is', ('self.version', 'None')))
                key = f'{has}|{none}'
                if key in seen_e:
                    continue
                seen_e.add(key)
                if has is True:
                    ctx.ok('ExternalDependency._check_version compares versions only when self.version is non-empty')
                elif none is False and has is None:
                    ctx.violation(bmod, qe, 'version_compare_many(self.version, ...) after `self.version is not None`',
                                  f'on the path `{short(sp.path.describe(), 140)}` an empty version string reaches version_compare_many(): only None counts as unknown, '
                                  "so '' satisfies upper-bound constraints such as '<2.0' and the system dependency is accepted", o)
                else:
                    raise Undecided(f'{qe}: the comparison is reached without a test of self.version this rule reads ({sorted(map(repr, before))[:4]})')
        if n_cmp == 0:
            raise Undecided(f'{qe}: no comparison of self.version with the constraints found')
    if not place:
        ctx.ok('Dependency.get_version() has no placeholder for a missing version', nontrivial=False)
        return
    qn = f'{H}._check_version'
    fn = _fn(fmod, qn)
    paths = sympaths(fn)

    def consistent(a: Atom, val: bool, s: str) -> T.Optional[bool]:
        """is `atom == val` consistent with: a constraint is given and found == s?"""
        if a == _truth('ARG1'):
            return val
        if a.kind == 'cmp' and a.args[0] == 'eq' and 'ARG2' in a.args[1:]:
            other = [x for x in a.args[1:] if x != 'ARG2']
            c = _parse(other[0]) if other else None
            if not isinstance(c, ast.Constant):
                raise Undecided(f'{qn}: comparison of the found version with {other} not understood')
            return (c.value == s) == val
        if a.kind == 'in' and a.args[0] == 'ARG2':
            c = _parse(a.args[1])
            if not (isinstance(c, (ast.Tuple, ast.Set, ast.List)) and all(isinstance(x, ast.Constant) for x in c.elts)):
                raise Undecided(f'{qn}: membership test {a!r} not understood')
            return (s in [x.value for x in c.elts]) == val  # type: ignore[attr-defined]
        if a.kind == 'truth' and 'version_compare_many(ARG2' in a.args[0]:
            return None            # what the comparison of a placeholder with the constraints gives is exactly what must not matter
        raise Undecided(f'{qn}: test {a!r} not understood')
    for s_, why in sorted(place.items()):
        bad = None
        for sp in paths:
            conds = [(a, v) for a, v, _ in sp.conds()]
            verdicts = [consistent(a, v, s_) for a, v in conds]
            if any(x is False for x in verdicts):
                continue
            out = sp.outcome()
            if out != ('return', 'False'):
                bad = (sp, out)
                break
        ctx.require(bad is None, f'a constraint is never satisfied by the placeholder {s_!r} ({why})', fmod, qn, f'placeholder {s_!r}',
                    f'with a version constraint and found == {s_!r} ({why}) the path `{short(bad[0].path.describe(), 140) if bad else ""}` '
                    f'leaves the verdict to version_compare_many({s_!r}, ...): a cached/overridden dependency of unknown version satisfies e.g. "<2.0", '
                    'while ExternalDependency._check_version rejects an unknown version for every constraint', fn)


# ---------------------------------------------------------------------------------------------
# R7  the [provide] tables are keyed by lower-case names: every read uses a lower-cased key

PROVIDE_TABLES = ('provided_deps', 'wrapdb_provided_deps')


def r7(ctx: RuleCtx) -> None:
    mod = ctx.repo.module(WRAP)
    n_reads = 0
    seen: T.Set[str] = set()
    for name in mod.methods(R):
        raw = mod.func(f'{R}.{name}')
        if not any(isinstance(n, ast.Attribute) and n.attr in PROVIDE_TABLES for n in ast.walk(raw)):
            continue
        fn = _fn(mod, f'{R}.{name}')
        for sp in sympaths(fn):
            reads: T.List[T.Tuple[ast.AST, ast.AST, int]] = []      # (table, key, event index)
            for i, ev in enumerate(sp.path.events):
                if ev.node is None or ev.kind == 'exc':
                    continue
                roots = [ev.node.iter] if ev.kind == 'iter' else [x.context_expr for x in ev.node.items] if ev.kind == 'with' else [ev.node]  # type: ignore[union-attr]
                for r_ in roots:
                    for x in walk_no_nested(r_):
                        if isinstance(x, ast.Call) and isinstance(x.func, ast.Attribute) and x.func.attr == 'get' and x.args:
                            reads.append((x.func.value, x.args[0], i))
                        elif isinstance(x, ast.Subscript) and isinstance(x.ctx, ast.Load):
                            reads.append((x.value, x.slice, i))
                        elif isinstance(x, ast.Compare) and len(x.ops) == 1 and isinstance(x.ops[0], (ast.In, ast.NotIn)):
                            reads.append((x.comparators[0], x.left, i))
            for tab_e, key_e, i in reads:
                t = sp.sym(tab_e, i)
                if not (isinstance(t, ast.Attribute) and t.attr in PROVIDE_TABLES):
                    continue
                k = sp.sym(key_e, i)
                kt = norm(k)
                sig = f'{name}|{norm(t)}|{kt}'
                if sig in seen:
                    continue
                seen.add(sig)
                n_reads += 1
                lowered = isinstance(k, ast.Call) and isinstance(k.func, ast.Attribute) and k.func.attr == 'lower' and not k.args
                own_key = isinstance(k, ast.Call) and attr_chain(k.func) == 'each' and any(isinstance(a, ast.Attribute) and a.attr in PROVIDE_TABLES for a in ast.walk(k))
                literal = isinstance(k, ast.Constant) and isinstance(k.value, str) and k.value == k.value.lower()
                if lowered or own_key or literal:
                    ctx.ok(f'{name}: {short(t, 50)} read with {"its own key" if own_key else "a lower-cased key"} {short(kt, 50)}')
                elif isinstance(k, ast.Name) and k.id.startswith('ARG'):
                    ctx.violation(mod, f'{R}.{name}', f'{norm(t)} read with {kt}',
                                  f'{short(t, 60)} is keyed by lower-case names (its writers lower-case them), but on the path `{short(sp.path.describe(), 120)}` '
                                  f'it is read with the caller\'s spelling of parameter {k.id[3:]}: a [provide] entry is not found for a name written with capitals',
                                  key_e)
                else:
                    raise Undecided(f'{R}.{name}: key {short(kt, 80)} of a read of {short(t, 40)} is neither lower-cased nor a parameter as given')
    ctx.floor('reads of the [provide] tables', n_reads, 1)


# ---------------------------------------------------------------------------------------------
# R8  the `fallback` keyword reaches set_fallback() for every value but None

def r8(ctx: RuleCtx) -> None:
    import re
    imod = ctx.repo.module(INTERP)
    fmod = ctx.repo.module(DF)
    # set_fallback(None) is the only no-op: its first decision
    sf = _fn(fmod, f'{H}.set_fallback')
    noop = [sp for sp in sympaths(sf) if dict((a, v) for a, v, _ in sp.conds()).get(Atom('is', ('ARG1', 'None'))) is True]
    if not noop or any(sp.path.outcome != 'return' or [st for st, _ in sp.stmts() if not isinstance(st, ast.Return)] for sp in noop):
        raise Undecided('set_fallback: `fbinfo is None -> return` not found as its first decision')
    fd = imod.func('Interpreter.func_dependency')
    FB = re.compile(r"^ARG\d+(\['fallback'\]|\.get\('fallback'(, None)?\))$")

    def holder(e: ast.AST) -> bool:
        return isinstance(e, ast.Call) and call_method(e) == H
    n_paths = 0
    seen: T.Set[str] = set()
    for sp in sympaths(fd):
        calls = sp.calls()
        look = [(o, sc, i) for o, sc, i in calls if call_method(o) == 'lookup' and isinstance(sc.func, ast.Attribute) and holder(sc.func.value)]
        if not look:
            continue
        n_paths += 1
        at = look[0][2]
        recv = norm(look[0][1].func.value)  # type: ignore[attr-defined]
        passed = [sc for o, sc, i in calls if i <= at and call_method(o) == 'set_fallback' and isinstance(sc.func, ast.Attribute) and norm(sc.func.value) == recv
                  and len(sc.args) == 1 and FB.match(norm(sc.args[0]))]
        about = [(a, v) for a, v, i in sp.conds() if i <= at and re.search(r"ARG\d+(\['fallback'\]|\.get\('fallback')", repr(a))]
        is_none = any(a.kind == 'is' and a.args[1] == 'None' and FB.match(a.args[0]) and v for a, v in about)
        if passed or is_none:
            verdict, why = True, 'set_fallback(kwargs[fallback]) before lookup()' if passed else 'fallback is None (set_fallback would do nothing)'
        else:
            unread = [short(o, 60) for o, sc, i in calls if i <= at and call_method(o) not in ('lookup', H) and
                      any(norm(x) == recv or FB.match(norm(x)) for x in list(sc.args) + [k.value for k in sc.keywords])]
            odd = [repr(a) for a, v in about if not ((a.kind == 'truth' and FB.match(a.args[0])) or (a.kind == 'is' and FB.match(a.args[0])))]
            if unread or odd:
                raise Undecided(f'func_dependency: fallback does not visibly reach set_fallback on `{short(sp.path.describe(), 120)}`, but {unread + odd} is not read')
            verdict, why = False, ''
        key = f'{verdict}|{why}|{sorted(map(repr, about))}'
        if key in seen:
            continue
        seen.add(key)
        ctx.require(verdict, f'func_dependency: {why}', imod, 'Interpreter.func_dependency', f'lookup() reached with {sorted(repr(a) + "=" + str(v) for a, v in about)} and no set_fallback',
                    f'on the path `{short(sp.path.describe(), 160)}` lookup() is reached although the value of the `fallback` keyword was not handed to set_fallback() and is not known '
                    'to be None: `fallback: []` (documented as allow_fallback: false) is then ignored and a wrap [provide] entry is used as implicit fallback', look[0][0])
    if n_paths == 0:
        raise Undecided(f'func_dependency: no path reaches {H}.lookup()')


# A rule reads one or two modules; when their content is the one an earlier run in this process already judged (the
# refactoring sweep analyses 300 overlays, most of which do not touch them) the recorded obligations are replayed.
_DONE: T.Dict[T.Any, T.Tuple[T.List[T.Tuple[str, tuple, dict]], T.Optional[BaseException]]] = {}


# ---------------------------------------------------------------------------------------------
# R9  a failed resolve of an optional subproject disables it (round 13, seed C10-r7-3)

def _catches(h: ast.ExceptHandler, ancestors: T.Set[str]) -> bool:
    """does the handler catch an exception whose class has these ancestor names (itself included)"""
    if h.type is None:
        return True
    names = h.type.elts if isinstance(h.type, ast.Tuple) else [h.type]
    out = False
    for n_ in names:
        c = attr_chain(n_)
        if c is None:
            raise Undecided(f'handler type {short(n_)} is not a class name')
        last = c.split('.')[-1]
        out = out or last in ancestors or last in ('Exception', 'BaseException')
    return out


def r9(ctx: RuleCtx) -> None:
    from ..paths import enumerate_paths
    imod = ctx.repo.module(INTERP)
    wmod = ctx.repo.module(WRAP)
    wcls = {q: c for q, c in wmod.classes().items() if '.' not in q}

    def ancestors(name: str) -> T.Set[str]:
        out, todo = set(), [name]
        while todo:
            x = todo.pop()
            if x in out:
                continue
            out.add(x)
            if x in wcls:
                todo.extend((attr_chain(b) or '?').split('.')[-1] for b in wcls[x].bases)
        return out
    # built-in example: a handler for the subclass does not catch the base class, one for the base class catches both
    ex = ast.parse('try:\n    pass\nexcept wrap.WrapNotFoundException:\n    pass\nexcept (OSError, wrap.WrapException):\n    pass').body[0]
    assert isinstance(ex, ast.Try)
    if _catches(ex.handlers[0], {'WrapException', 'MesonException'}) or not _catches(ex.handlers[1], {'WrapNotFoundException', 'WrapException'}):
        raise AssertionError('R9: the built-in example is not read as intended')
    # what a resolve can report: the exception classes of wrap.py raised by the functions of wrap.py (closed world of the module)
    raised: T.Set[str] = set()
    for q, f in wmod.funcs().items():
        for n_ in ast.walk(f):
            if isinstance(n_, ast.Raise) and n_.exc is not None:
                c = attr_chain(n_.exc.func if isinstance(n_.exc, ast.Call) else n_.exc)
                if c and c.split('.')[-1] in wcls:
                    raised.add(c.split('.')[-1])
    ctx.floor('exception classes of wrap.py raised in wrap.py', len(raised), 1)
    qn = 'Interpreter.do_subproject'
    fn = imod.func(qn)
    fl = Flow(fn)
    sites = [c for c in calls_in(fn, nested=True) if call_method(c) == 'resolve' and isinstance(c.func, ast.Attribute)
             and any(o.startswith('attr:') and o.endswith('.wrap_resolver') for o in fl.origins(c.func.value))]
    if not sites:
        raise Undecided(f'{qn}: no call of the wrap resolver\'s resolve() found here (moved to a helper?)')
    # the local that says whether the subproject is required: second result of extract_required_kwarg(..), bound once
    req = [st.targets[0].elts[1].id for st in ast.walk(fn) if isinstance(st, ast.Assign) and isinstance(st.value, ast.Call)
           and (call_name(st.value) or '').split('.')[-1] == 'extract_required_kwarg' and len(st.targets) == 1 and isinstance(st.targets[0], ast.Tuple)
           and len(st.targets[0].elts) == 3 and isinstance(st.targets[0].elts[1], ast.Name)]
    if len(req) != 1 or len(_assigned(fn, req[0])) != 1:
        raise Undecided(f'{qn}: `required` is not the once-bound second result of extract_required_kwarg()')
    REQ = req[0]
    checked: T.Set[int] = set()
    for c in sites:
        tries = [t for t in ast.walk(fn) if isinstance(t, ast.Try) and any(x is c for st in t.body for x in ast.walk(st))]
        tries.sort(key=lambda t: -t.lineno)      # innermost first
        for x in sorted(raised):
            anc = ancestors(x)
            h = next((h_ for t in tries for h_ in t.handlers if _catches(h_, anc)), None)
            ctx.require(h is not None, f'{qn}: a resolve failure reported as {x} is caught', imod, qn, f'resolve failure {x}',
                        f'`{short(c)}`: no handler around it catches {x} (raised in wrap.py): a fallback that cannot be resolved aborts an optional lookup '
                        f'instead of disabling the subproject; handlers: {[short(h_.type) if h_.type is not None else "bare" for t in tries for h_ in t.handlers]}')
            if h is None or id(h) in checked:
                continue
            checked.add(id(h))
            for p in enumerate_paths(h.body):
                cm = p.cond_map()
                for k in cm:
                    if k != REQ and REQ in {n_.id for n_ in ast.walk(_parse(k)) if isinstance(n_, ast.Name)}:
                        raise Undecided(f'{qn}: the handler tests `required` as {k}')
                if cm.get(REQ) is True:
                    continue
                ok = p.outcome == 'return' and isinstance(p.value, ast.Call) and call_method(p.value) == 'disabled_subproject'
                ctx.require(ok, f'{qn}: handler path `{p.describe()}` disables the optional subproject', imod, qn, f'handler path: {p.describe()}',
                            f'in the handler of the resolve failure the path `{p.describe()}` (not required) does not return self.disabled_subproject(..)')



class _Recorder:
    def __init__(self, ctx: RuleCtx, log: T.List[T.Tuple[str, tuple, dict]]):
        self._ctx, self._log = ctx, log

    def __getattr__(self, name: str) -> T.Any:
        target = getattr(self._ctx, name)
        if name in ('ok', 'violation', 'require', 'floor', 'note'):
            def call(*a: T.Any, **k: T.Any) -> T.Any:
                self._log.append((name, a, k))
                return target(*a, **k)
            return call
        return target


def _replayable(fn: T.Callable[[RuleCtx], None], *files: str) -> T.Callable[[RuleCtx], None]:
    def run(ctx: RuleCtx) -> None:
        if ctx.thorough:
            return fn(ctx)
        key = (fn.__name__, tuple(ctx.repo.module(f).digest for f in files))
        if key not in _DONE:
            if len(_DONE) > 400:
                _DONE.clear()
            log: T.List[T.Tuple[str, tuple, dict]] = []
            err: T.Optional[BaseException] = None
            try:
                fn(T.cast(RuleCtx, _Recorder(ctx, log)))
            except Exception as e:
                err = e
            _DONE[key] = (log, err)
            if err is not None:
                raise err
            return
        log, err = _DONE[key]
        for name, a, k in log:
            getattr(ctx, name)(*a, **k)
        if err is not None:
            raise err
    run.__name__ = fn.__name__
    return run


r1a, r1b, r1c, r1d, r1e, r1f, r1g = (_replayable(f, DF, DETECT) for f in (r1a, r1b, r1c, r1d, r1e, r1f, r1g))
r2a, r2b, r2c, r2d, r3, r4 = (_replayable(f, WRAP) for f in (r2a, r2b, r2c, r2d, r3, r4))
r5 = _replayable(r5, DETECT, INTERP, DF)
r6 = _replayable(r6, DBASE, DF)
r7 = _replayable(r7, WRAP)
r8 = _replayable(r8, INTERP, DF)
r9 = _replayable(r9, INTERP, WRAP)

RULES = [
    Rule('C10.R1a', 'candidate order and guards (_get_candidates)', r1a),
    Rule('C10.R1b', 'candidate functions: configure unless nofallback; system/existing return only what was found', r1b),
    Rule('C10.R1c', '_get_cached_dep: override wins, forced fallback ignores the disk cache', r1c),
    Rule('C10.R1d', 'forcefallback / nofallback are computed from the documented sources', r1d),
    Rule('C10.R1e', 'implicit [provide] fallback adoption table', r1e),
    Rule('C10.R1f', 'candidate loop: implicit override, required-ness, error', r1f),
    Rule('C10.R1g', '_get_subproject_dep: override > variable > not-found object, never None', r1g),
    Rule('C10.R2a', '_get_file_internal: every returned path is hash-verified on its path', r2a),
    Rule('C10.R2b', 'check_hash / hash_file decide by sha256 equality', r2b),
    Rule('C10.R2c', '_download publishes only a digest-verified temporary; get_data hashes what it writes', r2c),
    Rule('C10.R2d', 'unpack_archive only on paths from _get_file_internal', r2d),
    Rule('C10.R3', 'check_can_download() precedes every network primitive reachable from resolve()', r3),
    Rule('C10.R5', 'keyword arguments applied after / rewritten during the lookup are not part of the dependency identifier', r5),
    Rule('C10.R6', 'a placeholder for a missing version never satisfies a version constraint on the cached path', r6),
    Rule('C10.R8', 'the fallback keyword reaches set_fallback() for every value but None', r8),
    Rule('C10.R9', 'a resolve failure of an optional subproject is caught (every wrap exception class) and disables it', r9),
    Rule('C10.R7', 'the [provide] tables are read with lower-cased keys', r7),
    Rule('C10.R4', 'unpack/patch/diff failure removes the directory and re-raises; returns gated by has_buildfile()', r4),
]
