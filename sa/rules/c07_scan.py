"""C07.R4 (who-may-write part): stores into `.value` of option objects and into `OptionStore.augments`
outside mesonbuild/options.py, decided by *origin evidence* (annotations, option-returning calls, OptionStore
attributes) of the receiver of every store site."""
from __future__ import annotations

import ast
import re
import typing as T

from ..core import Module, Undecided, norm, short, attr_chain, walk_no_nested, kwarg
from ..flow import Flow
from ..report import RuleCtx
from ..consteval import fold_expr

OPT = 'mesonbuild/options.py'
COREDATA = 'mesonbuild/coredata.py'
INTERP = 'mesonbuild/interpreter/interpreter.py'
PREFILTER = re.compile(r'\.\s*value\b|augments|setattr|__dict__')

# the one justified writer outside options.py (DESIGN A.17); the justification is re-verified on every run
JUSTIFIED = {(INTERP, 'Interpreter.do_subproject'): 'forced_options (default_library static|shared built from a boolean by its only producer)'}

# container-protocol names say nothing about the element type; the receiver's own origins decide for them
GENERIC = {'items', 'values', 'keys', 'get', 'pop', 'copy', 'setdefault', '__getitem__', '__iter__', '__next__'}

POSITIVE_EXAMPLE = '''
def configure(store: OptionStore, key, node: StringNode):
    opt = store.get_value_object(key)
    opt.value = 'unchecked'
    node.value = 'not an option'
'''


def idents(e: T.Optional[ast.AST]) -> T.Set[str]:
    """identifiers mentioned in an annotation (string annotations are parsed)"""
    out: T.Set[str] = set()
    if e is None:
        return out
    for n in ast.walk(e):
        if isinstance(n, ast.Name):
            out.add(n.id)
        elif isinstance(n, ast.Attribute):
            out.add(n.attr)
        elif isinstance(n, ast.Constant) and isinstance(n.value, str):
            try:
                out |= idents(ast.parse(n.value, mode='eval').body)
            except SyntaxError:
                pass
    return out


def local_subclasses(m: Module, root: str) -> T.Set[str]:
    """`root` and the classes of m deriving from it through bases named in m (generic subscripts stripped)"""
    if not m.has_cls(root):
        raise Undecided(f'{m.rel}: class {root} not found')
    out = {root}
    changed = True
    while changed:
        changed = False
        for q, c in m.classes().items():
            if q in out or '.' in q or '#' in q:
                continue
            for b in c.bases:
                n = attr_chain(b.value if isinstance(b, ast.Subscript) else b)
                if n in out:
                    out.add(q)
                    changed = True
    return out


class Universe:
    """names that denote option objects / the option store, computed from the tree on every run"""

    def __init__(self, ctx: RuleCtx):
        repo = ctx.repo
        om = repo.module(OPT)
        self.family: T.Set[str] = set()
        self.family = local_subclasses(om, 'UserOption')
        self.stores = {'OptionStore'}
        self.types: T.Set[str] = set(self.family) | self.stores
        self.api: T.Set[str] = set()
        self.store_attrs: T.Set[str] = set()
        self._seen: T.Set[str] = set()
        self.absorb(om, deep=True)
        self.absorb(repo.module(COREDATA), deep=True)
        if not self.store_attrs:
            raise Undecided('no attribute holding the OptionStore was found in coredata.py')

    def absorb(self, m: Module, deep: bool = False) -> None:
        """aliases and option-returning functions defined in module m (deep: also attributes holding the store)"""
        if m.rel in self._seen:
            return
        self._seen.add(m.rel)
        cands: T.List[T.Tuple[str, ast.AST]] = []
        for n in _toplevel(m.tree.body):
            if isinstance(n, ast.AnnAssign) and isinstance(n.target, ast.Name) and n.value is not None and 'TypeAlias' in idents(n.annotation):
                cands.append((n.target.id, n.value))
            elif isinstance(n, ast.Assign) and len(n.targets) == 1 and isinstance(n.targets[0], ast.Name) and isinstance(n.value, ast.Subscript):
                cands.append((n.targets[0].id, n.value))
        ids = [(t, idents(v)) for t, v in cands]
        changed = True
        while changed:
            changed = False
            for t, i in ids:
                if t not in self.types and i & self.types:
                    self.types.add(t)
                    changed = True
        for q, f in m.funcs().items():
            if f.returns is not None and f.name not in GENERIC and idents(f.returns) & self.types:
                self.api.add(f.name)
        if not deep:
            return
        for n in ast.walk(m.tree):
            if isinstance(n, ast.AnnAssign) and isinstance(n.target, ast.Attribute) and idents(n.annotation) & self.stores:
                self.store_attrs.add(n.target.attr)
            elif isinstance(n, ast.Assign) and isinstance(n.value, ast.Call) and (attr_chain(n.value.func) or '').split('.')[-1] in self.stores:
                for t in n.targets:
                    if isinstance(t, ast.Attribute):
                        self.store_attrs.add(t.attr)


def _toplevel(body: T.List[ast.stmt]) -> T.Iterator[ast.stmt]:
    for st in body:
        yield st
        if isinstance(st, (ast.If, ast.Try)):
            for field in ('body', 'orelse', 'finalbody'):
                yield from _toplevel(getattr(st, field, []))
            for h in getattr(st, 'handlers', []):
                yield from _toplevel(h.body)


class Site(T.NamedTuple):
    kind: str                 # value | augments
    recv: ast.AST             # the object whose .value / .augments is written
    node: ast.AST             # the statement / call
    func: T.Optional[ast.AST]
    qual: str
    cls: T.Optional[ast.ClassDef]
    note: str


_BODY_FIELDS = ('body', 'orelse', 'finalbody')


def _sites(tree: ast.AST, src: T.Optional[str] = None) -> T.List[Site]:
    """Store sites.  Attribute/subscript stores can only be targets of statements, so statements are walked;
    expression trees are only searched for setattr()/augments.update() calls when the text can contain one."""
    out: T.List[Site] = []
    want_calls = src is None or 'setattr' in src or 'augments' in src

    def target(t: ast.AST, st: ast.AST, fn: T.Optional[ast.AST], qual: str, cls: T.Optional[ast.ClassDef]) -> None:
        if isinstance(t, (ast.Tuple, ast.List)):
            for x in t.elts:
                target(x, st, fn, qual, cls)
        elif isinstance(t, ast.Starred):
            target(t.value, st, fn, qual, cls)
        elif isinstance(t, ast.Attribute):
            if t.attr == 'value':
                out.append(Site('value', t.value, t, fn, qual, cls, 'assignment'))
            elif t.attr == 'augments':
                out.append(Site('augments', t.value, t, fn, qual, cls, 'replaced'))
        elif isinstance(t, ast.Subscript):
            b = t.value
            if isinstance(b, ast.Attribute) and b.attr == 'augments':
                out.append(Site('augments', b.value, t, fn, qual, cls, 'item store'))
            elif isinstance(b, ast.Attribute) and b.attr == '__dict__' and isinstance(t.slice, ast.Constant) and t.slice.value == 'value':
                out.append(Site('value', b.value, t, fn, qual, cls, '__dict__ store'))

    def calls(st: ast.AST, fn: T.Optional[ast.AST], qual: str, cls: T.Optional[ast.ClassDef]) -> None:
        for ch in walk_no_nested(st):
            if not isinstance(ch, ast.Call):
                continue
            f = ch.func
            name = f.attr if isinstance(f, ast.Attribute) else (f.id if isinstance(f, ast.Name) else '')
            if name in ('setattr', '__setattr__') and len(ch.args) >= 2:
                a = ch.args[-2]
                tgt = ch.args[-3] if len(ch.args) >= 3 else (f.value if isinstance(f, ast.Attribute) else None)
                if tgt is not None:
                    if isinstance(a, ast.Constant):
                        if a.value == 'value':
                            out.append(Site('value', tgt, ch, fn, qual, cls, 'setattr'))
                    else:
                        out.append(Site('value', tgt, ch, fn, qual, cls, 'setattr with a computed attribute name'))
            elif isinstance(f, ast.Attribute) and name in ('update', 'setdefault', '__setitem__') and isinstance(f.value, ast.Attribute) and f.value.attr == 'augments':
                out.append(Site('augments', f.value.value, ch, fn, qual, cls, name))

    def block(body: T.List[ast.stmt], fn: T.Optional[ast.AST], qual: str, cls: T.Optional[ast.ClassDef]) -> None:
        for st in body:
            if isinstance(st, (ast.FunctionDef, ast.AsyncFunctionDef)):
                block(st.body, st, (qual + '.' if qual else '') + st.name, cls)
                continue
            if isinstance(st, ast.ClassDef):
                block(st.body, None, (qual + '.' if qual else '') + st.name, st)
                continue
            q = qual or '<module>'
            if isinstance(st, ast.Assign):
                for t in st.targets:
                    target(t, st, fn, q, cls)
            elif isinstance(st, (ast.AugAssign, ast.AnnAssign)):
                target(st.target, st, fn, q, cls)
            elif isinstance(st, (ast.For, ast.AsyncFor)):
                target(st.target, st, fn, q, cls)
            elif isinstance(st, (ast.With, ast.AsyncWith)):
                for i in st.items:
                    if i.optional_vars is not None:
                        target(i.optional_vars, st, fn, q, cls)
            if want_calls:
                # only the expressions of this statement, not its nested blocks (they are visited below)
                for name, val in ast.iter_fields(st):
                    if name in _BODY_FIELDS or name == 'handlers' or name == 'cases':
                        continue
                    for v in (val if isinstance(val, list) else [val]):
                        if isinstance(v, ast.AST):
                            calls(v, fn, q, cls)
            for field in _BODY_FIELDS:
                sub = getattr(st, field, None)
                if isinstance(sub, list) and sub and isinstance(sub[0], ast.stmt):
                    block(sub, fn, qual, cls)
            for h in getattr(st, 'handlers', []) or []:
                block(h.body, fn, qual, cls)
            for c in getattr(st, 'cases', []) or []:
                block(c.body, fn, qual, cls)
    block(getattr(tree, 'body', []), None, '', None)
    return out


def _param_annotations(fn: T.Optional[ast.AST]) -> T.Dict[str, ast.AST]:
    out: T.Dict[str, ast.AST] = {}
    if fn is None:
        return out
    a = fn.args  # type: ignore[attr-defined]
    for p in a.posonlyargs + a.args + a.kwonlyargs + ([a.vararg] if a.vararg else []) + ([a.kwarg] if a.kwarg else []):
        if p.annotation is not None:
            out[p.arg] = p.annotation
    for n in walk_no_nested(fn):
        if isinstance(n, ast.AnnAssign) and isinstance(n.target, ast.Name):
            out.setdefault(n.target.id, n.annotation)
    return out


_FLOWS: T.Dict[int, T.Tuple[ast.AST, Flow]] = {}


def _flow(fn: ast.AST) -> Flow:
    hit = _FLOWS.get(id(fn))
    if hit is None or hit[0] is not fn:
        if len(_FLOWS) > 4000:
            _FLOWS.clear()
        hit = (fn, Flow(fn))  # type: ignore[arg-type]
        _FLOWS[id(fn)] = hit
    return hit[1]


def _option_classes(uni: Universe, m: Module) -> T.Set[str]:
    """classes of module m that derive (within m, by base name) from an option class of options.py"""
    memo = getattr(m, '_c07_option_classes', None)
    if memo is not None:
        return T.cast('T.Set[str]', memo)
    out: T.Set[str] = set()
    if m.rel == OPT:
        out = set(uni.family)
    else:
        changed = True
        while changed:
            changed = False
            for q, c in m.classes().items():
                if q in out:
                    continue
                for b in c.bases:
                    n = attr_chain(b.value if isinstance(b, ast.Subscript) else b) or ''
                    last = n.split('.')[-1]
                    if last in uni.family or last in out:
                        out.add(q)
                        changed = True
    m._c07_option_classes = out  # type: ignore[attr-defined]
    return out


def evidence(ctx: RuleCtx, uni: Universe, m: Module, site: Site) -> T.Optional[str]:
    """why the receiver of the store may be an option object (None = no evidence)"""
    recv = site.recv
    in_family = site.cls is not None and site.cls.name in _option_classes(uni, m)
    if isinstance(recv, ast.Name) and recv.id in ('self', 'cls'):
        return f'self of option class {site.cls.name}' if in_family and site.cls is not None else None
    ch = attr_chain(recv)
    if site.func is None:
        comps = set((ch or '').split('.'))
        return 'module-level store through an OptionStore attribute' if comps & uni.store_attrs else None
    fl = _flow(site.func)
    ann = _param_annotations(site.func)
    for o in sorted(fl.origins(recv)):
        kind, _, name = o.partition(':')
        if kind == 'param' and name in ann and idents(ann[name]) & uni.types:
            return f'parameter {name}: {short(ann[name], 60)}'
        if kind == 'attr':
            comps = name.split('.')
            if set(comps) & uni.store_attrs:
                return f'reached through the option store ({name})'
            if comps[0] in ann and idents(ann[comps[0]]) & uni.types:
                return f'{comps[0]}: {short(ann[comps[0]], 60)}'
            if comps[0] == 'self' and in_family and 'parent' in comps[1:]:
                return f'parent of an option ({name})'
        if kind == 'call':
            last = name.split('.')[-1]
            if last in uni.family:
                return f'constructed by {last}(...)'
            if last in uni.api:
                return f'result of {name}(...), annotated to return an option'
        if kind == 'name' and name in ann and idents(ann[name]) & uni.types:
            return f'{name}: {short(ann[name], 60)}'
    root = recv
    while isinstance(root, (ast.Attribute, ast.Subscript, ast.Call)):
        root = root.func if isinstance(root, ast.Call) else root.value
    if isinstance(root, ast.Name) and root.id in ann and idents(ann[root.id]) & uni.types:
        return f'{root.id}: {short(ann[root.id], 60)}'
    return None


def _positive_example(ctx: RuleCtx, uni: Universe) -> None:
    m = Module(ctx.repo, '<built-in example>', POSITIVE_EXAMPLE)
    got = {norm(s.recv): evidence(ctx, uni, m, s) for s in _sites(m.tree) if s.kind == 'value'}
    if not (got.get('opt') and got.get('node') is None and len(got) == 2):
        raise Undecided(f'the built-in positive example of the .value scan was not classified as expected: {got}')
    ctx.note('built-in example: store into .value of an object obtained from an OptionStore is detected, a store into a parser node is not')


def _default_library_choices(ctx: RuleCtx) -> T.List[str]:
    om = ctx.repo.module(OPT)
    for n in ast.walk(om.tree):
        if isinstance(n, ast.Call) and (attr_chain(n.func) or '').split('.')[-1] == 'UserComboOption' and n.args \
                and isinstance(n.args[0], ast.Constant) and n.args[0].value == 'default_library':
            ch = kwarg(n, 'choices')
            if ch is None:
                raise Undecided('default_library: choices not given by keyword')
            v = fold_expr(ctx.repo, om, ch)
            if isinstance(v, list) and all(isinstance(x, str) for x in v):
                return v
    raise Undecided('options.py: the declaration of default_library was not found')


def _const_values(fn: ast.AST, e: ast.AST, depth: int = 0) -> T.List[T.Any]:
    """the constants an expression can evaluate to (names through their definitions in fn)"""
    if isinstance(e, ast.Constant):
        return [e.value]
    if isinstance(e, ast.IfExp):
        return _const_values(fn, e.body, depth) + _const_values(fn, e.orelse, depth)
    if isinstance(e, ast.Name) and depth < 4:
        defs = [n for n in walk_no_nested(fn) if isinstance(n, (ast.Assign, ast.AnnAssign)) and
                any(isinstance(t, ast.Name) and t.id == e.id for t in (n.targets if isinstance(n, ast.Assign) else [n.target]))]
        others = [n for n in walk_no_nested(fn) if isinstance(n, ast.Name) and n.id == e.id and isinstance(n.ctx, ast.Store)]
        if defs and len(others) == len(defs) and all(d.value is not None for d in defs):
            out: T.List[T.Any] = []
            for d in defs:
                out += _const_values(fn, d.value, depth + 1)  # type: ignore[arg-type]
            return out
    raise Undecided(f'value {short(e)} of a forced option is not a constant')


def _verify_forced_options(ctx: RuleCtx, m: Module, site: Site) -> None:
    """the justification of the one allowed writer: it stores the values of a parameter whose producers only
    build {default_library: <valid choice>}."""
    fn = site.func
    assert fn is not None
    params = [a.arg for a in fn.args.args]  # type: ignore[attr-defined]
    loop = None
    for n in walk_no_nested(fn):
        if isinstance(n, ast.For) and any(x is site.node for st in n.body for x in ast.walk(st)):
            loop = n
    st = None
    for n in walk_no_nested(fn):
        if isinstance(n, ast.Assign) and any(t is site.node for t in n.targets):
            st = n
    ok = loop is not None and st is not None and isinstance(loop.target, ast.Tuple) and len(loop.target.elts) == 2 \
        and isinstance(loop.iter, ast.Call) and isinstance(loop.iter.func, ast.Attribute) and loop.iter.func.attr == 'items' \
        and isinstance(loop.iter.func.value, ast.Name) and loop.iter.func.value.id in params \
        and isinstance(st.value, ast.Name) and norm(st.value) == norm(loop.target.elts[1]) \
        and isinstance(site.node, ast.Subscript) and isinstance(site.node.slice, ast.Call) and norm(site.node.slice.func) == norm(loop.target.elts[0]) + '.evolve'
    if not ok:
        ctx.violation(m, site.qual, site.node, 'the justified writer of augments no longer stores the (key, value) pairs of its forced-options parameter unchanged', site.node)
        return
    assert loop is not None
    pname = loop.iter.func.value.id  # type: ignore[attr-defined]
    pidx = params.index(pname) - (1 if params and params[0] == 'self' else 0)
    ctx.ok(f'{m.rel}: {site.qual}: stores the items of parameter {pname} re-keyed to the subproject')
    choices = _default_library_choices(ctx)
    producers = 0
    for rel in ctx.repo.py_files('mesonbuild'):
        src = ctx.repo.read(rel)
        if fn.name not in src:  # type: ignore[attr-defined]
            continue
        pm = ctx.repo.module(rel)
        for q, f in pm.funcs().items():
            for c in walk_no_nested(f):
                if not (isinstance(c, ast.Call) and isinstance(c.func, ast.Attribute) and c.func.attr == fn.name):  # type: ignore[attr-defined]
                    continue
                arg = kwarg(c, pname)
                if arg is None and len(c.args) > pidx:
                    arg = c.args[pidx]
                if any(k.arg is None for k in c.keywords) or any(isinstance(a, ast.Starred) for a in c.args):
                    raise Undecided(f'{rel}: {q}: {fn.name} called with */** arguments')  # type: ignore[attr-defined]
                if arg is None or (isinstance(arg, ast.Constant) and arg.value is None):
                    continue
                producers += 1
                if not isinstance(arg, ast.Name):
                    raise Undecided(f'{rel}: {q}: forced options passed as {short(arg)}')
                stores = [n for n in walk_no_nested(f) if isinstance(n, ast.Assign) and any(
                    isinstance(t, ast.Subscript) and isinstance(t.value, ast.Name) and t.value.id == arg.id for t in n.targets)]
                binds = [n for n in walk_no_nested(f) if isinstance(n, ast.Name) and n.id == arg.id and isinstance(n.ctx, ast.Store)]
                inits = [n for n in walk_no_nested(f) if isinstance(n, (ast.Assign, ast.AnnAssign)) and n.value is not None and
                         any(isinstance(t, ast.Name) and t.id == arg.id for t in (n.targets if isinstance(n, ast.Assign) else [n.target]))]
                muts = [n for n in walk_no_nested(f) if isinstance(n, ast.Call) and isinstance(n.func, ast.Attribute) and isinstance(n.func.value, ast.Name)
                        and n.func.value.id == arg.id and n.func.attr in ('update', 'setdefault', '__setitem__')]
                if len(binds) != 1 or len(inits) != 1 or not (isinstance(inits[0].value, ast.Dict) and not inits[0].value.keys) or muts:
                    raise Undecided(f'{rel}: {q}: the forced-options mapping {arg.id} is not built from an empty dict by item stores')
                for s in stores:
                    t = s.targets[0]
                    assert isinstance(t, ast.Subscript)
                    key = norm(t.slice)
                    vals = _const_values(f, s.value)
                    good = key == "OptionKey('default_library')" and all(isinstance(v, str) and v in choices for v in vals)
                    ctx.require(good, f'{rel}: {q}: forces {key} to {vals}, all valid choices', pm, q, s,
                                f'forced option {key} = {vals} is stored into augments without validation; valid: default_library in {choices}', s)
    ctx.floor('producers of forced options', producers, 1)


def scan(ctx: RuleCtx) -> None:
    uni = Universe(ctx)
    _positive_example(ctx, uni)
    files = []
    for rel in ctx.repo.py_files('mesonbuild'):
        if rel == OPT:
            continue
        if PREFILTER.search(ctx.repo.read(rel)):
            files.append(rel)
    mods = [ctx.repo.module(rel) for rel in files]
    for m in mods:
        uni.absorb(m)
    if ctx.thorough:
        for rel in ctx.repo.py_files('mesonbuild'):
            if 'Option' in ctx.repo.read(rel):
                uni.absorb(ctx.repo.module(rel))
    nvalue = naug = 0
    justified_seen = 0
    for m in mods:
        for s in _sites(m.tree, m.src):
            if s.kind == 'value':
                if 'computed attribute name' in s.note and evidence(ctx, uni, m, s) is None:
                    continue   # setattr(x, <name>, v) on something that is not an option
                nvalue += 1
                why = evidence(ctx, uni, m, s)
                if why is None:
                    ctx.ok(f'{m.rel}: {s.qual}: store into {short(s.recv, 40)}.value: receiver is not an option object', nontrivial=False)
                elif 'computed attribute name' in s.note:
                    raise Undecided(f'{m.rel}: {s.qual}: setattr with a computed name on an option object ({why})')
                else:
                    ctx.violation(m, s.qual, s.node if not isinstance(s.node, ast.Attribute) else f'{norm(s.node)} = ...',
                                  f'{s.note} to .value of an option object ({why}) outside options.py: the value is stored without validate_value', s.node)
            else:
                naug += 1
                if (m.rel, s.qual) in JUSTIFIED:
                    justified_seen += 1
                    _verify_forced_options(ctx, m, s)
                else:
                    ctx.violation(m, s.qual, s.node if not isinstance(s.node, (ast.Attribute, ast.Subscript)) else f'{norm(s.node)} = ...',
                                  f'{s.note} into OptionStore.augments outside options.py: the value is stored without validate_value '
                                  f'(only {sorted(q for _, q in JUSTIFIED)} is justified)', s.node)
    ctx.note(f'.value store sites examined outside options.py: {nvalue}')   # no floor: these sites live in files this property does not anchor
    ctx.note(f'justified augments writers seen: {justified_seen}')
    ctx.note(f'scanned {len(files)} files; option types {sorted(uni.types)}; option-returning functions {len(uni.api)}; store attributes {sorted(uni.store_attrs)}')
