"""C06.R5 - sorted() is a sanitiser only if the elements' order is total and consistent with __eq__.

For every un-keyed sorted()/.sort()/min()/max() in scope the leading element class is inferred from annotations; for each
repository class found that defines __lt__, the decision table of __lt__ (bool_returns mode) is evaluated on every abstract
pair of operands and on the swapped pair: for operands __eq__ can distinguish exactly one of a<b, b<a must hold, for
operands it cannot distinguish neither.

Family note: __lt__ is never evaluated on sample keys.  The table comes from sa.tables (path enumeration, canonical atoms);
its atoms are split into unary predicates of one operand (`@.f is None`), and ordering atoms `P(self) < P(other)` with one
projection P on both sides; the *worlds* are all truth assignments of the unary predicates for the two operands times the
trichotomy lt/eq/gt of the projection pair (pruned when the projection contains a field on which the unary predicates
already differ); the rows that fire in a world and in the world with the operands exchanged are compared."""
from __future__ import annotations

import ast
import itertools
import typing as T

from ..core import Module, Undecided, norm, short, attr_chain, walk_no_nested
from ..report import RuleCtx
from .. import tables
from ..tables import Atom
from .c06_types import ann_node, base_name, sub_args, MAPPING_NAMES
from .c06_order import FC
from .c06_sites import SiteScanner

SEQ_NAMES = {'Set', 'FrozenSet', 'AbstractSet', 'MutableSet', 'set', 'frozenset', 'List', 'list', 'Sequence', 'MutableSequence', 'Iterable',
             'Iterator', 'Collection', 'OrderedSet', 'Deque', 'deque', 'KeysView', 'ValuesView', 'ItemsView', 'Generator', 'ImmutableListProtocol'}
BUILTIN_TOTAL = {'str', 'int', 'bytes', 'float', 'bool', 'Language', 'Path', 'PurePath'}


def _unkeyed_iterable(call: ast.Call) -> T.Optional[ast.AST]:
    if any(k.arg == 'key' for k in call.keywords):
        return None
    f = call.func
    if isinstance(f, ast.Name) and f.id == 'sorted' and call.args:
        return call.args[0]
    if isinstance(f, ast.Name) and f.id in ('min', 'max') and len(call.args) == 1 and not isinstance(call.args[0], ast.Starred):
        return call.args[0]
    if isinstance(f, ast.Attribute) and f.attr == 'sort' and not call.args:
        return f.value
    return None


class _Elems:
    def __init__(self, sc: SiteScanner):
        self.sc = sc
        self.res = sc.res

    def expand(self, ann: T.Optional[ast.AST], mod: Module, depth: int = 0) -> T.List[T.Tuple[ast.AST, Module]]:
        """Members of Optional/Union with type aliases expanded."""
        a = ann_node(ann)
        if a is None or depth > 6:
            return []
        if isinstance(a, ast.Constant) and a.value is None:
            return []
        if isinstance(a, ast.BinOp) and isinstance(a.op, ast.BitOr):
            return self.expand(a.left, mod, depth + 1) + self.expand(a.right, mod, depth + 1)
        b = base_name(a)
        if b in ('Optional', 'Union'):
            out: T.List[T.Tuple[ast.AST, Module]] = []
            for m in sub_args(a):
                out += self.expand(m, mod, depth + 1)
            return out
        if isinstance(a, (ast.Name, ast.Attribute)):
            chain = attr_chain(a) or ''
            head, _, tail = chain.partition('.')
            m2: T.Optional[Module] = mod
            name = chain
            if tail:
                m2 = self.res.module_alias(mod, head)
                name = tail
            if m2 is not None and '.' not in name:
                g = self.res.resolve_global(m2, name)
                if g is not None and not g[0].has_cls(g[1]) and g[0].has_assign(g[1]):
                    v = ann_node(g[0].assign_value(g[1]))
                    if isinstance(v, (ast.Subscript, ast.Attribute, ast.Name, ast.BinOp)):
                        return self.expand(v, g[0], depth + 1)
        return [(a, mod)]

    def container_anns(self, e: ast.AST, fc: FC) -> T.List[T.Tuple[ast.AST, Module]]:
        t = self.sc.ty(e, fc)
        if t.ann is not None and t.mod is not None:
            return self.expand(t.ann, t.mod)
        c = self.sc.class_of(e, fc)
        if c is not None:
            return [(ast.Name(id=c[1].name, ctx=ast.Load()), c[0])]
        return []

    def elem_anns(self, e: ast.AST, fc: FC, depth: int = 0) -> T.List[T.Tuple[ast.AST, Module]]:
        """Annotation(s) of the *leading* component of the elements of iterable e."""
        if depth > 4:
            return []
        if isinstance(e, (ast.GeneratorExp, ast.ListComp, ast.SetComp)):
            elt = e.elt.elts[0] if isinstance(e.elt, ast.Tuple) and e.elt.elts else e.elt
            g = e.generators[0]
            tgt = g.target.elts[0] if isinstance(g.target, ast.Tuple) and g.target.elts else g.target
            if isinstance(elt, ast.Name) and isinstance(tgt, ast.Name) and elt.id == tgt.id:
                return self.elem_anns(g.iter, fc, depth + 1)
            return []
        out: T.List[T.Tuple[ast.AST, Module]] = []
        if isinstance(e, ast.Call) and isinstance(e.func, ast.Attribute) and e.func.attr in ('items', 'keys', 'values') and not e.args:
            which = e.func.attr
            for a, m in self.container_anns(e.func.value, fc):
                b = base_name(a)
                args = sub_args(a)
                if b in MAPPING_NAMES and len(args) == 2:
                    out += self.expand(args[1] if which == 'values' else args[0], m)
                    continue
                c = self.res.class_by_ann(a, m)
                if c is not None:
                    fm = self.sc.repo.find_method(c[0], c[1], which)
                    if fm is not None and fm[2].returns is not None:
                        ra = sub_args(fm[2].returns)
                        if ra:
                            out += self.expand(ra[0], fm[0])
            return out
        for a, m in self.container_anns(e, fc):
            b = base_name(a)
            args = sub_args(a)
            if b in MAPPING_NAMES and args:
                out += self.expand(args[0], m)
            elif b in SEQ_NAMES and args:
                first = ann_node(args[0])
                if base_name(first) in ('Tuple', 'tuple') and sub_args(first):
                    first = sub_args(first)[0]
                out += self.expand(first, m)
            elif b in ('Tuple', 'tuple') and args:
                out += self.expand(args[0], m)
        return out


# ------------------------------------------------------------------------------------------ the order check
def _self_fields(mod: Module, cls: ast.ClassDef, repo: T.Any, e: ast.AST, side: str, depth: int = 0) -> T.Set[str]:
    """Fields of operand `side` ('self' / 'ARG1') that expression e reads (methods of the class inlined one level)."""
    out: T.Set[str] = set()
    for n in ast.walk(e):
        if isinstance(n, ast.Attribute) and isinstance(n.value, ast.Name) and n.value.id == side:
            fm = repo.find_method(mod, cls, n.attr)
            if fm is not None and depth < 2:
                for st in fm[2].body:
                    out |= _self_fields(fm[0], fm[1], repo, st, 'self', depth + 1)
            else:
                out.add(n.attr)
    return out


def _side_of(text: str) -> T.Tuple[T.Optional[str], str]:
    """('self'|'ARG1'|None when mixed/neither, text with the operand replaced by @)."""
    e = ast.parse(text, mode='eval').body
    sides = {n.id for n in ast.walk(e) if isinstance(n, ast.Name) and n.id in ('self', 'ARG1')}
    if len(sides) != 1:
        return None, text
    side = next(iter(sides))

    class R(ast.NodeTransformer):
        def visit_Name(self, n: ast.Name) -> ast.AST:
            return ast.Name(id='@', ctx=n.ctx) if n.id == side else n
    return side, norm(R().visit(e))


def check_lt(ctx: RuleCtx, sc: SiteScanner, mod: Module, cls: ast.ClassDef, users: T.List[str]) -> None:
    repo = sc.repo
    fm = repo.find_method(mod, cls, '__lt__')
    assert fm is not None
    m, c, fn = fm
    qual = f'{c.name}.__lt__'
    eq = repo.find_method(mod, cls, '__eq__')
    E: T.Set[str] = set()
    basis = '__eq__'
    if eq is None:
        # functools.total_ordering derives <=, >, >= from < and ==; with the inherited identity == two distinct instances that tie under <
        # are neither <= nor >= each other.  The class therefore promises that < separates any two instances built from different
        # constructor arguments: the fields bound directly from __init__ parameters take the place of the __eq__ fields.
        from ..core import decorator_names
        init = repo.find_method(mod, cls, '__init__')
        if not any(d.split('.')[-1] == 'total_ordering' for d in decorator_names(cls)) or init is None:
            ctx.note(f'{qual}: class has no __eq__ in the repository (identity / generated equality) and is not a total_ordering value class: '
                     f'consistency not decided; used by {users[:3]}')
            return
        params = {a.arg for a in init[2].args.posonlyargs + init[2].args.args + init[2].args.kwonlyargs}
        for n in ast.walk(init[2]):
            if isinstance(n, ast.Assign) and isinstance(n.value, ast.Name) and n.value.id in params:
                for t in n.targets:
                    if isinstance(t, ast.Attribute) and attr_chain(t.value) == 'self':
                        E.add(t.attr)
        basis = 'the constructor arguments (total_ordering class with identity ==)'
    else:
        for st in eq[2].body:
            E |= _self_fields(eq[0], eq[1], repo, st, 'self')
    if not E:
        raise Undecided(f'{c.name}: no identifying field found ({basis})')
    tab = tables.extract(fn, bool_returns=True, name=qual)
    rows = []
    for r in tab.rows:
        inst = [(a, v) for a, v in r.conds.items() if a.kind == 'isinstance' and a.args[0] == 'ARG1']
        if r.outcome == ('return', 'NotImplemented'):
            if any(v for a, v in inst):
                raise Undecided(f'{qual}: NotImplemented for an operand of the class itself')
            continue
        if any(not v for a, v in inst):
            continue
        if r.outcome not in (('return', 'True'), ('return', 'False')):
            raise Undecided(f'{qual}: row does not return a boolean: {r!r}')
        rows.append(r)
    if not rows:
        raise Undecided(f'{qual}: no comparing row')
    # classify atoms
    unary: T.Dict[Atom, T.Tuple[str, str]] = {}      # atom -> (side, predicate text over @)
    order: T.Dict[Atom, T.Tuple[str, bool]] = {}     # atom -> (projection text over @, True when lt(P(self), P(other)))
    for r in rows:
        for a in r.conds:
            if a in unary or a in order or a.kind == 'isinstance':
                continue
            if a.kind == 'is' or a.kind == 'truth':
                txt = f'{a.args[0]} is {a.args[1]}' if a.kind == 'is' else a.args[0]
                side, p = _side_of(txt)
                if side is None:
                    raise Undecided(f'{qual}: condition `{a!r}` mixes the operands')
                unary[a] = (side, p)
            elif a.kind == 'cmp' and a.args[0] == 'lt':
                s1, p1 = _side_of(a.args[1])
                s2, p2 = _side_of(a.args[2])
                if s1 is None or s2 is None or s1 == s2:
                    raise Undecided(f'{qual}: comparison `{a!r}` is not between the two operands')
                if p1 != p2:
                    raise Undecided(f'{qual}: comparison `{a!r}` uses different projections on the two sides ({p1} vs {p2})')
                order[a] = (p1, s1 == 'self')
            else:
                raise Undecided(f'{qual}: condition `{a!r}` is outside the vocabulary of the order check')
    preds = sorted({p for _, p in unary.values()})
    pfields: T.Dict[str, T.Set[str]] = {}
    for p in preds + sorted({p for p, _ in order.values()}):
        e = ast.parse(p.replace('@', 'self'), mode='eval').body
        pfields[p] = _self_fields(m, c, repo, e, 'self')
    # a projection may read more fields than __eq__ (a finer order); what matters below is that every __eq__ field is either compared
    # or pinned equal by the row's conditions

    def compatible(r: tables.Row, sa: T.Dict[str, bool], sb: T.Dict[str, bool]) -> bool:
        for a, v in r.conds.items():
            if a in unary:
                side, p = unary[a]
                if (sa if side == 'self' else sb)[p] != v:
                    return False
        return True

    def fire(rs: T.List[tables.Row], pw: T.Optional[str]) -> T.List[tables.Row]:
        out = []
        for r in rs:
            ok = True
            for a, v in r.conds.items():
                if a in order:
                    _, fwd = order[a]
                    holds = (pw == 'lt') if fwd else (pw == 'gt')
                    if holds != v:
                        ok = False
            if ok:
                out.append(r)
        return out

    worlds = 0
    bad: T.Dict[str, T.Tuple[tables.Row, str]] = {}
    states = [dict(zip(preds, vals)) for vals in itertools.product([True, False], repeat=len(preds))]
    swap = {'lt': 'gt', 'gt': 'lt', 'eq': 'eq', None: None}
    for sa in states:
        for sb in states:
            r1 = [r for r in rows if compatible(r, sa, sb)]
            r2 = [r for r in rows if compatible(r, sb, sa)]
            projs = sorted({order[a][0] for r in r1 + r2 for a in r.conds if a in order})
            if len(projs) > 1:
                raise Undecided(f'{qual}: more than one ordering projection in one case ({projs})')
            differ = {f for p in preds if sa[p] != sb[p] for f in pfields[p]}
            known_eq = {f for p in preds if p.endswith(' is None') and sa[p] and sb[p] for f in pfields[p]}
            for pw in (('lt', 'eq', 'gt') if projs else (None,)):
                if pw == 'eq' and differ & pfields[projs[0]]:
                    continue     # contradictory: the projection contains a field on which the operands differ
                f1, f2 = fire(r1, pw), fire(r2, swap[pw])
                if len(f1) != 1 or len(f2) != 1:
                    raise Undecided(f'{qual}: {len(f1)}/{len(f2)} rows fire for one abstract pair of operands')
                worlds += 1
                c1, c2 = f1[0].outcome[1] == 'True', f2[0].outcome[1] == 'True'
                case = ', '.join(f'{"" if v else "not "}{p.replace("@", "self")}' for p, v in sa.items()) + ' / ' + \
                    ', '.join(f'{"" if v else "not "}{p.replace("@", "other")}' for p, v in sb.items()) + (f' / projection {pw}' if pw else '')
                certainly_different = bool(differ) or pw in ('lt', 'gt')
                keq = known_eq | (pfields[projs[0]] if pw == 'eq' else set())
                msg = None
                if certainly_different:
                    if c1 == c2:
                        msg = (f'for two different operands ({case}) both `a < b` and `b < a` are {c1}: '
                               f'{"neither is less, sorted() keeps the incoming order" if not c1 else "the relation is not asymmetric"}')
                elif E <= keq:
                    if c1 or c2:
                        msg = f'for operands that __eq__ cannot distinguish ({case}) `a < b` is True'
                else:
                    free = sorted(E - keq)
                    # the row cannot tell equal operands (must be False/False) from different ones (exactly one True)
                    msg = (f'the result for ({case}) is the constant {c1} although the operands can still differ in {free} '
                           f'(fields of {basis}): two distinct values are mutually not-less, a stable sorted() keeps them in their incoming order')
                if msg:
                    bad.setdefault(repr(f1[0]), (f1[0], msg))
    for key, (row, msg) in bad.items():
        node = row.path.events[-1].node if row.path.events else fn
        ctx.violation(m, qual, key, f'{msg}. Reaches un-keyed sorted()/min()/max() in {users[:4]}', node)
    if not bad:
        ctx.ok(f'{qual}: strict total order consistent with {basis} over fields {sorted(E)} on {worlds} abstract operand pairs ({len(rows)} rows)')
    ctx.note(f'{qual}: table {tab.dump()}')


def check(ctx: RuleCtx, sc: SiteScanner, modules: T.List[str]) -> None:
    el = _Elems(sc)
    repo = sc.repo
    per_class: T.Dict[T.Tuple[str, str], T.Tuple[Module, ast.ClassDef, T.List[str]]] = {}
    n_calls = n_builtin = n_unknown = 0
    for rel in modules:
        if not repo.exists(rel):
            continue
        mod = repo.module(rel)
        for q, fn in mod.funcs().items():
            fc: T.Optional[FC] = None
            for n in sc.res.own_nodes(mod, fn):
                if not isinstance(n, ast.Call):
                    continue
                it = _unkeyed_iterable(n)
                if it is None:
                    continue
                if fc is None:
                    fc = sc._fc_chain(mod, fn, q)
                n_calls += 1
                anns = el.elem_anns(it, fc)
                if not anns:
                    n_unknown += 1
                    ctx.note(f'{rel}:{n.lineno} {q}: element type of `{short(n, 60)}` not inferred')
                    continue
                for a, m in anns:
                    c = sc.res.class_by_ann(a, m)
                    if c is None:
                        if base_name(a) in BUILTIN_TOTAL:
                            n_builtin += 1
                        else:
                            n_unknown += 1
                            ctx.note(f'{rel}:{n.lineno} {q}: elements of `{short(n, 50)}` are {norm(a)}: not a repository class')
                        continue
                    cm, cc = c
                    # IntEnum / str subclasses order like their builtin base
                    bases = {base_name(b) for mm, k in repo.mro(cm, cc) for b in k.bases}
                    fm = repo.find_method(cm, cc, '__lt__')
                    if fm is None:
                        if bases & {'IntEnum', 'str', 'int', 'IntFlag'}:
                            n_builtin += 1
                        else:
                            ctx.note(f'{rel}:{n.lineno} {q}: elements of `{short(n, 50)}` are {cc.name}, which defines no __lt__ in the repository')
                        continue
                    key = (fm[0].rel, fm[1].name)
                    per_class.setdefault(key, (cm, cc, []))[2].append(f'{rel}:{q}')
    ctx.note(f'un-keyed sorted()/sort()/min()/max() calls in scope: {n_calls}; builtin element order: {n_builtin}; not inferred: {n_unknown}')
    ctx.floor('un-keyed sort calls examined', n_calls, 8)
    ctx.floor('repository classes whose __lt__ carries an un-keyed sort', len(per_class), 1)
    for key in sorted(per_class):
        cm, cc, users = per_class[key]
        check_lt(ctx, sc, cm, cc, sorted(set(users)))
    # every other repository class that defines __lt__: its instances can meet a stable sort anywhere (lists built from directory
    # listings, dict items ...); shapes the table check cannot read are recorded, not judged
    extra = 0
    for rel in repo.py_files('mesonbuild'):
        if 'def __lt__' not in repo.read(rel):       # text pre-filter only: which files are worth parsing
            continue
        mod = repo.module(rel)
        for q, cls in mod.classes().items():
            own = [st for st in cls.body if isinstance(st, (ast.FunctionDef, ast.AsyncFunctionDef)) and st.name == '__lt__']
            if not own or (rel, cls.name) in per_class:
                continue
            if len(own[0].body) == 1 and isinstance(own[0].body[0], ast.Expr) and isinstance(own[0].body[0].value, ast.Constant):
                continue        # protocol stub `...`
            extra += 1
            before = len(ctx.findings)
            try:
                check_lt(ctx, sc, mod, cls, [f'{rel}:{cls.name} (any sort of its instances)'])
            except Undecided as e:
                del ctx.findings[before:]
                ctx.note(f'{rel}:{cls.name}.__lt__: not decided ({e})')
    ctx.floor('further repository classes with __lt__ examined', extra, 2)
