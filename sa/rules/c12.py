"""C12 — `meson test` scheduling and verdicts (DESIGN §2 C12, Appendix A.13)."""
from __future__ import annotations

import ast
import itertools
import typing as T

from ..core import Undecided, AnchorMissing, Module, norm, short, attr_chain, call_name, call_method, walk_no_nested, chains_in, \
    decorator_names, names_in
from ..report import Rule, RuleCtx
from ..cfg import CFG
from ..paths import enumerate_paths
from ..flow import Flow
from .. import tables
from ..tables import Atom
from .c12_interp import Interp, Obj, Sym, Member, ClassRef, Frame, Raised, explore, outcome, Leaf, tagged, tag_of

MTEST = 'mesonbuild/mtest.py'
BACKENDS = 'mesonbuild/backend/backends.py'

EXPLANATION = (
    'Decides structural clauses of C12.  R1: in TestHarness._run_tests every path through the per-runner loop schedules the '
    'runner closure exactly once, records the future in the collection that the barriers wait on, and - unless the path has '
    'established runner.is_parallel - awaits complete_all(futures) before and complete(future) after the scheduling; every way '
    'out of the loop passes the final complete_all barrier.  R2: inside the runner closure test.run() is awaited only while an '
    '`async with` on the one asyncio.Semaphore(self.options.num_processes) is held and after the cancellation flag was seen false; '
    'is_parallel of a runner implies test.is_parallel and num_processes > 1; num_processes is only ever lowered.  '
    'R3a: the end-to-end classification table of every protocol class (complete -> super().complete -> _complete), evaluated on a '
    'finite world of (previous result, exit status, expected status, should_fail, interactive), equals the documented rule.  '
    'R3b: the timeout table of SingleTestRunner.__init__.  R3c: tests are serialised by descending priority and the scheduling '
    'fields are stored in the slots mtest reads.  R4: process_test_result has exactly one counter per finished result with the '
    'documented grouping, total_failure_count sums exactly the counters of TestResult.is_bad, doit returns non-zero iff that sum '
    'is positive, summary prints every counter under its label.  R5: --slice i/n parsing and tests[i-1::n] partition the test list.  '
    'Does NOT decide asyncio interleavings beyond this await protocol, that timeouts kill process groups, or --maxfail timing.')
ASSUMPTIONS = [
    'asyncio.Semaphore(n) admits at most n holders; awaiting a future returns only after it is done',
    'complete_all(futures) / complete(future) wait for their argument (only the flow parameter -> awaited expression is checked)',
    'TestResult members are compared by identity/equality only; exit statuses only by equality (checked: otherwise undecided)',
]
TECHNIQUE = 'path typestate over the scheduler loop + CFG must-pass + finite-domain evaluation of the classification/tally/slice tables'


# ---------------------------------------------------------------------------
# R1 / R2: the scheduler protocol
# ---------------------------------------------------------------------------

class Sched:
    """Resolved structure of TestHarness._run_tests."""

    def __init__(self, mod: Module):
        self.mod = mod
        self.fn = fn = mod.func('TestHarness._run_tests')
        params = [a.arg for a in fn.args.args if a.arg != 'self']
        if not params:
            raise Undecided('_run_tests has no runners parameter')
        self.runners = params[0]
        self.nested: T.Dict[str, T.Any] = {n.name: n for n in ast.walk(fn) if isinstance(n, (ast.FunctionDef, ast.AsyncFunctionDef)) and n is not fn}
        # runner closures: nested functions that call <their parameter>.run(...)
        self.closures: T.Dict[str, T.Tuple[T.Any, str]] = {}
        for name, n in self.nested.items():
            ps = [a.arg for a in n.args.args]
            for c in ast.walk(n):
                if isinstance(c, ast.Call) and isinstance(c.func, ast.Attribute) and c.func.attr == 'run' and isinstance(c.func.value, ast.Name) and c.func.value.id in ps:
                    self.closures[name] = (n, c.func.value.id)
        if not self.closures:
            raise Undecided('_run_tests: no nested function runs a test (<param>.run(...))')
        self.awaited = {id(a.value) for a in ast.walk(fn) if isinstance(a, ast.Await)}
        self.sites = [c for c in ast.walk(fn) if isinstance(c, ast.Call) and isinstance(c.func, ast.Name) and c.func.id in self.closures]
        loops = [st for st in walk_no_nested(fn) if isinstance(st, (ast.For, ast.AsyncFor)) and isinstance(st.iter, ast.Name) and st.iter.id == self.runners]
        if len(loops) != 1 or not isinstance(loops[0].target, ast.Name):
            raise Undecided(f'_run_tests: expected exactly one `for <name> in {self.runners}` loop, found {len(loops)}')
        self.loop = loops[0]
        self.var = loops[0].target.id
        ann = next((norm(a.annotation) for a in fn.args.args if a.arg == self.runners and a.annotation is not None), '')
        if 'SingleTestRunner' not in ann:
            raise Undecided(f'_run_tests: {self.runners} is not annotated as a list of SingleTestRunner ({ann})')
        # a waiting primitive whose coroutine is stored instead of awaited in place is an idiom this pack does not follow
        pm = mod.parent_map()
        for c in ast.walk(fn):
            if isinstance(c, ast.Call) and isinstance(c.func, ast.Name) and c.func.id in ('complete', 'complete_all') and id(c) not in self.awaited \
                    and not isinstance(pm.get(c), ast.Expr):
                raise Undecided(f'_run_tests: {short(c)} is neither awaited in place nor discarded')
        self.in_loop = {id(n) for st in self.loop.body for n in ast.walk(st)}

    def is_barrier_all(self, c: ast.Call) -> T.Optional[str]:
        """`await complete_all(F)` without a timeout -> F."""
        if id(c) in self.awaited and isinstance(c.func, ast.Name) and c.func.id == 'complete_all' and c.args and isinstance(c.args[0], ast.Name):
            extra = list(c.args[1:]) + [k.value for k in c.keywords]
            if all(isinstance(x, ast.Constant) and x.value is None for x in extra):
                return c.args[0].id
        return None


def _waiting_primitive(ctx: RuleCtx, mod: Module, name: str) -> None:
    fn = mod.func(name)
    if not isinstance(fn, ast.AsyncFunctionDef) or not fn.args.args:
        raise Undecided(f'{name} is not an async function of one future argument')
    p0 = fn.args.args[0].arg
    fl = Flow(fn, nested=False)
    aw = [a for a in walk_no_nested(fn) if isinstance(a, ast.Await)]
    ok = any(f'param:{p0}' in fl.origins(a.value) for a in aw)
    ctx.require(ok, f'{name}({p0}) awaits an expression fed by its argument', mod, name, fn,
                f'{name} does not await anything derived from its parameter {p0}: it is not a barrier')


def r1(ctx: RuleCtx) -> None:
    mod = ctx.repo.module(MTEST)
    s = Sched(mod)
    fq = 'TestHarness._run_tests'
    _waiting_primitive(ctx, mod, 'complete')
    _waiting_primitive(ctx, mod, 'complete_all')

    # (a) scheduling sites: only in the per-runner loop, only for the loop's runner
    ctx.floor('scheduling call sites', len(s.sites), 1)
    if not s.sites:
        ctx.violation(mod, fq, 'no call of ' + '/'.join(s.closures), 'the runner closure is never scheduled: no test is started')
    for c in s.sites:
        inside = id(c) in s.in_loop
        ctx.require(inside, f'scheduling call {short(c)} is inside the `for {s.var} in {s.runners}` loop', mod, fq, c,
                    f'{short(c)} schedules a test outside the per-runner loop (a test can be started twice / out of protocol)')
        argok = len(c.args) == 1 and isinstance(c.args[0], ast.Name) and c.args[0].id == s.var and not c.keywords
        if inside:
            ctx.require(argok, f'{short(c)} schedules the loop variable', mod, fq, c,
                        f'{short(c)} does not schedule the runner of this iteration ({s.var})')

    # futures collection used by the barriers
    colls = {s.is_barrier_all(c) for c in ast.walk(s.fn) if isinstance(c, ast.Call)} - {None}
    if len(colls) != 1:
        if not colls:
            ctx.violation(mod, fq, 'await complete_all(<futures>)', 'no `await complete_all(<collection>)` barrier exists in _run_tests')
            return
        raise Undecided(f'_run_tests: barriers wait on several collections {sorted(colls)}')
    coll = T.cast(str, next(iter(colls)))
    stores = [n for n in ast.walk(s.fn) if isinstance(n, ast.Name) and n.id == coll and isinstance(n.ctx, (ast.Store, ast.Del))]
    if len(stores) != 1 or id(stores[0]) in s.in_loop:
        raise Undecided(f'_run_tests: the futures collection {coll} is rebound')

    # (b) per-path protocol of one loop iteration
    tab = tables.extract(s.fn, body=s.loop.body, handlers=True, name='_run_tests:loop')
    par = Atom('truth', (f'{s.var}.is_parallel',))
    for a in tab.atoms():
        txt = repr(a)
        if a != par and 'is_parallel' in txt:
            raise Undecided(f'_run_tests: parallelism tested through an unknown expression: {txt}')
    ctx.floor('paths through one loop iteration', len(tab.rows), 2)
    n_serial = 0
    for row in tab.rows:
        calls = row.path.calls()
        stmt_of: T.Dict[int, ast.AST] = {}
        for ev in row.path.events:
            if ev.node is not None and ev.kind == 'stmt':
                for n in walk_no_nested(ev.node):
                    stmt_of[id(n)] = ev.node
        sched_idx = [i for i, c in enumerate(calls) if isinstance(c.func, ast.Name) and c.func.id in s.closures]
        desc = ' & '.join(('' if v else 'not ') + repr(a) for a, v in row.conds.items()) or 'always'
        what = f'iteration path [{desc}] -> {row.outcome[0]}'
        cons = f'loop path: {desc}'
        node = s.loop
        back = row.outcome[0] in ('fall', 'continue')
        if len(sched_idx) > 1:
            ctx.violation(mod, fq, cons, f'{what}: the runner is scheduled {len(sched_idx)} times in one iteration', node)
            continue
        if not sched_idx:
            if back:
                ctx.violation(mod, fq, cons, f'{what}: the iteration ends without scheduling {s.var}: the test is never started', node)
            else:
                ctx.ok(f'{what}: leaves the loop without scheduling (cut short)')
            continue
        si = sched_idx[0]
        sc = calls[si]
        st = stmt_of.get(id(sc))
        fut: T.Optional[str] = None
        inline = id(sc) in s.awaited
        if not inline:
            okshape = (isinstance(st, ast.Assign) and len(st.targets) == 1 and isinstance(st.targets[0], ast.Name) and isinstance(st.value, ast.Call)
                       and call_method(st.value) in ('ensure_future', 'create_task') and st.value.args and st.value.args[0] is sc)
            if not okshape:
                raise Undecided(f'_run_tests: unknown scheduling idiom {short(st)}')
            fut = st.targets[0].id   # type: ignore[union-attr]
        before = calls[:si]
        after = calls[si + 1:]
        ball_before = [c for c in before if s.is_barrier_all(c) == coll]
        rec = [i for i, c in enumerate(after) if isinstance(c.func, ast.Attribute) and c.func.attr in ('append', 'appendleft', 'add')
               and isinstance(c.func.value, ast.Name) and c.func.value.id == coll and len(c.args) == 1 and isinstance(c.args[0], ast.Name) and c.args[0].id == fut]
        problems: T.List[str] = []
        if fut is not None and not rec:
            problems.append(f'the future {fut} is not added to {coll}: the barriers do not wait for it')
        serial = row.conds.get(par) is not True
        if serial:
            n_serial += 1
            if not ball_before:
                others = [a for a in row.conds if a != par and coll in names_in(ast.parse(_atom_src(a), mode='eval'))]
                if others:
                    raise Undecided(f'_run_tests: the barrier before a serial test depends on {others}')
                problems.append(f'a test that may be non-parallel is scheduled without `await complete_all({coll})` first: it can overlap a running test')
            if back and not inline:
                done_one = [c for c in after if id(c) in s.awaited and isinstance(c.func, ast.Name) and c.func.id == 'complete'
                            and len(c.args) == 1 and isinstance(c.args[0], ast.Name) and c.args[0].id == fut]
                done_all = [i for i, c in enumerate(after) if s.is_barrier_all(c) == coll and rec and i > rec[0]]
                if not done_one and not done_all:
                    unknown_waits = [c for c in after if id(c) in s.awaited and fut in names_in(c)]
                    if unknown_waits:
                        raise Undecided(f'_run_tests: unknown way of waiting for the serial test: {short(unknown_waits[0])}')
                    problems.append(f'the next iteration starts without `await complete({fut})`: the following test can overlap a non-parallel one')
        if problems:
            for p in problems:
                ctx.violation(mod, fq, cons + ' :: ' + p.split(':')[0], f'{what}: {p}', node)
        else:
            ctx.ok(f'{what}: scheduled once' + (', barrier before' if serial else '') + (', awaited after' if serial and back else '') + (f', recorded in {coll}' if fut else ''))
    ctx.floor('serial-feasible iteration paths', n_serial, 1)

    # (c) final barrier: every way out of the loop to a normal return awaits all futures
    cfg = CFG(s.fn)
    joins = [n for n in cfg.nodes if n.kind == 'join' and n.ast is s.loop]
    balls = [n for n in cfg.nodes if n.kind == 'stmt' and id(n.ast) not in s.in_loop and
             any(isinstance(c, ast.Call) and s.is_barrier_all(c) == coll for c in walk_no_nested(n.ast))]
    if len(joins) != 1:
        raise Undecided('_run_tests: loop exit not found in the CFG')
    ok = bool(balls) and cfg.must_pass(joins[0], cfg.exit_return, balls)
    ctx.require(ok, f'every path from the end of the loop to the return passes `await complete_all({coll})`', mod, fq,
                f'final await complete_all({coll})', f'_run_tests can return (and the totals be printed) while scheduled tests are still running: '
                f'no `await complete_all({coll})` on some path after the loop', s.loop)


def _event_roots(ev: T.Any) -> T.List[ast.AST]:
    """The expressions evaluated at a path event (not the body of a compound statement)."""
    if ev.node is None:
        return []
    if ev.kind == 'iter':
        return [ev.node.iter]
    if ev.kind == 'with':
        return [i.context_expr for i in ev.node.items]
    if ev.kind == 'exc':
        return []
    return [ev.node]


def _atom_src(a: Atom) -> str:
    if a.kind == 'truth':
        return a.args[0]
    if a.kind == 'isinstance':
        return a.args[0]
    if a.kind == 'cmp':
        return f'({a.args[1]}, {a.args[2]})'
    return f'({a.args[0]}, {a.args[1]})'


def _init_alias_world(it: Interp, mod: Module, cls: str, values: T.Dict[str, T.Any]) -> T.Tuple[Frame, Obj]:
    """Frame for evaluating expressions of `cls.__init__`: parameters annotated TestSerialisation / Namespace are
    objects whose attributes come from `values` ('test.x' / 'options.y'); `self.a = <param>` aliases are honoured."""
    fn = mod.func(f'{cls}.__init__')
    roles: T.Dict[str, str] = {}
    for a in fn.args.args:
        ann = norm(a.annotation) if a.annotation is not None else ''
        if ann.endswith('TestSerialisation'):
            roles[a.arg] = 'test'
        elif ann.endswith('Namespace'):
            roles[a.arg] = 'options'
    if sorted(roles.values()) != ['options', 'test']:
        raise Undecided(f'{cls}.__init__: cannot identify the test / options parameters')
    objs = {'test': Obj('test'), 'options': Obj('options')}
    for k, v in values.items():
        role, _, attr = k.partition('.')
        objs[role].attrs[attr] = tagged(v, attr)
    self_obj = Obj('self', ClassRef(mod, mod.cls(cls)))
    env: T.Dict[str, T.Any] = {'self': self_obj}
    for a in fn.args.args:
        if a.arg == 'self':
            continue
        env[a.arg] = objs[roles[a.arg]] if a.arg in roles else Sym(a.arg)
    for st in fn.body:
        if isinstance(st, ast.Assign) and len(st.targets) == 1 and isinstance(st.targets[0], ast.Attribute) and isinstance(st.targets[0].value, ast.Name) \
                and st.targets[0].value.id == 'self' and isinstance(st.value, ast.Name) and st.value.id in roles:
            self_obj.attrs[st.targets[0].attr] = objs[roles[st.value.id]]
    # the tracked inputs must not be written by the constructor
    for n in ast.walk(fn):
        if isinstance(n, ast.Attribute) and isinstance(n.ctx, ast.Store):
            ch = attr_chain(n) or ''
            for k in values:
                role, _, attr = k.partition('.')
                if ch.endswith('.' + attr) and any(ch.startswith(p) for p in [r for r, ro in roles.items() if ro == role] + [f'self.{x}' for x, o in self_obj.attrs.items() if o is objs[role]]):
                    raise Undecided(f'{cls}.__init__ writes {ch}')
    return Frame(mod, env, ClassRef(mod, mod.cls(cls)), self_obj, 0), self_obj


def _slice_for(fn: T.Any, expr: ast.AST) -> T.List[ast.stmt]:
    """Top-level statements of fn that (transitively) define the local names read by expr (backward slice)."""
    params = {a.arg for a in fn.args.args + fn.args.kwonlyargs}
    need = {n for n in names_in(expr)} - params
    chosen: T.List[ast.stmt] = []
    changed = True
    while changed:
        changed = False
        for st in fn.body:
            if st in chosen:
                continue
            stores = {n.id for n in walk_no_nested(st) if isinstance(n, ast.Name) and isinstance(n.ctx, ast.Store)}
            if stores & need:
                chosen.append(st)
                need |= {n.id for n in walk_no_nested(st) if isinstance(n, ast.Name) and isinstance(n.ctx, ast.Load)} - params
                changed = True
    return [st for st in fn.body if st in chosen]


def _testrun_arg(mod: Module, field: str) -> T.Tuple[T.Any, ast.AST, str]:
    """The expression SingleTestRunner.__init__ passes for the TestRun attribute `field` read through self.runobj."""
    prop = mod.func(f'SingleTestRunner.{field}')
    if 'property' not in decorator_names(prop):
        raise Undecided(f'SingleTestRunner.{field} is not a property')
    rets = [n for n in walk_no_nested(prop) if isinstance(n, ast.Return)]
    ch = attr_chain(rets[0].value) if len(rets) == 1 and rets[0].value is not None else None
    if not ch or len(ch.split('.')) != 3 or not ch.startswith('self.'):
        raise Undecided(f'SingleTestRunner.{field}: unknown shape {short(prop)}')
    _, holder, attr = ch.split('.')
    init = mod.func('SingleTestRunner.__init__')
    builds = [st for st in ast.walk(init) if isinstance(st, ast.Assign) and len(st.targets) == 1 and attr_chain(st.targets[0]) == f'self.{holder}']
    if len(builds) != 1 or not isinstance(builds[0].value, ast.Call) or not isinstance(builds[0].value.func, ast.Name):
        raise Undecided(f'SingleTestRunner.__init__: self.{holder} is not built by one constructor call')
    call = builds[0].value
    cls = call.func.id   # type: ignore[union-attr]
    tinit = mod.func(f'{cls}.__init__')
    src = [st for st in ast.walk(tinit) if isinstance(st, ast.Assign) and len(st.targets) == 1 and attr_chain(st.targets[0]) == f'self.{attr}']
    if len(src) != 1 or not isinstance(src[0].value, ast.Name):
        raise Undecided(f'{cls}.__init__: self.{attr} is not a plain copy of a parameter')
    pname = src[0].value.id
    params = [a.arg for a in tinit.args.args if a.arg != 'self']
    if pname not in params:
        raise Undecided(f'{cls}.__init__: {pname} is not a parameter')
    for k in call.keywords:
        if k.arg == pname:
            return init, k.value, cls
    idx = params.index(pname)
    if idx < len(call.args) and not any(isinstance(a, ast.Starred) for a in call.args):
        return init, call.args[idx], cls
    raise Undecided(f'SingleTestRunner.__init__: no argument for {cls}.{pname}')


def _eval_init_expr(ctx: RuleCtx, mod: Module, init: T.Any, expr: ast.AST, values: T.Dict[str, T.Any]) -> T.List[Leaf]:
    stmts = _slice_for(init, expr)

    def run(it: Interp) -> T.Any:
        fr, _ = _init_alias_world(it, mod, 'SingleTestRunner', values)

        def thunk() -> T.Any:
            it.exec_block(stmts, fr)
            return it.eval(expr, fr)
        return outcome(it, thunk)
    return explore(ctx.repo, run)


def r2(ctx: RuleCtx) -> None:
    mod = ctx.repo.module(MTEST)
    s = Sched(mod)
    fq = 'TestHarness._run_tests'
    # semaphores created in _run_tests
    sems: T.Dict[str, ast.Assign] = {}
    for st in walk_no_nested(s.fn):
        if isinstance(st, ast.Assign) and isinstance(st.value, ast.Call) and call_name(st.value) in ('asyncio.Semaphore', 'asyncio.BoundedSemaphore') \
                and len(st.targets) == 1 and isinstance(st.targets[0], ast.Name):
            sems[st.targets[0].id] = st
    cfg_fn = CFG(s.fn)
    for name, st in sems.items():
        call = T.cast(ast.Call, st.value)
        size = call.args[0] if call.args else (call.keywords[0].value if call.keywords else None)
        ctx.require(size is not None and attr_chain(size) == 'self.options.num_processes', f'semaphore {name} is sized by self.options.num_processes', mod, fq, st,
                    f'the job semaphore is created with {short(size)} instead of the requested number of jobs (self.options.num_processes)')
        stores = [n for n in ast.walk(s.fn) if isinstance(n, ast.Name) and n.id == name and isinstance(n.ctx, ast.Store)]
        nodes = cfg_fn.stmt_nodes(st)
        once = len(stores) == 1 and len(nodes) == 1 and not cfg_fn.can_reach(nodes[0], nodes[0])
        ctx.require(once, f'semaphore {name} is created once per run', mod, fq, st, f'the semaphore {name} is re-created (per test / per iteration): it bounds nothing')
    ctx.floor('semaphores', len(sems), 1)

    flags = set()
    for n in s.nested.values():
        nl = {x for st in ast.walk(n) if isinstance(st, ast.Nonlocal) for x in st.names}
        for st in ast.walk(n):
            if isinstance(st, ast.Assign) and isinstance(st.value, ast.Constant) and st.value.value is True:
                for t in st.targets:
                    if isinstance(t, ast.Name) and t.id in nl:
                        flags.add(t.id)
    n_runs = 0
    for cname, (cl, p) in s.closures.items():
        cq = f'{fq}.{cname}'
        cfg = CFG(cl)
        is_run = lambda c: isinstance(c.func, ast.Attribute) and c.func.attr == 'run' and isinstance(c.func.value, ast.Name) and c.func.value.id == p  # noqa: E731
        run_nodes = cfg.nodes_with_call(is_run)
        enters = [n for n in cfg.nodes if n.kind == 'with_enter' and isinstance(n.ast, ast.AsyncWith)
                  and any(isinstance(i.context_expr, ast.Name) and i.context_expr.id in sems for i in n.ast.items)]
        held_withs = {id(n.ast) for n in enters}
        exits = [n for n in cfg.nodes if n.kind == 'with_exit' and id(n.ast) in held_withs]
        awaited = {id(a.value) for a in ast.walk(cl) if isinstance(a, ast.Await)}
        for rn in run_nodes:
            n_runs += 1
            rc = [c for c in walk_no_nested(rn.expr()) if isinstance(c, ast.Call) and is_run(c)][0]   # type: ignore[arg-type]
            held = bool(enters) and cfg.dominated_by_any(rn, enters) and not any(cfg.can_reach(x, rn) for x in exits)
            ctx.require(held, f'{cname}: {short(rc)} runs with the job semaphore held', mod, cq, rc,
                        f'{short(rc)} is reachable without holding `async with <semaphore>`: more than num_processes tests can run at once')
            ctx.require(id(rc) in awaited, f'{cname}: {short(rc)} is awaited inside the semaphore', mod, cq, 'await of ' + norm(rc),
                        f'{short(rc)} is not awaited: the semaphore is released before the test has run', rc)
        # cancellation flag seen false on every path to run()
        if not flags:
            raise Undecided('_run_tests: no cancellation flag (nonlocal ... = True) found')
        paths = enumerate_paths(cl.body, handlers=True)
        np_ = 0
        bad = None
        for pth in paths:
            if not any(is_run(c) for c in pth.calls()):
                continue
            np_ += 1
            idx = min(i for i, ev in enumerate(pth.events) if any(isinstance(c, ast.Call) and is_run(c) for r in _event_roots(ev) for c in walk_no_nested(r)))
            seen = {norm(ev.node): ev.val for ev in pth.events[:idx] if ev.kind == 'cond'}
            if not any(seen.get(f) is False for f in flags):
                bad = pth
        if np_:
            ctx.require(bad is None, f'{cname}: every path to {p}.run() has seen the cancellation flag ({"/".join(sorted(flags))}) false', mod, cq,
                        f'{p}.run() without cancellation test',
                        f'a path reaches {p}.run() without testing {"/".join(sorted(flags))}: tests still start after the run was cut short ({bad.describe() if bad else ""})', cl)
    ctx.floor('test.run() call sites in runner closures', n_runs, 1)

    # is_parallel of a runner implies test.is_parallel and num_processes > 1
    init, expr, cls = _testrun_arg(mod, 'is_parallel')
    n = 0
    worst: T.Optional[str] = None
    foreign = False
    for tp, npv, inter in itertools.product((True, False), (0, 1, 2, 8), (True, False)):
        leaves = _eval_init_expr(ctx, mod, init, expr, {'test.is_parallel': tp, 'options.num_processes': npv, 'options.interactive': inter,
                                                        'test.timeout': 30, 'options.timeout_multiplier': None})
        for lf in leaves:
            n += 1
            for opn, a, b in lf.interp.compares:
                for x, other in ((a, b), (b, a)):
                    if tag_of(x) == 'num_processes' and (tag_of(other) or other not in (1, 2)):
                        raise Undecided(f'SingleTestRunner.__init__: num_processes compared with {other!r}; the sample domain is built for the threshold 1')
                    if tag_of(x) in ('timeout', 'timeout_multiplier'):
                        foreign = True
            oc = lf.data
            if oc[0] != 'return':
                raise Undecided(f'SingleTestRunner.__init__: is_parallel expression raises {oc[1]}')
            val = lf.atom(oc[1].text) if isinstance(oc[1], Sym) else lf.interp.truth(oc[1])
            if val is None:
                raise Undecided(f'SingleTestRunner.__init__: is_parallel is not decided by test.is_parallel/num_processes/interactive: {oc[1]!r}')
            if val and not (tp and npv > 1):
                worst = f'test.is_parallel={tp}, num_processes={npv}, interactive={inter}'
    if worst is None and foreign:
        raise Undecided('SingleTestRunner.__init__: is_parallel depends on the timeout inputs')
    ctx.require(worst is None, f'is_parallel => test.is_parallel and num_processes > 1 ({n} evaluations of `{short(expr, 70)}`)', mod, 'SingleTestRunner.__init__',
                'is_parallel argument of ' + cls, f'a runner is parallel for {worst}: a serial test (or a -j1 run) is scheduled without the barriers', expr)

    # num_processes is only lowered
    nw = 0
    for q, f in mod.funcs().items():
        for st in walk_no_nested(f):
            tgt = None
            if isinstance(st, ast.Assign) and len(st.targets) == 1:
                tgt, val = st.targets[0], st.value
            elif isinstance(st, ast.AugAssign):
                tgt, val = st.target, None
            if not (isinstance(tgt, ast.Attribute) and tgt.attr == 'num_processes'):
                continue
            nw += 1
            if val is not None and isinstance(val, ast.Constant) and val.value == 1:
                ctx.ok(f'{q}: {short(st)} (serial)')
            elif val is not None and isinstance(val, ast.Call) and call_name(val) == 'min' and any(norm(a) == norm(tgt) for a in val.args):
                ctx.ok(f'{q}: {short(st)} (never above the request)')
            elif val is None or (isinstance(val, ast.Call) and call_name(val) == 'max') or (isinstance(val, ast.BinOp) and norm(tgt) in {norm(x) for x in ast.walk(val)}):
                ctx.violation(mod, q, st, f'{short(st)} can raise the number of jobs above the requested value', st)
            else:
                raise Undecided(f'{q}: unknown write of num_processes: {short(st)}')
    ctx.floor('writers of num_processes', nw, 2)


# ---------------------------------------------------------------------------
# R3a: classification tables (reference: DESIGN A.13 / property statement)
# ---------------------------------------------------------------------------

BAD = {'FAIL', 'TIMEOUT', 'INTERRUPT', 'UNEXPECTEDPASS', 'ERROR'}
KIND = {'EXITCODE': 'exitcode', 'GTEST': 'exitcode', 'TAP': 'tap', 'RUST': 'plain'}   # protocol -> classification rule
SKIP_RC, ERROR_RC = 77, 99   # GNU conventions (docs/markdown/Unit-tests.md "Skipped tests and hard errors")


def ref_classify(kind: str, res0: str, rc: int, exp: T.Optional[int], xfail: bool) -> str:
    base = res0
    if kind == 'exitcode' and res0 == 'RUNNING':
        base = 'OK' if rc == (exp or 0) else 'SKIP' if rc == SKIP_RC else 'ERROR' if rc == ERROR_RC else 'FAIL'
    if kind == 'tap' and rc != 0 and res0 not in BAD:
        base = 'ERROR'
    if base == 'RUNNING':
        base = 'OK'
    if xfail and base == 'OK':
        return 'UNEXPECTEDPASS'
    if xfail and base == 'FAIL':
        return 'EXPECTEDFAIL'
    return base


def _protocol_classes(mod: Module) -> T.Dict[str, str]:
    out: T.Dict[str, str] = {}
    for st in mod.tree.body:
        if isinstance(st, ast.Assign) and len(st.targets) == 1 and isinstance(st.targets[0], ast.Subscript) \
                and (attr_chain(st.targets[0].value) or '').endswith('PROTOCOL_TO_CLASS') and isinstance(st.value, ast.Name):
            key = attr_chain(st.targets[0].slice) or ''
            out[key.split('.')[-1]] = st.value.id
    return out


def _members(ctx: RuleCtx, mod: Module) -> T.Dict[str, Member]:
    it = Interp(ctx.repo)
    return it.enum_members(ClassRef(mod, mod.cls('TestResult')))


def r3a(ctx: RuleCtx) -> None:
    mod = ctx.repo.module(MTEST)
    protos = _protocol_classes(mod)
    ctx.floor('protocol classes registered in PROTOCOL_TO_CLASS', len(protos), 4)
    mem = _members(ctx, mod)
    unknown = set(protos) - set(KIND)
    if unknown:
        raise Undecided(f'protocols without a reference classification rule: {sorted(unknown)}')
    need = {'PENDING', 'RUNNING', 'OK', 'TIMEOUT', 'INTERRUPT', 'SKIP', 'FAIL', 'EXPECTEDFAIL', 'UNEXPECTEDPASS', 'ERROR'}
    if not need <= set(mem):
        raise AnchorMissing(f'TestResult lacks members {sorted(need - set(mem))}')
    it0 = Interp(ctx.repo)
    skip_c, err_c = it0.global_name('GNU_SKIP_RETURNCODE', mod), it0.global_name('GNU_ERROR_RETURNCODE', mod)
    ctx.require((skip_c, err_c) == (SKIP_RC, ERROR_RC), 'GNU_SKIP_RETURNCODE/GNU_ERROR_RETURNCODE fold to 77/99', mod, '<module>', 'GNU_SKIP_RETURNCODE, GNU_ERROR_RETURNCODE',
                f'the skip / hard-error exit statuses are {skip_c!r}/{err_c!r}; documented: 77/99')
    states = [m for m in mem if m != 'PENDING']
    for proto, cls in sorted(protos.items()):
        kind = KIND[proto]
        cref = ClassRef(mod, mod.cls(cls))
        parsing = _const_property(ctx, mod, cref, 'needs_parsing')
        rcs = (0, 1, 3, SKIP_RC, ERROR_RC)
        exps: T.Tuple[T.Optional[int], ...] = (None, 0, 3, SKIP_RC, ERROR_RC) if kind == 'exitcode' else (None,)
        n = 0
        mism: T.Dict[T.Tuple[str, str], str] = {}
        for res0 in states:
            for rc, exp in itertools.product(rcs, exps):
                if res0 != 'RUNNING' and kind == 'exitcode' and exp not in (None, 3):
                    continue   # the expected status is only consulted for a RUNNING test (confirmed by the RUNNING worlds)
                for xfail, inter in itertools.product((False, True), (False, True)):
                    if parsing and inter:
                        continue   # interactive + parsed protocol: result is IGNORED by design, outside the documented table
                    want = ref_classify(kind, res0, rc, exp, xfail)

                    def run(it: Interp) -> T.Any:
                        o = Obj('self', cref, dict(res=mem[res0], returncode=tagged(rc, 'rc'), expected_exitcode=tagged(exp, 'exp'), expected_fail=xfail, stdo='', stde='',
                                                   additional_error='', starttime=0.0, interactive=inter, verbose=False, is_parallel=True,
                                                   test=Obj('self.test')))
                        oc = outcome(it, lambda: it.call_method(o, 'complete'))
                        return oc, o.attrs.get('res')
                    leaves = explore(ctx.repo, run)
                    for lf in leaves:
                        n += 1
                        oc, got = lf.data
                        for opn, a, b in lf.interp.compares:
                            if opn != 'Eq':
                                raise Undecided(f'{cls}.complete orders exit statuses ({a!r} {opn} {b!r}); the sample domain is built for equality tests only')
                            for x, other in ((a, b), (b, a)):
                                if tag_of(x) and not tag_of(other) and other not in (0, SKIP_RC, ERROR_RC, None):
                                    raise Undecided(f'{cls}.complete compares the exit status with {other!r}; the sample domain is built for 0/{SKIP_RC}/{ERROR_RC}/expected')
                        if oc[0] != 'return':
                            g = f'raises {oc[1]}'
                        elif not isinstance(got, Member):
                            raise Undecided(f'{cls}.complete leaves an unknown result {got!r}')
                        else:
                            g = got.name
                        if g != want:
                            mism.setdefault((g, want), f'previous result {res0}, exit status {rc}, expected status {exp}, should_fail={xfail}, interactive={inter}')
        for (g, want), wit in mism.items():
            ctx.violation(mod, f'{cls}.complete', f'{proto} classification: {want} expected, {g} computed',
                          f'protocol {proto} ({cls}.complete -> ... -> _complete): for {wit} the result is {g}; documented rule: {want}', cref.node)
        if not mism:
            ctx.ok(f'protocol {proto}: {cls}.complete end-to-end table equals the documented rule on {n} evaluated worlds')
    # complete_skip: SKIP, never inverted
    for xfail in (False, True):
        def run2(it: Interp) -> T.Any:
            o = Obj('self', ClassRef(mod, mod.cls('TestRunExitCode')), dict(res=mem['PENDING'], returncode=None, expected_exitcode=None, expected_fail=xfail, stdo='', stde='',
                                                                            starttime=None, interactive=False, verbose=False, is_parallel=True))
            oc = outcome(it, lambda: it.call_method(o, 'complete_skip'))
            return oc, o.attrs.get('res'), o.attrs.get('returncode')
        for lf in explore(ctx.repo, run2):
            oc, got, rc = lf.data
            ctx.require(oc[0] == 'return' and got == mem['SKIP'], f'complete_skip (should_fail={xfail}) -> SKIP', mod, 'TestRun.complete_skip', f'complete_skip should_fail={xfail}',
                        f'a test that cannot be executed is reported as {got!r} ({oc}); documented: SKIP')


def _const_property(ctx: RuleCtx, mod: Module, cref: ClassRef, name: str) -> bool:
    it = Interp(ctx.repo)
    o = Obj('self', cref)
    try:
        v = it.getattr(o, name, ast.Name(id=name, ctx=ast.Load()), Frame(mod, {}, None, None, 0))
    except Exception as e:
        raise Undecided(f'{cref.node.name}.{name} is not a constant property: {e}')
    if not isinstance(v, bool):
        raise Undecided(f'{cref.node.name}.{name} is not a constant property: {v!r}')
    return v


# ---------------------------------------------------------------------------
# R3b: timeout table
# ---------------------------------------------------------------------------

def ref_timeout(interactive: bool, timeout: T.Optional[int], mult: T.Optional[float]) -> T.Optional[float]:
    if interactive or timeout is None or timeout <= 0:
        return None
    if mult is None:
        return timeout
    if mult <= 0:
        return None
    return timeout * mult


def r3b(ctx: RuleCtx) -> None:
    mod = ctx.repo.module(MTEST)
    init, expr, cls = _testrun_arg(mod, 'timeout')
    n = 0
    foreign = False
    mism: T.Dict[str, str] = {}
    for inter, to, mult in itertools.product((False, True), (None, -5, 0, 30), (None, -1, 0, 2, 0.5)):
        want = ref_timeout(inter, to, mult)
        leaves = _eval_init_expr(ctx, mod, init, expr, {'options.interactive': inter, 'test.timeout': to, 'options.timeout_multiplier': mult,
                                                        'test.is_parallel': True, 'options.num_processes': 2})
        for lf in leaves:
            n += 1
            for opn, a, b in lf.interp.compares:
                for x, other in ((a, b), (b, a)):
                    if tag_of(x) in ('timeout', 'timeout_multiplier') and (tag_of(other) or other not in (0, None)):
                        raise Undecided(f'SingleTestRunner.__init__: timeout compared as {a!r} {opn} {b!r}; the sample domain is built for the threshold 0')
                    if tag_of(x) == 'num_processes':
                        foreign = True
            oc = lf.data
            got = oc[1] if oc[0] == 'return' else f'raises {oc[1]}'
            if isinstance(got, Sym):
                raise Undecided(f'SingleTestRunner.__init__: the timeout is not decided by interactive/test.timeout/timeout_multiplier: {got!r}')
            if got != want or (got is not None and want is not None and type(got) is bool):
                mism.setdefault(f'{got!r} instead of {want!r}', f'interactive={inter}, declared timeout={to}, multiplier={mult}')
    for k, wit in mism.items():
        ctx.violation(mod, 'SingleTestRunner.__init__', f'timeout table: {k}', f'effective timeout for {wit} is {k} (documented: no timeout when interactive, undeclared, '
                      f'<= 0 or multiplier <= 0; declared value without multiplier; product otherwise)', expr)
    if not mism and foreign:
        raise Undecided('SingleTestRunner.__init__: the timeout depends on num_processes')
    if not mism:
        ctx.ok(f'timeout table of SingleTestRunner.__init__ (`{short(expr, 40)}` passed to {cls}) equals the reference on {n} evaluated worlds')


# ---------------------------------------------------------------------------
# R3c: serialisation order and scheduling fields
# ---------------------------------------------------------------------------

def _degree(e: ast.AST, param: str) -> T.Optional[int]:
    """Polynomial degree of a sort-key expression in <param>.priority (None: outside +,-,* arithmetic)."""
    if isinstance(e, ast.Constant) and isinstance(e.value, (int, float)) and not isinstance(e.value, bool):
        return 0
    if isinstance(e, ast.Attribute) and isinstance(e.value, ast.Name) and e.value.id == param:
        return 1 if e.attr == 'priority' else None
    if isinstance(e, ast.UnaryOp) and isinstance(e.op, (ast.USub, ast.UAdd)):
        return _degree(e.operand, param)
    if isinstance(e, ast.BinOp) and isinstance(e.op, (ast.Add, ast.Sub, ast.Mult)):
        l, r = _degree(e.left, param), _degree(e.right, param)
        if l is None or r is None:
            return None
        return l + r if isinstance(e.op, ast.Mult) else max(l, r)
    return None


FIELDS = ('is_parallel', 'expected_fail', 'expected_exitcode', 'timeout', 'protocol', 'priority')


def r3c(ctx: RuleCtx) -> None:
    mod = ctx.repo.module(BACKENDS)
    fq = 'Backend.create_test_serialisation'
    fn = mod.func(fq)
    p0 = [a.arg for a in fn.args.args if a.arg != 'self'][0]
    rets = [r for r in walk_no_nested(fn) if isinstance(r, ast.Return)]
    if len(rets) != 1 or not isinstance(rets[0].value, ast.Name):
        raise Undecided(f'{fq}: expected a single `return <list>`')
    arr = rets[0].value.id
    loops = [st for st in fn.body if isinstance(st, ast.For) and any(isinstance(c, ast.Call) and call_name(c) == f'{arr}.append' for c in ast.walk(st))]
    if len(loops) != 1 or not isinstance(loops[0].target, ast.Name):
        raise Undecided(f'{fq}: expected one loop appending to {arr}')
    loop = loops[0]
    tv = loop.target.id
    it_ = loop.iter
    # -- order of iteration
    order: T.Optional[str] = None
    if isinstance(it_, ast.Call) and call_name(it_) == 'sorted' and len(it_.args) == 1 and isinstance(it_.args[0], ast.Name) and it_.args[0].id == p0:
        key = next((k.value for k in it_.keywords if k.arg == 'key'), None)
        rev = next((k.value for k in it_.keywords if k.arg == 'reverse'), None)
        if rev is not None and not isinstance(rev, ast.Constant):
            raise Undecided(f'{fq}: reverse= is not a constant')
        reverse = bool(rev.value) if rev is not None else False   # type: ignore[union-attr]
        if isinstance(key, ast.Lambda) and len(key.args.args) == 1:
            kp = key.args.args[0].arg
            if _degree(key.body, kp) != 1:
                raise Undecided(f'{fq}: sort key is not a linear function of .priority: {short(key)}')
            it = Interp(ctx.repo)
            ks = [it.call_function(key, [Obj('t', None, {'priority': p})], {}, None, None, mod, 0) for p in (-2, 0, 3)]
            if any(isinstance(k, Sym) for k in ks):
                raise Undecided(f'{fq}: sort key not evaluable: {short(key)}')
            if ks[0] < ks[1] < ks[2]:
                order = 'descending' if reverse else 'ascending'
            elif ks[0] > ks[1] > ks[2]:
                order = 'ascending' if reverse else 'descending'
            else:
                order = 'unordered'
        elif key is None:
            raise Undecided(f'{fq}: sorted() without key')
        else:
            raise Undecided(f'{fq}: unknown sort key {short(key)}')
    elif isinstance(it_, ast.Name) and it_.id == p0:
        order = 'unsorted'
    else:
        raise Undecided(f'{fq}: unknown iteration {short(it_)}')
    ctx.require(order == 'descending', 'tests are serialised in descending priority', mod, fq, 'iteration order of the serialisation loop',
                f'the serialisation loop iterates {short(it_)}: order by priority is {order}; documented: higher priority starts first', it_)
    # -- every iteration appends its test (no path skips one)
    cfg = CFG(fn)
    head = [n for n in cfg.nodes if n.kind == 'iter' and n.ast is loop]
    apps = cfg.nodes_with_call(lambda c: call_name(c) == f'{arr}.append')
    body_first = [cfg.nodes[b] for b, lab in cfg.succ[head[0].id] if lab == 'iter']
    skip = any(cfg.can_reach(bf, head[0], apps) for bf in body_first if bf not in apps)
    ctx.require(not skip, 'every iteration of the serialisation loop appends its test', mod, fq, f'{arr}.append on every iteration path',
                f'an iteration of the serialisation loop can return to the loop head without {arr}.append(...): a test is dropped', loop)
    # -- the scheduling fields land in their slots
    ser = mod.cls('TestSerialisation')
    slots = [st.target.id for st in ser.body if isinstance(st, ast.AnnAssign) and isinstance(st.target, ast.Name)]
    builds = [c for c in ast.walk(loop) if isinstance(c, ast.Call) and call_name(c) == 'TestSerialisation']
    if len(builds) != 1 or any(isinstance(a, ast.Starred) for a in builds[0].args):
        raise Undecided(f'{fq}: expected one TestSerialisation(...) call')
    b = builds[0]
    given: T.Dict[str, ast.AST] = dict(zip(slots, b.args))
    for k in b.keywords:
        if k.arg:
            given[k.arg] = k.value
    fl = Flow(fn)
    for f in FIELDS:
        if f not in slots:
            raise AnchorMissing(f'TestSerialisation has no field {f}')
        e = given.get(f)
        ok = e is not None and f'attr:{tv}.{f}' in fl.origins(e) and not any(f'attr:{tv}.{g}' in fl.origins(e) for g in FIELDS if g != f)
        ctx.require(ok, f'TestSerialisation.{f} <- {tv}.{f}', mod, fq, f'TestSerialisation field {f}',
                    f'the serialised field {f} is filled from {short(e)} instead of {tv}.{f}', e if e is not None else b)


# ---------------------------------------------------------------------------
# R4: tallies, exit status, summary
# ---------------------------------------------------------------------------

GROUPS = [{'FAIL', 'ERROR', 'INTERRUPT'}, {'TIMEOUT'}, {'SKIP'}, {'IGNORED'}, {'OK'}, {'EXPECTEDFAIL'}, {'UNEXPECTEDPASS'}]
LABELS = {'OK': 'ok', 'EXPECTEDFAIL': 'expected fail', 'FAIL': 'fail', 'UNEXPECTEDPASS': 'unexpected pass', 'SKIP': 'skipped',
          'IGNORED': 'ignored', 'TIMEOUT': 'timeout'}   # docs/markdown/Unit-tests.md shows the block "Ok: / Fail: / ..."


def _zero_fields(mod: Module) -> T.List[str]:
    init = mod.func('TestHarness.__init__')
    out = []
    for st in init.body:
        if isinstance(st, ast.Assign) and len(st.targets) == 1 and isinstance(st.value, ast.Constant) and st.value.value == 0 and type(st.value.value) is int:
            ch = attr_chain(st.targets[0])
            if ch and ch.startswith('self.') and ch.count('.') == 1:
                out.append(ch.split('.')[1])
    return out


def r4(ctx: RuleCtx) -> None:
    mod = ctx.repo.module(MTEST)
    mem = _members(ctx, mod)
    href = ClassRef(mod, mod.cls('TestHarness'))
    zeros = _zero_fields(mod)
    ctx.floor('integer fields initialised to 0 in TestHarness.__init__', len(zeros), 7)
    it0 = Interp(ctx.repo)
    fr0 = Frame(mod, {}, None, None, 0)

    def member_pred(name: str, m: Member) -> bool:
        bm = it0.getattr(m, name, ast.Name(id=name, ctx=ast.Load()), fr0)
        v = it0.call_function(bm.fn, [], {}, m, bm.defcls, bm.mod, 0)
        if not isinstance(v, bool):
            raise Undecided(f'TestResult.{name}({m!r}) is not a constant')
        return v
    bad = {n for n, m in mem.items() if member_pred('is_bad', m)}
    finished = {n for n, m in mem.items() if member_pred('is_finished', m)}
    ctx.require(bad == BAD, f'TestResult.is_bad = {sorted(bad)}', mod, 'TestResult.is_bad', 'set of bad results',
                f'is_bad() holds for {sorted(bad)}; documented failures: {sorted(BAD)} (failed, errored, timed out, interrupted, unexpectedly passed)', mod.func('TestResult.is_bad'))
    ctx.require(finished == set(mem) - {'PENDING', 'RUNNING'}, f'TestResult.is_finished = all but PENDING/RUNNING', mod, 'TestResult.is_finished', 'set of finished results',
                f'is_finished() holds for {sorted(finished)}')

    # (a) one counter per finished result
    counter_of: T.Dict[str, str] = {}
    fq = 'TestHarness.process_test_result'
    pname = [a.arg for a in mod.func(fq).args.args if a.arg != 'self'][0]
    for name in mem:
        for maxfail in (False, True):
            def run(it: Interp) -> T.Any:
                h = Obj('self', href, {z: 0 for z in zeros})
                h.attrs['maxfail_reached'] = maxfail
                res = Obj(pname, None, {'res': mem[name]})
                oc = outcome(it, lambda: it.call_method(h, 'process_test_result', res))
                return oc, {z: h.attrs.get(z) for z in zeros}, list(it.effects)
            for lf in explore(ctx.repo, run):
                oc, after, effects = lf.data
                changed = {z: v for z, v in after.items() if v != 0}
                if name not in finished:
                    ctx.require(oc[0] == 'raise' or not changed, f'unfinished result {name} is not tallied', mod, fq, f'arm for {name}',
                                f'a {name} result is counted in {sorted(changed)}')
                    continue
                ok = oc[0] == 'return' and len(changed) == 1 and list(changed.values()) == [1]
                if not ok:
                    ctx.violation(mod, fq, f'arm for {name}', f'a finished {name} result (maxfail_reached={maxfail}) ' +
                                  (f'ends in {oc[1]}' if oc[0] == 'raise' else f'changes the counters {changed}') + '; exactly one counter must be incremented by one',
                                  mod.func(fq))
                    continue
                c = next(iter(changed))
                if counter_of.setdefault(name, c) != c:
                    raise Undecided(f'{fq}: the counter for {name} depends on maxfail_reached')
                logged = any(e.startswith('for ') and '.log(' in e and pname in e for e in effects)
                collected = any(e.endswith(f'.append({pname})') for e in effects)
                want_coll = name in BAD and not (name == 'INTERRUPT' and maxfail)
                ctx.require(logged and collected == want_coll, f'{name} (maxfail_reached={maxfail}): counter {c}, passed to every logger' + (', collected as failure' if want_coll else ''),
                            mod, fq, f'reporting of {name}', f'a {name} result is ' + ('' if logged else 'not passed to the loggers (testlog.json/summary lose it); ') +
                            (f'collected={collected} but failure={want_coll}' if collected != want_coll else ''), mod.func(fq))
    groups: T.Dict[str, T.Set[str]] = {}
    for n_, c in counter_of.items():
        groups.setdefault(c, set()).add(n_)
    got_groups = sorted(map(sorted, groups.values()))
    want_groups = sorted(map(sorted, GROUPS))
    if len(counter_of) == len(finished):
        ctx.require(got_groups == want_groups, f'counter grouping {got_groups}', mod, fq, 'grouping of results into counters',
                    f'results are grouped into counters as {got_groups}; documented: {want_groups}', mod.func(fq))

    # (b) total_failure_count == counters of the bad results; doit returns 1 iff positive
    tq = 'TestHarness.total_failure_count'
    bad_counters = {counter_of[n_] for n_ in BAD if n_ in counter_of}
    n_w = 0
    mism = None
    for vals in itertools.product((0, 1, 2), repeat=len(groups)):
        world = dict(zip(sorted(groups), vals))

        def run2(it: Interp) -> T.Any:
            h = Obj('self', href, {z: 0 for z in zeros})
            h.attrs.update(world)
            return outcome(it, lambda: it.call_method(h, 'total_failure_count'))
        for lf in explore(ctx.repo, run2):
            n_w += 1
            oc = lf.data
            want = sum(v for c, v in world.items() if c in bad_counters)
            if oc != ('return', want):
                mism = (world, oc, want)
    ctx.require(mism is None, f'total_failure_count = sum of the counters of bad results {sorted(bad_counters)} ({n_w} worlds)', mod, tq, 'sum of failure counters',
                f'with counters {mism[0] if mism else ""} total_failure_count() gives {mism[1] if mism else ""}; the bad results ({sorted(BAD)}) add up to {mism[2] if mism else ""}',
                mod.func(tq))
    dq = 'TestHarness.doit'
    doit = mod.func(dq)
    cfg = CFG(doit)
    runs = cfg.nodes_with_call(lambda c: call_name(c) == 'self.run_tests')
    if len(runs) != 1:
        raise Undecided(f'{dq}: expected one self.run_tests(...) call')
    reach = cfg.reachable([runs[0]], edge_ok=lambda a, b, lab: lab != 'exc')
    rets = [n for n in cfg.nodes if n.id in reach and n.kind == 'stmt' and isinstance(n.ast, ast.Return)]
    ctx.floor('returns of doit after the tests ran', len(rets), 1)
    for rn in rets:
        rv = rn.ast.value   # type: ignore[union-attr]
        if rv is None:
            ctx.violation(mod, dq, rn.ast, 'doit returns None after running the tests: the exit status does not reflect failures', rn.ast)
            continue
        stmts = _slice_for(doit, rv)
        after_run = [st for st in stmts if any(cfg.can_reach(runs[0], x) for x in cfg.stmt_nodes(st))]
        wrong = None
        for vals in itertools.product((0, 1), repeat=len(groups)):
            world = dict(zip(sorted(groups), vals))

            def run3(it: Interp) -> T.Any:
                h = Obj('self', href, {z: 0 for z in zeros})
                h.attrs.update(world)
                fr = Frame(mod, {'self': h}, href, h, 0)

                def thunk() -> T.Any:
                    it.exec_block(after_run, fr)
                    return it.eval(rv, fr)
                return outcome(it, thunk)
            for lf in explore(ctx.repo, run3):
                oc = lf.data
                failing = any(v for c, v in world.items() if c in bad_counters)
                if oc[0] != 'return' or isinstance(oc[1], Sym) or isinstance(oc[1], Obj):
                    raise Undecided(f'{dq}: return value {short(rv)} is not decided by the counters: {oc}')
                if bool(oc[1]) != failing:
                    wrong = (world, oc[1], failing)
        ctx.require(wrong is None, f'doit: `{short(rn.ast)}` is non-zero iff a bad result was counted', mod, dq, rn.ast,
                    f'with counters {wrong[0] if wrong else ""} doit returns {wrong[1] if wrong else ""!r} although failures counted = {wrong[2] if wrong else ""}', rn.ast)
    runf = mod.func('run')
    fl = Flow(runf)
    rr = [r for r in ast.walk(runf) if isinstance(r, ast.Return) and r.value is not None and any(o.startswith('call:') and o.endswith('.doit') for o in fl.origins(r.value))]
    pure = [r for r in rr if isinstance(r.value, ast.Call) or isinstance(r.value, ast.Name)]
    ctx.require(bool(pure), 'run() returns the value of doit()', mod, 'run', 'return th.doit()', 'run() does not return the status computed by TestHarness.doit()', runf)

    # (c) summary prints every counter under its label
    sq = 'TestHarness.summary'
    values = {c: 1 + i for i, c in enumerate(sorted(groups))}

    def run4(it: Interp) -> T.Any:
        h = Obj('self', href, {z: 0 for z in zeros})
        h.attrs.update(values)
        return outcome(it, lambda: it.call_method(h, 'summary'))
    for lf in explore(ctx.repo, run4):
        oc = lf.data
        if oc[0] != 'return' or not isinstance(oc[1], str):
            raise Undecided(f'{sq}: the text is not computed from the counters alone: {oc}')
        printed: T.Dict[str, str] = {}
        for line in oc[1].splitlines():
            if ':' in line:
                lab, _, val = line.partition(':')
                printed[lab.strip().lower()] = val.strip()
        for name, lab in LABELS.items():
            c = counter_of.get(name)
            if c is None:
                continue
            ctx.require(printed.get(lab) == str(values[c]), f'summary line "{lab}" shows the counter of {name} ({c})', mod, sq, f'summary line {lab}',
                        f'with {c}={values[c]} the summary prints {printed.get(lab)!r} on the "{lab}" line (whole text: {oc[1]!r})', mod.func(sq))


# ---------------------------------------------------------------------------
# R5: slicing
# ---------------------------------------------------------------------------

def r5(ctx: RuleCtx) -> None:
    mod = ctx.repo.module(MTEST)
    # (a) argument parser: 'i/n' -> (i, n) iff 1 <= i <= n
    tsf = mod.func('test_slice')
    n = 0
    mism = None
    args = [f'{i}/{k}' for i in range(-1, 5) for k in range(-1, 4)] + ['3', 'a/2', '1/b', '1/2/3', '']
    for arg in args:
        def run(it: Interp) -> T.Any:
            return outcome(it, lambda: it.call_function(tsf, [arg], {}, None, None, mod, 0))
        parts = arg.split('/')
        try:
            i, k = (int(parts[0]), int(parts[1])) if len(parts) == 2 else (None, None)
        except ValueError:
            i = k = None
        want: T.Any = ('return', (i, k)) if i is not None and k is not None and k >= 1 and 1 <= i <= k else 'raise'
        for lf in explore(ctx.repo, run):
            n += 1
            oc = lf.data
            got = oc if oc[0] == 'return' else 'raise'
            if got != want:
                mism = (arg, oc, want)
    ctx.require(mism is None, f'test_slice: "i/n" -> (i, n) for 1 <= i <= n, rejected otherwise ({n} arguments)', mod, 'test_slice', 'roles of SLICE and NUM_SLICES',
                f'test_slice({mism[0] if mism else ""!r}) gives {mism[1] if mism else ""}; expected {mism[2] if mism else ""}', tsf)
    adds = [c for c in ast.walk(mod.func('add_arguments')) if isinstance(c, ast.Call) and call_method(c) == 'add_argument' and c.args
            and isinstance(c.args[0], ast.Constant) and c.args[0].value == '--slice']
    ok = len(adds) == 1 and any(k.arg == 'type' and isinstance(k.value, ast.Name) and k.value.id == 'test_slice' for k in adds[0].keywords) \
        and not any(k.arg == 'dest' for k in adds[0].keywords)
    ctx.require(ok, '--slice is parsed by test_slice into options.slice', mod, 'add_arguments', "add_argument('--slice')", '--slice is not parsed by test_slice into options.slice')

    # (b) get_tests: slices i=1..n partition the selected tests
    gq = 'TestHarness.get_tests'
    fn = mod.func(gq)
    idx = [i for i, st in enumerate(fn.body) if isinstance(st, ast.If) and any(c.endswith('options.slice') for c in chains_in(st.test))]
    if len(idx) != 1:
        raise Undecided(f'{gq}: expected one top-level `if self.options.slice` statement')
    st_if = fn.body[idx[0]]
    last = fn.body[-1]
    if not (isinstance(last, ast.Return) and isinstance(last.value, ast.Name)):
        raise Undecided(f'{gq}: does not end with `return <list of tests>`')
    var = last.value.id
    if var not in {n.id for n in ast.walk(st_if) if isinstance(n, ast.Name) and isinstance(n.ctx, ast.Store)}:
        raise Undecided(f'{gq}: `if self.options.slice` does not rebind the returned list {var}')
    href = ClassRef(mod, mod.cls('TestHarness'))
    tail = fn.body[idx[0]:]
    nw = 0
    bad: T.Optional[str] = None
    guard_raises = 0
    for k in range(0, 7):
        tests = [f't{j}' for j in range(k)]
        for nsl in range(1, 6):
            seen: T.List[str] = []
            complete = True
            for i in range(1, nsl + 1):
                def run5(it: Interp) -> T.Any:
                    h = Obj('self', href, {'options': Obj('self.options', None, {'slice': (i, nsl)})})
                    fr = Frame(mod, {'self': h, var: list(tests), 'errorfile': None}, href, h, 0)

                    oc = outcome(it, lambda: it.run_body(tail, fr))
                    return oc[1] if oc[0] == 'return' else oc
                for lf in explore(ctx.repo, run5):
                    nw += 1
                    oc = lf.data
                    if oc[0] == 'raise':
                        complete = False
                        if nsl <= k:
                            bad = bad or f'{k} tests, --slice {i}/{nsl}: raises {oc[1]} although there are enough tests'
                        else:
                            guard_raises += 1
                        continue
                    if not isinstance(oc[1], list) or any(not isinstance(x, str) for x in oc[1]):
                        raise Undecided(f'{gq}: result is not a list of the selected tests: {oc[1]!r}')
                    seen.extend(oc[1])
            if complete and sorted(seen) != sorted(tests):
                bad = bad or f'{k} tests, slices 1..{nsl} together select {sorted(seen)} (each test must be selected by exactly one slice)'
    ctx.require(bad is None, f'get_tests: slices 1..n partition the selected tests ({nw} evaluations, lists of 0..6 tests, n = 1..5)', mod, gq, st_if,
                f'--slice does not partition the tests: {bad}', st_if)
    ctx.note(f'get_tests rejects n > len(tests) in {guard_raises} evaluated worlds (not required for the partition)')


RULES = [
    Rule('C12.R1', 'serial isolation: barriers around a non-parallel test, one scheduling per iteration, final barrier', r1),
    Rule('C12.R2', 'job bound: run() under the num_processes semaphore, cancellation flag, is_parallel implication', r2),
    Rule('C12.R3a', 'classification tables of the protocol classes (exit status, should_fail inversion, TAP)', r3a),
    Rule('C12.R3b', 'timeout table of SingleTestRunner.__init__', r3b),
    Rule('C12.R3c', 'tests serialised by descending priority; scheduling fields in their slots', r3c),
    Rule('C12.R4', 'tallies, total_failure_count, exit status and summary agree', r4),
    Rule('C12.R5', '--slice i/n partitions the selected tests', r5),
]
