"""C12 — `meson test` scheduling and verdicts (DESIGN §2 C12, Appendix A.13)."""
from __future__ import annotations

import ast
import itertools
import typing as T

from ..core import Undecided, AnchorMissing, Module, norm, short, attr_chain, call_name, call_method, walk_no_nested, chains_in, \
    decorator_names, names_in, kwarg
from ..report import Rule, RuleCtx
from ..cfg import CFG
from ..paths import enumerate_paths
from ..flow import Flow
from .. import tables
from ..tables import Atom
from ..consteval import fold_expr, fold_const, EnumMember

MTEST = 'mesonbuild/mtest.py'
BACKENDS = 'mesonbuild/backend/backends.py'

EXPLANATION = (
    'Decides structural clauses of C12.  R1: in TestHarness._run_tests every path through the per-runner loop schedules the '
    'runner closure exactly once, records the future in the collection that the barriers wait on, and - unless the path has '
    'established runner.is_parallel - awaits complete_all(futures) before and complete(future) after the scheduling; every way '
    'out of the loop passes the final complete_all barrier.  R2: inside the runner closure test.run() is awaited only while an '
    '`async with` on the one asyncio.Semaphore(self.options.num_processes) is held and after the cancellation flag was seen false; '
    'every way the is_parallel expression of a runner can be true contains the atoms test.is_parallel and num_processes > 1; '
    'num_processes is only ever lowered.  R3a: per-method decision tables over the typestate of self.res (paths of '
    'TestRunExitCode.complete, TestRunTAP.complete, TestRun._complete, complete_skip; worlds = members of TestResult x '
    'equality atoms of the exit status x should_fail/console atoms) equal the documented rule, and each complete() of a protocol '
    'class delegates to the next one on every path (CFG), with the chain shape fixed per protocol.  R3b: the timeout table of '
    'SingleTestRunner.__init__ over the sign classes of its atoms, with symbolic outcomes (None / declared / product; float(X) reads as X, int()/round()/math.floor/ceil/trunc of the product is a different outcome while --timeout-multiplier is declared type=float).  R3c: the '
    'serialisation loop iterates the tests parameter through a chain of copies / sorted() / in-place .sort() / reversals whose last sort has a key of negative priority coefficient (descending), no path skips the append, the scheduling '
    'fields land in their TestSerialisation slots.  R4: process_test_result has exactly one `counter += 1` arm per finished '
    'member with the documented grouping, the counters added by total_failure_count are exactly those fed by the members of the '
    'folded is_bad set, doit returns non-zero iff total_failure_count() > 0, the label->counter table of summary agrees and every '
    'positive counter is printed.  R5: test_slice returns (int(part 0), int(part 1)) under the documented guards and get_tests '
    'selects tests[SLICE-1::NUM_SLICES].  The exit status handed from doit()/run()/run_with_args() to sys.exit is drawn from constants in 0..255, never a count.  R7: in an async function that repeats asyncio.wait/wait_for in a loop with a caller-supplied timeout variable (complete_all), that variable is re-assigned inside the loop from a clock-reading expression (necessary for the total wait to stay within the budget; the arithmetic itself is not decided).  R9: a result is set to TIMEOUT only on CFG paths that call a method from which os.killpg is reached (the killer); in the killer no normal path reaches a return before a group-wide kill primitive on the pid of the child (os.killpg(<child>.pid, ..) / taskkill /T; helper methods that always signal are followed); the preexec_fn handed to create_subprocess_exec skips os.setsid() only on paths that establish options.interactive (directly, or through the decision table of the console_mode property and the constructor argument it reads) - the one atom under which R3b shows the timeout to be None - or the child is started with start_new_session=True.  R6: get_tests builds the selection by filtering one source at a time (no concatenation), and in the selection generator (tests_from_args) no path leads from a `yield <candidate>` to another one without advancing the single loop over the candidates.  In the predicate get_tests filters with (test_suitable) the exclude_suites of the test setup are consulted only on paths where --suite was seen empty.  R8: the default of -j is determine_worker_count([... MESON_TESTTHREADS ...]); in determine_worker_count the count is overwritten inside the loop over the variable names only on paths where the variable is known to be present; the value that sizes the semaphore is validated positive (a -j parser that only returns positive counts, or a guard / max()). All tables are extracted from a normal form (small helpers and starter closures inlined, single-definition locals and tuple unpackings propagated, walrus / conditional values / list comprehensions desugared, constant lookup tables unrolled, internal calls bound by signature); a finding is reported only when every construct on the judged path was classified.  NOT decided: asyncio interleavings beyond this await protocol; the suite matcher TestHarness.test_in_suites (that its two nested search loops answer False only after every requested suite was compared with every suite of the test - seed C12-r7-3 - is an exists-loop table no rule of this pack extracts yet); a serialisation loop rewritten as list(map(<closure>, sorted(..))) ends Undecided in R3c; which signals TestSubprocess._kill escalates through after the first group-wide one (SIGTERM -> SIGKILL -> p.kill(), the grace periods, the ProcessLookupError arm) and that the signalled processes really die (runtime process semantics); that every process a test starts stays in its '
    'process group; --maxfail timing; the composed end-to-end value of complete() for a concrete run (only the per-method tables '
    'and their chaining); the rendered text of summary(); the partition property of --slice as such (only the offset/stride roles).')
ASSUMPTIONS = [
    'asyncio.Semaphore(n) admits at most n holders; awaiting a future returns only after it is done',
    'complete_all(futures) / complete(future) wait for their argument (only the flow parameter -> awaited expression is checked)',
    'TestResult members are distinct; 0, 77 and 99 are distinct exit statuses; a[i-1::n] over i=1..n partitions a (Python slicing)',
]
TECHNIQUE = ('path enumeration + canonical atoms + world enumeration (typestate of the scheduler loop and of self.res, decision tables '
             'with symbolic outcomes), CFG must-pass/dominance, flow origins, constant folding of enum sets and exit-status constants')


# ---------------------------------------------------------------------------
# normal form shared by all rules: `match` statements over a pure subject become if/elif chains
# ---------------------------------------------------------------------------

class _MatchToIf(ast.NodeTransformer):
    """PEP 634 subset -> if/elif/else: value patterns (`case Enum.X:` -> subject == Enum.X), singletons (`is`), zero-argument class patterns
    (`case A():` -> isinstance(subject, A)), or-patterns of those, wildcard `case _:`, guards.  The subject must be a name / attribute chain
    (evaluated once by `match`, re-read by every test of the chain: equal for a pure subject; case bodies run after all tests of their path).
    A `match` using anything else (captures, sequence / mapping patterns, sub-patterns) is left in place: the engine then answers Undecided."""

    def _cond(self, subj: ast.expr, p: ast.AST) -> T.Optional[ast.expr]:
        import copy
        s = copy.deepcopy(subj)
        if isinstance(p, ast.MatchValue) and (attr_chain(p.value) or isinstance(p.value, ast.Constant)):
            return ast.Compare(left=s, ops=[ast.Eq()], comparators=[p.value])
        if isinstance(p, ast.MatchSingleton):
            return ast.Compare(left=s, ops=[ast.Is()], comparators=[ast.Constant(value=p.value)])
        if isinstance(p, ast.MatchClass) and not p.patterns and not p.kwd_patterns and attr_chain(p.cls):
            return ast.Call(func=ast.Name(id='isinstance', ctx=ast.Load()), args=[s, p.cls], keywords=[])
        if isinstance(p, ast.MatchOr):
            subs = [self._cond(subj, q) for q in p.patterns]
            if any(x is None for x in subs):
                return None
            if all(isinstance(q, ast.MatchClass) for q in p.patterns):
                return ast.Call(func=ast.Name(id='isinstance', ctx=ast.Load()), args=[s, ast.Tuple(elts=[q.cls for q in p.patterns], ctx=ast.Load())], keywords=[])   # type: ignore[attr-defined]
            return ast.BoolOp(op=ast.Or(), values=T.cast(T.List[ast.expr], subs))
        return None

    def visit_Match(self, n: T.Any) -> ast.AST:
        self.generic_visit(n)
        if not attr_chain(n.subject):
            return n
        arms: T.List[T.Tuple[T.Optional[ast.expr], T.List[ast.stmt]]] = []
        for case in n.cases:
            wild = isinstance(case.pattern, ast.MatchAs) and case.pattern.pattern is None and case.pattern.name is None
            c = None if wild else self._cond(n.subject, case.pattern)
            if c is None and not wild:
                return n
            if case.guard is not None:
                c = case.guard if c is None else ast.BoolOp(op=ast.And(), values=[c, case.guard])
            arms.append((c, case.body))
            if c is None:
                break      # irrefutable: later cases are unreachable (a SyntaxError in Python anyway)
        out: T.List[ast.stmt] = []
        for c, body in reversed(arms):
            if c is None:
                out = list(body)
            else:
                out = [ast.copy_location(ast.If(test=c, body=list(body), orelse=out), body[0])]
        if arms and arms[0][0] is None:
            out = [ast.copy_location(ast.If(test=ast.Constant(value=True), body=out, orelse=[]), n)]
        if not out:
            return ast.copy_location(ast.Pass(), n)
        res = ast.copy_location(out[0], n)
        ast.fix_missing_locations(res)
        return res


def _module(ctx: RuleCtx, rel: str) -> Module:
    """The module with `match` statements rewritten in place (function nodes keep their identity; the Repo object belongs to this run)."""
    mod = ctx.repo.module(rel)
    if not getattr(mod, '_c12_match_desugared', False):
        if hasattr(ast, 'Match') and any(isinstance(x, ast.Match) for x in ast.walk(mod.tree)):
            _MatchToIf().visit(mod.tree)
            mod._parents = None
        mod._c12_match_desugared = True   # type: ignore[attr-defined]
    return mod


# ---------------------------------------------------------------------------
# R1 / R2: the scheduler protocol
# ---------------------------------------------------------------------------

def _positional(call: ast.Call, callee: T.Any) -> T.Optional[T.List[ast.AST]]:
    """Arguments of an internal call in the callee's parameter order (keyword arguments bound by name); None if not bindable."""
    params = [a.arg for a in callee.args.posonlyargs + callee.args.args + callee.args.kwonlyargs if a.arg not in ('self', 'cls')]
    if any(isinstance(a, ast.Starred) for a in call.args) or any(k.arg is None for k in call.keywords) or len(call.args) > len(params):
        return None
    out: T.List[T.Optional[ast.AST]] = list(call.args) + [None] * (len(params) - len(call.args))
    for k in call.keywords:
        if k.arg not in params or out[params.index(k.arg)] is not None:
            return None
        out[params.index(k.arg)] = k.value
    while out and out[-1] is None:
        out.pop()
    if any(x is None for x in out):
        return None
    return T.cast(T.List[ast.AST], out)


class Sched:
    """Resolved structure of TestHarness._run_tests."""

    def __init__(self, mod: Module):
        self.mod = mod
        self.fn = fn = mod.func('TestHarness._run_tests')
        params = [a.arg for a in fn.args.args if a.arg != 'self']
        if not params:
            raise Undecided('_run_tests has no runners parameter')
        self.runners = params[0]
        self.nested: T.Dict[str, T.Any] = {n.name: n for n in ast.walk(fn) if isinstance(n, (ast.FunctionDef, ast.AsyncFunctionDef)) and n is not fn}
        # runner closures: nested functions that call <their parameter>.run(...)
        self.closures: T.Dict[str, T.Tuple[T.Any, str]] = {}
        for name, n in self.nested.items():
            ps = [a.arg for a in n.args.args]
            for c in ast.walk(n):
                if isinstance(c, ast.Call) and isinstance(c.func, ast.Attribute) and c.func.attr == 'run' and isinstance(c.func.value, ast.Name) and c.func.value.id in ps:
                    self.closures[name] = (n, c.func.value.id)
        if not self.closures:
            raise Undecided('_run_tests: no nested function runs a test (<param>.run(...))')
        self.awaited = {id(a.value) for a in ast.walk(fn) if isinstance(a, ast.Await)}
        self.sites = [c for c in ast.walk(fn) if isinstance(c, ast.Call) and isinstance(c.func, ast.Name) and c.func.id in self.closures]
        loops = [st for st in walk_no_nested(fn) if isinstance(st, (ast.For, ast.AsyncFor)) and isinstance(st.iter, ast.Name) and st.iter.id == self.runners]
        self.loop_body: T.Optional[T.List[ast.stmt]] = None
        if not loops:
            # index loop: `for i in range(len(runners)): runner = runners[i]; ...`
            for st in walk_no_nested(fn):
                if isinstance(st, ast.For) and isinstance(st.target, ast.Name) and norm(st.iter) == f'range(len({self.runners}))' and st.body:
                    f0 = st.body[0]
                    if isinstance(f0, ast.Assign) and len(f0.targets) == 1 and isinstance(f0.targets[0], ast.Name) and norm(f0.value) == f'{self.runners}[{st.target.id}]' \
                            and not any(isinstance(n, ast.Name) and n.id == st.target.id for b in st.body[1:] for n in ast.walk(b)):
                        loops = [st]
                        self.loop_body = list(st.body[1:])
                        self.var = f0.targets[0].id
        if len(loops) != 1 or not isinstance(loops[0].target, ast.Name):
            raise Undecided(f'_run_tests: expected exactly one `for <name> in {self.runners}` loop, found {len(loops)}')
        self.loop = loops[0]
        if self.loop_body is None:
            self.loop_body = list(loops[0].body)
            self.var = loops[0].target.id
        ann = next((norm(a.annotation) for a in fn.args.args if a.arg == self.runners and a.annotation is not None), '')
        if 'SingleTestRunner' not in ann:
            raise Undecided(f'_run_tests: {self.runners} is not annotated as a list of SingleTestRunner ({ann})')
        # a waiting primitive whose coroutine is stored instead of awaited in place is an idiom this pack does not follow
        pm = mod.parent_map()
        for c in ast.walk(fn):
            if isinstance(c, ast.Call) and isinstance(c.func, ast.Name) and c.func.id in ('complete', 'complete_all') and id(c) not in self.awaited \
                    and not isinstance(pm.get(c), ast.Expr):
                raise Undecided(f'_run_tests: {short(c)} is neither awaited in place nor discarded')
        self.in_loop = {id(n) for st in self.loop.body for n in ast.walk(st)}

    def is_barrier_all(self, c: ast.Call) -> T.Optional[str]:
        """`await complete_all(F)` without a timeout -> F."""
        if id(c) in self.awaited and isinstance(c.func, ast.Name) and c.func.id == 'complete_all':
            args = _positional(c, self.mod.func('complete_all'))
            if args and isinstance(args[0], ast.Name) and all(isinstance(x, ast.Constant) and x.value is None for x in args[1:]):
                return args[0].id
        return None


def _waiting_primitive(ctx: RuleCtx, mod: Module, name: str) -> None:
    fn = mod.func(name)
    if not isinstance(fn, ast.AsyncFunctionDef) or not fn.args.args:
        raise Undecided(f'{name} is not an async function of one future argument')
    p0 = fn.args.args[0].arg
    fl = Flow(fn, nested=False)
    aw = [a for a in walk_no_nested(fn) if isinstance(a, ast.Await)]
    ok = any(f'param:{p0}' in fl.origins(a.value) for a in aw)
    ctx.require(ok, f'{name}({p0}) awaits an expression fed by its argument', mod, name, fn,
                f'{name} does not await anything derived from its parameter {p0}: it is not a barrier')


def r1(ctx: RuleCtx) -> None:
    mod = _module(ctx, MTEST)
    s = Sched(mod)
    fq = 'TestHarness._run_tests'
    if mod.has_func('complete'):   # the single-future primitive may have been inlined as `await future`
        _waiting_primitive(ctx, mod, 'complete')
    _waiting_primitive(ctx, mod, 'complete_all')

    # (a) scheduling sites: only in the per-runner loop, only for the loop's runner
    ctx.floor('scheduling call sites', len(s.sites), 1)
    if not s.sites:
        refs = [n for n in ast.walk(s.fn) if isinstance(n, ast.Name) and n.id in s.closures and isinstance(n.ctx, ast.Load)]
        if refs:
            raise Undecided(f'_run_tests: the runner closure is handed on as a value ({short(refs[0])}), not called')
        ctx.violation(mod, fq, 'no call of ' + '/'.join(s.closures), 'the runner closure is never called or referenced: no test is started')
    # a plain nested function that schedules its own parameter ("starter") is followed: its calls are the scheduling sites
    starters: T.Dict[str, T.Any] = {}
    for name, nfn in s.nested.items():
        if isinstance(nfn, ast.FunctionDef) and name not in s.closures and len(nfn.args.args) == 1:
            inner = [c for c in walk_no_nested(nfn) if any(c is x for x in s.sites)]
            if inner and all(_site_arg(s, c) == nfn.args.args[0].arg for c in inner):
                starters[name] = nfn
    in_starter = {id(c) for nfn in starters.values() for c in walk_no_nested(nfn)}
    sites = [c for c in s.sites if id(c) not in in_starter] + [c for c in ast.walk(s.fn) if isinstance(c, ast.Call) and isinstance(c.func, ast.Name) and c.func.id in starters]
    for nm in starters:
        ctx.note(f'scheduling goes through the nested function {nm}(): its body is inlined into the loop paths')
    for c in sites:
        inside = id(c) in s.in_loop
        ctx.require(inside, f'scheduling call {short(c)} is inside the `for {s.var} in {s.runners}` loop', mod, fq, c,
                    f'{short(c)} schedules a test outside the per-runner loop (a test can be started twice / out of protocol)')
        argok = _site_arg(s, c, starters) == s.var
        if inside:
            ctx.require(argok, f'{short(c)} schedules the loop variable', mod, fq, c,
                        f'{short(c)} does not schedule the runner of this iteration ({s.var})')

    # futures collection used by the barriers
    colls = {s.is_barrier_all(c) for c in ast.walk(s.fn) if isinstance(c, ast.Call)} - {None}
    if len(colls) != 1:
        if not colls:
            raise Undecided('_run_tests: no `await complete_all(<collection>)` found: the barrier primitive was renamed or moved')
        raise Undecided(f'_run_tests: barriers wait on several collections {sorted(colls)}')
    coll = T.cast(str, next(iter(colls)))
    stores = [n for n in ast.walk(s.fn) if isinstance(n, ast.Name) and n.id == coll and isinstance(n.ctx, (ast.Store, ast.Del))]
    pm = mod.parent_map()
    grow = [n for n in stores if isinstance(pm.get(n), ast.AugAssign) and isinstance(pm[n].op, ast.Add)]   # `coll += [x]` grows, it does not rebind
    if len([n for n in stores if n not in grow]) != 1 or any(id(n) in s.in_loop for n in stores if n not in grow):
        raise Undecided(f'_run_tests: the futures collection {coll} is rebound')

    # (b) per-path protocol of one loop iteration
    body = _dewalrus(_inline_starters(list(s.loop_body or []), starters))
    shell = tables._copy(s.fn)     # normal form of one iteration: single-definition locals of the loop body (flags, aliases of functions) substituted
    shell.body = [tables._copy(st) for st in body]
    body = _propagated(shell).body
    s.awaited |= {id(a.value) for st in body for a in ast.walk(st) if isinstance(a, ast.Await)}
    tab = tables.extract(s.fn, body=body, handlers=True, name='_run_tests:loop')
    par = Atom('truth', (f'{s.var}.is_parallel',))
    for a in tab.atoms():
        txt = repr(a)
        if a != par and 'is_parallel' in txt:
            raise Undecided(f'_run_tests: parallelism tested through an unknown expression: {txt}')
    ctx.floor('paths through one loop iteration', len(tab.rows), 2)
    n_serial = 0
    for row in tab.rows:
        calls = row.path.calls()
        stmt_of: T.Dict[int, ast.AST] = {}
        for ev in row.path.events:
            if ev.node is not None and ev.kind == 'stmt':
                for n in walk_no_nested(ev.node):
                    stmt_of[id(n)] = ev.node
        sched_idx = [i for i, c in enumerate(calls) if isinstance(c.func, ast.Name) and c.func.id in s.closures]
        desc = ' & '.join(('' if v else 'not ') + repr(a) for a, v in row.conds.items()) or 'always'
        what = f'iteration path [{desc}] -> {row.outcome[0]}'
        cons = f'loop path: {desc}'
        node = s.loop
        back = row.outcome[0] in ('fall', 'continue')
        if len(sched_idx) > 1:
            ctx.violation(mod, fq, cons, f'{what}: the runner is scheduled {len(sched_idx)} times in one iteration', node)
            continue
        if not sched_idx:
            via = [c for c in calls if isinstance(c.func, ast.Name) and c.func.id in s.nested and any(isinstance(a, ast.Name) and a.id == s.var for a in c.args)]
            if back and via:
                raise Undecided(f'_run_tests: the runner is handed to {short(via[0])}, which this rule does not follow')
            if back:
                ctx.violation(mod, fq, cons, f'{what}: the iteration ends without scheduling {s.var}: the test is never started', node)
            else:
                ctx.ok(f'{what}: leaves the loop without scheduling (cut short)')
            continue
        si = sched_idx[0]
        sc = calls[si]
        st = stmt_of.get(id(sc))
        fut: T.Optional[str] = None
        inline = id(sc) in s.awaited
        if not inline:
            okshape = (isinstance(st, ast.Assign) and len(st.targets) == 1 and isinstance(st.targets[0], ast.Name) and isinstance(st.value, ast.Call)
                       and call_method(st.value) in ('ensure_future', 'create_task') and st.value.args and st.value.args[0] is sc)
            if not okshape:
                raise Undecided(f'_run_tests: unknown scheduling idiom {short(st)}')
            fut = st.targets[0].id   # type: ignore[union-attr]
        before = calls[:si]
        after = calls[si + 1:]
        futs: T.Set[str] = {fut} if fut is not None else set()
        for ev in row.path.events:   # plain copies of the future (`task = fut` left by inlining a starter, `f = future`)
            if ev.kind == 'stmt' and isinstance(ev.node, ast.Assign) and isinstance(ev.node.value, ast.Name) and ev.node.value.id in futs:
                futs |= {t.id for t in ev.node.targets if isinstance(t, ast.Name)}
        ball_before = [c for c in before if s.is_barrier_all(c) == coll]
        ev_idx: T.Dict[int, int] = {}
        for i_, ev in enumerate(row.path.events):
            for r_ in _event_roots(ev):
                for n_ in walk_no_nested(r_):
                    if isinstance(n_, ast.Call):
                        ev_idx[id(n_)] = i_
        s_ev = ev_idx.get(id(sc), 0)
        rec = [i_ for i_, ev in enumerate(row.path.events) if i_ >= s_ev and ev.kind == 'stmt' and _records(ev.node, coll, futs)]
        problems: T.List[str] = []

        def opaque_await(cs: T.List[ast.Call]) -> T.Optional[ast.Call]:
            """An awaited call on this path that is none of the known primitives (it may wait for tests in a way this rule does not see)."""
            for c in cs:
                if id(c) in s.awaited and not (isinstance(c.func, ast.Name) and c.func.id in ('complete', 'complete_all')) and c is not sc:
                    return c
            return None
        if fut is not None and not rec:
            handed: T.List[ast.AST] = [c for c in after if any(isinstance(a, ast.Name) and a.id in futs for x in list(c.args) + [k.value for k in c.keywords] for a in ast.walk(x))
                                       and not (isinstance(c.func, ast.Name) and c.func.id in ('complete', 'complete_all'))]
            handed += [ev.node for ev in row.path.events[s_ev:] if ev.kind == 'stmt' and isinstance(ev.node, (ast.Assign, ast.AugAssign))
                       and coll in names_in(ev.node) and futs & names_in(ev.node)]
            if handed:
                raise Undecided(f'_run_tests: the future is handed to {short(handed[0])}, which this rule does not follow')
            problems.append(f'the future {fut} is not added to {coll}: the barriers do not wait for it')
        serial = row.conds.get(par) is not True
        if serial:
            n_serial += 1
            if not ball_before:
                others = [a for a in row.conds if a != par and coll in names_in(ast.parse(_atom_src(a), mode='eval'))]
                if others:
                    raise Undecided(f'_run_tests: the barrier before a serial test depends on {others}')
                oa = opaque_await(before)
                if oa is not None:
                    raise Undecided(f'_run_tests: `await {short(oa)}` precedes the scheduling; this rule cannot tell whether it waits for the running tests')
                problems.append(f'a test that may be non-parallel is scheduled without `await complete_all({coll})` first: it can overlap a running test')
            if back and not inline:
                done_one: T.List[ast.AST] = [c for c in after if id(c) in s.awaited and isinstance(c.func, ast.Name) and c.func.id == 'complete' and mod.has_func('complete')
                                              and [norm(x) for x in (_positional(c, mod.func('complete')) or [])] in [[f_] for f_ in futs]]
                # `await <future>` itself, or asyncio.wait/gather over exactly this future without a timeout, after the scheduling
                s_pos = next(i for i, ev in enumerate(row.path.events) if any(x is sc for r_ in _event_roots(ev) for x in ast.walk(r_)))
                for ev in row.path.events[s_pos + 1:]:
                    if ev.kind == 'exc':
                        # a handler entered from a `try` whose first statement awaits the future: the await was attempted and ended
                        # with an exception, i.e. the future is finished (cancelled or failed)
                        for tr in (t_ for st_ in body for t_ in ast.walk(st_) if isinstance(t_, ast.Try)):
                            if any(h is ev.node for h in tr.handlers) and tr.body and isinstance(tr.body[0], ast.Expr) and isinstance(tr.body[0].value, ast.Await) \
                                    and isinstance(tr.body[0].value.value, ast.Name) and tr.body[0].value.value.id in futs:
                                done_one.append(tr.body[0].value)
                    for r_ in _event_roots(ev):
                        for aw in walk_no_nested(r_):
                            if isinstance(aw, ast.Await):
                                v_ = aw.value
                                if isinstance(v_, ast.Name) and v_.id in futs:
                                    done_one.append(aw)
                                elif isinstance(v_, ast.Call) and call_name(v_) in ('asyncio.wait', 'asyncio.gather') and not v_.keywords and len(v_.args) == 1 and \
                                        any(norm(v_.args[0]) in (f_, f'[{f_}]', f'{{{f_}}}', f'({f_},)') for f_ in futs):
                                    done_one.append(aw)
                done_all = [c for c in after if s.is_barrier_all(c) == coll and rec and ev_idx.get(id(c), -1) > rec[0]]
                if not done_one and not done_all:
                    unknown_waits = [c for c in after if id(c) in s.awaited and futs & names_in(c)]
                    unknown_waits += [T.cast(ast.Call, a_.value) for ev in row.path.events for r_ in _event_roots(ev) for a_ in walk_no_nested(r_)
                                      if isinstance(a_, ast.Await) and not isinstance(a_.value, ast.Call) and futs & names_in(a_.value)]
                    if unknown_waits:
                        raise Undecided(f'_run_tests: unknown way of waiting for the serial test: {short(unknown_waits[0])}')
                    oa = opaque_await(after)
                    if oa is not None:
                        raise Undecided(f'_run_tests: `await {short(oa)}` follows the scheduling; this rule cannot tell whether it waits for the serial test')
                    problems.append(f'the next iteration starts without `await complete({fut})`: the following test can overlap a non-parallel one')
        if problems:
            for p in problems:
                ctx.violation(mod, fq, cons + ' :: ' + p.split(':')[0], f'{what}: {p}', node)
        else:
            ctx.ok(f'{what}: scheduled once' + (', barrier before' if serial else '') + (', awaited after' if serial and back else '') + (f', recorded in {coll}' if fut else ''))
    ctx.floor('serial-feasible iteration paths', n_serial, 1)

    # (c) final barrier: every way out of the loop to a normal return awaits all futures
    cfg = CFG(s.fn)
    joins = [n for n in cfg.nodes if n.kind == 'join' and n.ast is s.loop]
    balls = [n for n in cfg.nodes if n.kind == 'stmt' and id(n.ast) not in s.in_loop and
             any(isinstance(c, ast.Call) and s.is_barrier_all(c) == coll for c in walk_no_nested(n.ast))]
    if len(joins) != 1:
        raise Undecided('_run_tests: loop exit not found in the CFG')
    ok = bool(balls) and cfg.must_pass(joins[0], cfg.exit_return, balls)
    if not ok:
        other = [a.value for a in ast.walk(s.fn) if isinstance(a, ast.Await) and id(a) not in s.in_loop and isinstance(a.value, ast.Call)
                 and coll in names_in(a.value) and s.is_barrier_all(a.value) != coll and not any(a.value is x for n_ in s.nested.values() for x in ast.walk(n_))]
        if other:
            raise Undecided(f'_run_tests: `await {short(other[0])}` after the loop may be the final barrier; this rule does not follow it')
    ctx.require(ok, f'every path from the end of the loop to the return passes `await complete_all({coll})`', mod, fq,
                f'final await complete_all({coll})', f'_run_tests can return (and the totals be printed) while scheduled tests are still running: '
                f'no `await complete_all({coll})` on some path after the loop', s.loop)


def _site_arg(s: Sched, c: ast.Call, starters: T.Optional[T.Dict[str, T.Any]] = None) -> T.Optional[str]:
    """The single argument (a plain name) of a call of a runner closure / starter, bound by the callee's signature."""
    callee = s.closures[c.func.id][0] if c.func.id in s.closures else (starters or {}).get(c.func.id) or s.nested.get(c.func.id)   # type: ignore[union-attr]
    args = _positional(c, callee) if callee is not None else None
    if args is not None and len(args) == 1 and isinstance(args[0], ast.Name):
        return args[0].id
    return None


def _records(st: ast.AST, coll: str, futs: T.Set[str]) -> bool:
    """Statement that adds one of the names `futs` to the collection `coll` (append / add / extend([x]) / insert / `+= [x]` / `coll = coll + [x]`)."""
    def has_fut(e: ast.AST) -> bool:
        if isinstance(e, ast.Name):
            return e.id in futs
        return isinstance(e, (ast.List, ast.Tuple, ast.Set)) and any(isinstance(x, ast.Name) and x.id in futs for x in e.elts)
    if isinstance(st, ast.Expr) and isinstance(st.value, ast.Call) and isinstance(st.value.func, ast.Attribute) and isinstance(st.value.func.value, ast.Name) \
            and st.value.func.value.id == coll and not st.value.keywords:
        m, a = st.value.func.attr, st.value.args
        if m in ('append', 'appendleft', 'add') and len(a) == 1 and isinstance(a[0], ast.Name):
            return a[0].id in futs
        if m in ('extend', 'extendleft', 'update') and len(a) == 1 and not isinstance(a[0], ast.Name):
            return has_fut(a[0])
        if m == 'insert' and len(a) == 2 and isinstance(a[1], ast.Name):
            return a[1].id in futs
    if isinstance(st, ast.AugAssign) and isinstance(st.target, ast.Name) and st.target.id == coll and isinstance(st.op, ast.Add) and not isinstance(st.value, ast.Name):
        return has_fut(st.value)
    if isinstance(st, ast.Assign) and len(st.targets) == 1 and isinstance(st.targets[0], ast.Name) and st.targets[0].id == coll:
        v = st.value
        if isinstance(v, ast.BinOp) and isinstance(v.op, ast.Add) and isinstance(v.left, ast.Name) and v.left.id == coll and not isinstance(v.right, ast.Name):
            return has_fut(v.right)
        if isinstance(v, (ast.List, ast.Tuple)) and any(isinstance(x, ast.Starred) and isinstance(x.value, ast.Name) and x.value.id == coll for x in v.elts):
            return any(isinstance(x, ast.Name) and x.id in futs for x in v.elts)
    return False


def _dewalrus(stmts: T.List[ast.stmt]) -> T.List[ast.stmt]:
    """Normal form: `if [not] (x := e) ...:` with the assignment expression in first-evaluated position -> `x = e` before the `if`."""
    out: T.List[ast.stmt] = []
    for st in stmts:
        st = tables._copy(st) if any(isinstance(n, ast.NamedExpr) for n in ast.walk(st)) else st
        for field in ('body', 'orelse', 'finalbody'):
            sub = getattr(st, field, None)
            if isinstance(sub, list) and sub and isinstance(sub[0], ast.stmt) and not isinstance(st, (ast.FunctionDef, ast.AsyncFunctionDef, ast.ClassDef)):
                setattr(st, field, _dewalrus(sub))
        if isinstance(st, (ast.If, ast.While)) and not isinstance(st, ast.While):
            def first(e: ast.AST, put: T.Callable[[ast.AST], None]) -> T.Optional[ast.NamedExpr]:
                if isinstance(e, ast.NamedExpr):
                    put(ast.Name(id=e.target.id, ctx=ast.Load()))
                    return e
                if isinstance(e, ast.UnaryOp):
                    return first(e.operand, lambda n, e=e: setattr(e, 'operand', n))
                if isinstance(e, ast.BoolOp):
                    return first(e.values[0], lambda n, e=e: e.values.__setitem__(0, n))
                if isinstance(e, ast.Compare):
                    return first(e.left, lambda n, e=e: setattr(e, 'left', n))
                if isinstance(e, ast.Call) and isinstance(e.func, ast.Attribute):
                    return first(e.func.value, lambda n, e=e: setattr(e.func, 'value', n))
                return None
            w = first(st.test, lambda n, st=st: setattr(st, 'test', n))
            if w is not None:
                pre = ast.Assign(targets=[ast.Name(id=w.target.id, ctx=ast.Store())], value=w.value)
                ast.copy_location(pre, st)
                ast.fix_missing_locations(pre)
                ast.fix_missing_locations(st)
                out.append(pre)
        out.append(st)
    return out


def _inline_starters(stmts: T.List[ast.stmt], starters: T.Dict[str, T.Any]) -> T.List[ast.stmt]:
    """Loop body with `x = starter(v)` / `starter(v)` replaced by the starter's statements (returns become `x = ...`)."""
    if not starters:
        return stmts
    out: T.List[ast.stmt] = []
    n = [0]
    for st in stmts:
        call = None
        tgt: T.Optional[str] = None
        if isinstance(st, ast.Assign) and len(st.targets) == 1 and isinstance(st.targets[0], ast.Name) and isinstance(st.value, ast.Call):
            call, tgt = st.value, st.targets[0].id
        elif isinstance(st, ast.Expr) and isinstance(st.value, ast.Call):
            call = st.value
        if call is not None and isinstance(call.func, ast.Name) and call.func.id in starters:
            n[0] += 1
            name = tgt or f'_discarded{n[0]}'
            out.extend(_inline_call(starters[call.func.id], call, lambda: ast.Name(id=name, ctx=ast.Store()), '_run_tests', False))
            continue
        if any(isinstance(c, ast.Call) and isinstance(c.func, ast.Name) and c.func.id in starters for c in walk_no_nested(st)):
            st = tables._copy(st)
            for field in ('body', 'orelse', 'finalbody'):
                sub = getattr(st, field, None)
                if isinstance(sub, list) and sub and isinstance(sub[0], ast.stmt):
                    setattr(st, field, _inline_starters(sub, starters))
            if any(isinstance(c, ast.Call) and isinstance(c.func, ast.Name) and c.func.id in starters for c in walk_no_nested(st)):
                raise Undecided(f'_run_tests: unknown use of the starter function: {short(st)}')
        out.append(st)
    return out


def _event_roots(ev: T.Any) -> T.List[ast.AST]:
    """The expressions evaluated at a path event (not the body of a compound statement)."""
    if ev.node is None:
        return []
    if ev.kind == 'iter':
        return [ev.node.iter]
    if ev.kind == 'with':
        return [i.context_expr for i in ev.node.items]
    if ev.kind == 'exc':
        return []
    return [ev.node]


def _atom_src(a: Atom) -> str:
    if a.kind == 'truth':
        return a.args[0]
    if a.kind == 'isinstance':
        return a.args[0]
    if a.kind == 'cmp':
        return f'({a.args[1]}, {a.args[2]})'
    return f'({a.args[0]}, {a.args[1]})'


def _single_defs(fn: T.Any, calls: T.Iterable[str] = ()) -> T.Dict[str, ast.AST]:
    """Copy propagation facts of fn: locals stored exactly once, outside loops, by `x = <pure expression>`, whose value
    reads only parameters, attributes and other such locals.  (The engine's table extraction inlines only locals that
    read no other local; this closes the chain `values = arg.split('/')`, `n = int(values[1])`.)"""
    allowed = tables.INLINE_CALLS | set(calls)
    params = {a.arg for a in fn.args.args + fn.args.kwonlyargs}
    stores: T.Dict[str, int] = {}
    for n in walk_no_nested(fn):
        if isinstance(n, ast.Name) and isinstance(n.ctx, (ast.Store, ast.Del)):
            stores[n.id] = stores.get(n.id, 0) + 1
    cands: T.Dict[str, ast.AST] = {}

    def visit(stmts: T.List[ast.stmt], loop: bool) -> None:
        for st in stmts:
            if not loop and isinstance(st, ast.Assign) and len(st.targets) == 1 and isinstance(st.targets[0], ast.Name):
                cands[st.targets[0].id] = st.value
            elif not loop and isinstance(st, ast.Assign) and len(st.targets) == 1 and isinstance(st.targets[0], (ast.Tuple, ast.List)) \
                    and all(isinstance(e, ast.Name) for e in st.targets[0].elts):
                # `a, b = X` with X a name / attribute chain (or a display of the same length): a -> X[0], b -> X[1]
                v_ = st.value
                if isinstance(v_, (ast.Tuple, ast.List)) and len(v_.elts) == len(st.targets[0].elts) and not any(isinstance(e, ast.Starred) for e in v_.elts):
                    for e, x in zip(st.targets[0].elts, v_.elts):
                        cands[e.id] = x   # type: ignore[attr-defined]
                elif attr_chain(v_) is not None:
                    for i_, e in enumerate(st.targets[0].elts):
                        cands[e.id] = ast.Subscript(value=tables._copy(v_), slice=ast.Constant(value=i_), ctx=ast.Load())   # type: ignore[attr-defined]
            elif not loop and isinstance(st, ast.AnnAssign) and isinstance(st.target, ast.Name) and st.value is not None:
                cands[st.target.id] = st.value
            for field in ('body', 'orelse', 'finalbody'):
                sub = getattr(st, field, None)
                if isinstance(sub, list) and sub and isinstance(sub[0], ast.stmt) and not isinstance(st, (ast.FunctionDef, ast.AsyncFunctionDef, ast.ClassDef)):
                    visit(sub, loop or isinstance(st, (ast.For, ast.While, ast.AsyncFor)))
            for h in getattr(st, 'handlers', []):
                visit(h.body, loop)
    visit(fn.body, False)

    def pure(v: ast.AST) -> bool:
        for n in ast.walk(v):
            if isinstance(n, (ast.Await, ast.Yield, ast.YieldFrom, ast.NamedExpr, ast.Lambda)):
                return False
            if isinstance(n, ast.Call):
                f = n.func
                nm = f.attr if isinstance(f, ast.Attribute) else (f.id if isinstance(f, ast.Name) else '')
                if nm not in allowed:
                    return False
        return True
    cands = {k: v for k, v in cands.items() if stores.get(k) == 1 and k not in params and pure(v)}
    # names bound exactly once by `with ... as x` are stable handles: reading them does not block propagation
    bound_once = {i.optional_vars.id for n in walk_no_nested(fn) if isinstance(n, (ast.With, ast.AsyncWith)) for i in n.items
                  if isinstance(i.optional_vars, ast.Name) and stores.get(i.optional_vars.id) == 1}
    done: T.Dict[str, ast.AST] = {}
    changed = True
    while changed:
        changed = False
        for k, v in cands.items():
            if k in done:
                continue
            reads = {x for x in names_in(v) if x in stores and x not in bound_once}
            if reads <= set(done):
                done[k] = tables._Subst(done).visit(tables._copy(v))
                changed = True
    return done


def _inline_locals(fn: T.Any, expr: ast.AST, calls: T.Iterable[str] = ()) -> ast.AST:
    """expr with the copy-propagation facts of fn substituted."""
    return tables._Subst(_single_defs(fn, calls)).visit(tables._copy(expr))


def _propagated(fn: T.Any, calls: T.Iterable[str] = ()) -> T.Any:
    """A copy of fn in which every read of such a local is replaced by its defining expression."""
    f2 = tables._copy(fn)
    if any(isinstance(n, ast.NamedExpr) for n in ast.walk(f2)):
        f2.body = _dewalrus(f2.body)
    sub = tables._Subst(_single_defs(f2, calls))
    f2.body = [sub.visit(st) for st in f2.body]
    ast.fix_missing_locations(f2)
    return f2


def _terminates_raise(b: T.List[ast.stmt]) -> bool:
    if not b:
        return False
    last = b[-1]
    if isinstance(last, ast.Raise):
        return not any(isinstance(n, ast.Return) for st in b for n in ast.walk(st))
    if isinstance(last, ast.If) and last.orelse:
        return _terminates_raise(last.body) and _terminates_raise(last.orelse)
    return False


def _ret2assign(stmts: T.List[ast.stmt], target: T.Callable[[], ast.expr], what: str) -> T.List[ast.stmt]:
    """Body of an inlined callee with every `return E` turned into `<target> = E` (early returns become else-nesting)."""
    if not stmts:
        return [ast.Assign(targets=[target()], value=ast.Constant(value=None), lineno=0, col_offset=0)]
    st, rest = stmts[0], list(stmts[1:])
    if isinstance(st, ast.Return):
        return [ast.Assign(targets=[target()], value=st.value if st.value is not None else ast.Constant(value=None), lineno=st.lineno, col_offset=0)]
    if isinstance(st, ast.If):
        def arm(b: T.List[ast.stmt]) -> T.List[ast.stmt]:
            if _terminates_raise(b):
                return list(b)       # the arm leaves by an exception: nothing of the continuation runs
            return _ret2assign(list(b) + rest, target, what)
        return [ast.If(test=st.test, body=arm(list(st.body)), orelse=arm(list(st.orelse)))]
    if (isinstance(st, ast.Expr) and isinstance(st.value, ast.Constant)) or isinstance(st, ast.Pass) or (isinstance(st, ast.AnnAssign) and st.value is None):
        return _ret2assign(rest, target, what)
    if any(isinstance(n, (ast.Return, ast.Yield, ast.YieldFrom)) for n in ast.walk(st)):
        raise Undecided(f'{what}: a return inside `{short(st, 60)}` cannot be inlined')
    return [st] + _ret2assign(rest, target, what)


_INLINE_COUNT = [0]


def _simple_arg(a: ast.AST) -> bool:
    """An argument that can be substituted for a parameter: names, attribute chains, constants, subscripts of those."""
    return all(isinstance(n, (ast.Name, ast.Attribute, ast.Constant, ast.Subscript, ast.Slice, ast.Load, ast.UnaryOp, ast.USub, ast.Tuple)) for n in ast.walk(a))


def _resolve_helper(ctx: RuleCtx, mod: Module, cls: T.Optional[str], call: ast.AST) -> T.Optional[T.Tuple[T.Any, bool]]:
    """A call of a small repository helper that may be inlined: (definition, first parameter is the receiver)."""
    if not isinstance(call, ast.Call):
        return None
    f = call.func
    fn: T.Any = None
    recv = False
    if isinstance(f, ast.Attribute) and isinstance(f.value, ast.Name) and f.value.id in ('self', 'cls') and cls is not None:
        r = ctx.repo.find_method(mod, mod.cls(cls), f.attr)
        if r is not None:
            fn, recv = r[2], 'staticmethod' not in decorator_names(r[2])
    elif isinstance(f, ast.Attribute) and isinstance(f.value, ast.Name) and mod.has_cls(f.value.id) and mod.has_func(f'{f.value.id}.{f.attr}'):
        fn = mod.func(f'{f.value.id}.{f.attr}')
        if 'staticmethod' not in decorator_names(fn):
            return None
    elif isinstance(f, ast.Name) and mod.has_func(f.id):
        fn = mod.func(f.id)
    if fn is None or not isinstance(fn, ast.FunctionDef) or set(decorator_names(fn)) - {'staticmethod'}:
        return None
    if any(isinstance(n, (ast.Yield, ast.YieldFrom, ast.Await)) for n in walk_no_nested(fn)) or sum(1 for _ in ast.walk(fn)) > 400:
        return None
    return fn, recv


def _inline_helpers(ctx: RuleCtx, mod: Module, cls: T.Optional[str], fn: T.Any, what: str, keep: T.Iterable[str] = ()) -> T.Any:
    """Normal form: a copy of fn in which calls of small helpers of the same class / module in statement position
    (`x = h(..)`, `return h(..)`, `h(..)`, `if [not] h(..):`) are replaced by the helper's statements (one level)."""
    keep = set(keep)
    f2 = tables._copy(fn)
    tmpn = [0]

    def usable(c: ast.AST) -> T.Optional[T.Tuple[T.Any, bool]]:
        r = _resolve_helper(ctx, mod, cls, c)
        if r is None or r[0].name in keep or r[0].name == fn.name:
            return None
        return r

    def tmp() -> str:
        tmpn[0] += 1
        return f'_inl{tmpn[0]}'

    def one(st: ast.stmt) -> T.List[ast.stmt]:
        try:
            if isinstance(st, ast.Assign) and len(st.targets) == 1 and isinstance(st.targets[0], (ast.Name, ast.Attribute)) and usable(st.value):
                g, recv = usable(st.value)   # type: ignore[misc]
                tg = st.targets[0]
                return _inline_call(g, T.cast(ast.Call, st.value), lambda: tables._copy(tg), what, recv)
            if isinstance(st, ast.Return) and isinstance(st.value, ast.UnaryOp) and isinstance(st.value.op, ast.Not) and usable(st.value.operand):
                g, recv = usable(st.value.operand)   # type: ignore[misc]
                name = tmp()
                return _inline_call(g, T.cast(ast.Call, st.value.operand), lambda: ast.Name(id=name, ctx=ast.Store()), what, recv) + \
                    [ast.copy_location(ast.Return(value=ast.UnaryOp(op=ast.Not(), operand=ast.Name(id=name, ctx=ast.Load()))), st)]
            if isinstance(st, ast.Return) and st.value is not None and usable(st.value):
                g, recv = usable(st.value)   # type: ignore[misc]
                name = tmp()
                return _inline_call(g, T.cast(ast.Call, st.value), lambda: ast.Name(id=name, ctx=ast.Store()), what, recv) + \
                    [ast.copy_location(ast.Return(value=ast.Name(id=name, ctx=ast.Load())), st)]
            if isinstance(st, ast.Expr) and usable(st.value):
                g, recv = usable(st.value)   # type: ignore[misc]
                name = tmp()
                return _inline_call(g, T.cast(ast.Call, st.value), lambda: ast.Name(id=name, ctx=ast.Store()), what, recv)
            if isinstance(st, ast.If):
                t = st.test
                neg = isinstance(t, ast.UnaryOp) and isinstance(t.op, ast.Not)
                c = t.operand if neg else t   # type: ignore[union-attr]
                if usable(c):
                    g, recv = usable(c)   # type: ignore[misc]
                    name = tmp()
                    pre = _inline_call(g, T.cast(ast.Call, c), lambda: ast.Name(id=name, ctx=ast.Store()), what, recv)
                    nt: ast.expr = ast.Name(id=name, ctx=ast.Load())
                    if neg:
                        nt = ast.UnaryOp(op=ast.Not(), operand=nt)
                    st.test = nt
                    return pre + [st]
        except Undecided:
            return [st]
        return [st]

    def block(stmts: T.List[ast.stmt]) -> T.List[ast.stmt]:
        out: T.List[ast.stmt] = []
        for st in stmts:
            for field in ('body', 'orelse', 'finalbody'):
                sub = getattr(st, field, None)
                if isinstance(sub, list) and sub and isinstance(sub[0], ast.stmt) and not isinstance(st, (ast.FunctionDef, ast.AsyncFunctionDef, ast.ClassDef)):
                    setattr(st, field, block(sub))
            for h in getattr(st, 'handlers', []):
                h.body = block(h.body)
            out.extend(one(st))
        return out
    f2.body = block(f2.body)
    ast.fix_missing_locations(f2)
    return f2


def _inline_call(callee: T.Any, call: ast.Call, target: T.Callable[[], ast.expr], what: str, skip_self: bool) -> T.List[ast.stmt]:
    """Statements equivalent to `<target> = callee(args)` (positional arguments that are plain names / attribute chains only)."""
    g = _propagated(callee)
    params = [a.arg for a in g.args.args]
    if skip_self and params and params[0] == 'self':
        params = params[1:]
    bound_args = _positional(call, callee)
    if bound_args is not None and len(bound_args) < len(params):
        # defaults of the callee that are constants
        defaults = dict(zip([a.arg for a in callee.args.args][len(callee.args.args) - len(callee.args.defaults):], callee.args.defaults))
        for p_ in params[len(bound_args):]:
            if isinstance(defaults.get(p_), ast.Constant):
                bound_args.append(defaults[p_])
    if bound_args is None or len(bound_args) != len(params) or any(not _simple_arg(a) for a in bound_args) or g.args.vararg or g.args.kwarg or g.args.kwonlyargs:
        raise Undecided(f'{what}: cannot bind the arguments of {short(call)}')
    stored = {n.id for n in walk_no_nested(g) if isinstance(n, ast.Name) and isinstance(n.ctx, ast.Store)}
    if stored & set(params):
        raise Undecided(f'{what}: {callee.name} rebinds its parameter')
    if any(isinstance(n, (ast.Global, ast.Nonlocal)) for n in ast.walk(g)):
        raise Undecided(f'{what}: {callee.name} rebinds outer variables')
    _INLINE_COUNT[0] += 1
    ren = {n_: f'{n_}__{callee.name.strip("_")}{_INLINE_COUNT[0]}' for n_ in stored}
    for n in ast.walk(g):   # alpha-rename the callee's locals: two inlined calls must not share them
        if isinstance(n, ast.Name) and n.id in ren:
            n.id = ren[n.id]
    sub = tables._Subst({p: a for p, a in zip(params, bound_args)})
    body = [sub.visit(st) for st in g.body]
    out = _ret2assign(body, target, what)
    for st in out:
        ast.fix_missing_locations(st)
    return out


def _self_call_method(ctx: RuleCtx, mod: Module, cls: str, e: ast.AST) -> T.Optional[T.Any]:
    """`self.m(<plain arguments>)` with m a plain method found through the MRO of cls -> its definition."""
    if isinstance(e, ast.Call) and isinstance(e.func, ast.Attribute) and isinstance(e.func.value, ast.Name) and e.func.value.id == 'self':
        r = ctx.repo.find_method(mod, mod.cls(cls), e.func.attr)
        if r is not None and not decorator_names(r[2]) and isinstance(r[2], ast.FunctionDef):
            return r[2]
    return None


def _self_method_call(ctx: RuleCtx, mod: Module, cls: str, e: ast.AST) -> T.Optional[T.Any]:
    """`self.m()` (no arguments) with m a plain method found through the MRO of cls -> its definition."""
    if isinstance(e, ast.Call) and not e.args and not e.keywords and isinstance(e.func, ast.Attribute) and isinstance(e.func.value, ast.Name) and e.func.value.id == 'self':
        r = ctx.repo.find_method(mod, mod.cls(cls), e.func.attr)
        if r is not None and not decorator_names(r[2]) and isinstance(r[2], ast.FunctionDef):
            return r[2]
    return None


def _ways_true(expr: ast.AST) -> T.List[T.Dict[Atom, bool]]:
    """Every way `expr` can be truthy, as canonical atom assignments (engine path enumeration over a synthetic test)."""
    probe = ast.If(test=tables._copy(expr), body=[ast.Return(value=ast.Constant(value=True))], orelse=[ast.Return(value=ast.Constant(value=False))])
    ast.fix_missing_locations(probe)
    out = []
    for p in enumerate_paths([probe]):
        if p.outcome == 'return' and isinstance(p.value, ast.Constant) and p.value.value is True:
            conds: T.Dict[Atom, bool] = {}
            for ev in p.events:
                if ev.kind == 'cond':
                    a, v = tables.canon(ev.node, ev.val)
                    conds[a] = v
            out.append(conds)
    return out


def _fn_ways_true(fn: T.Any, rewrite: T.Optional[T.Callable[[ast.AST], ast.AST]] = None, want: bool = True, calls: T.Iterable[str] = ()) -> T.List[T.Dict[Atom, bool]]:
    """Every way a function returns a truthy value: per returning path, the path conditions joined with the ways the returned
    expression is true; a returned local is replaced by the expression last assigned to it on that path (flag variables)."""
    rw = rewrite or (lambda e: e)
    out: T.List[T.Dict[Atom, bool]] = []
    for pth in enumerate_paths(_propagated(fn, calls).body):
        if pth.outcome != 'return' or pth.value is None:
            continue
        base: T.Dict[Atom, bool] = {}
        last: T.Dict[str, ast.AST] = {}
        for ev in pth.events:
            if ev.kind == 'cond':
                a_, v_ = tables.canon(rw(tables._Subst(last).visit(tables._copy(ev.node))), ev.val)
                base[a_] = v_
            elif ev.kind == 'stmt' and isinstance(ev.node, (ast.Assign, ast.AnnAssign)) and ev.node.value is not None:
                tg = ev.node.targets[0] if isinstance(ev.node, ast.Assign) and len(ev.node.targets) == 1 else ev.node.target if isinstance(ev.node, ast.AnnAssign) else None
                if isinstance(tg, ast.Name):
                    last[tg.id] = tables._Subst(last).visit(tables._copy(ev.node.value))
            elif ev.kind == 'stmt' and isinstance(ev.node, ast.AugAssign) and isinstance(ev.node.target, ast.Name):
                last.pop(ev.node.target.id, None)
        val = rw(tables._Subst(last).visit(tables._copy(pth.value)))
        if not want:
            val = ast.UnaryOp(op=ast.Not(), operand=val)
        for w in _ways_true(val):
            if all(base.get(k, v) == v for k, v in w.items()):
                out.append({**base, **w})
    return out


def _init_roles(mod: Module, cls: str) -> T.Dict[str, str]:
    """Chain prefixes of `cls.__init__` that denote the serialised test / the options: parameters by annotation and
    their `self.x = <param>` aliases."""
    fn = mod.func(f'{cls}.__init__')
    roles: T.Dict[str, str] = {}
    for a in fn.args.args:
        ann = norm(a.annotation) if a.annotation is not None else ''
        if ann.endswith('TestSerialisation'):
            roles[a.arg] = 'test'
        elif ann.endswith('Namespace'):
            roles[a.arg] = 'options'
    if sorted(roles.values()) != ['options', 'test']:
        raise Undecided(f'{cls}.__init__: cannot identify the test / options parameters')
    for st in fn.body:
        if isinstance(st, ast.Assign) and len(st.targets) == 1 and isinstance(st.targets[0], ast.Attribute) and isinstance(st.targets[0].value, ast.Name) \
                and st.targets[0].value.id == 'self' and isinstance(st.value, ast.Name) and st.value.id in roles:
            roles[f'self.{st.targets[0].attr}'] = roles[st.value.id]
    for ch in [k for k in roles if k.startswith('self.')]:
        if sum(1 for m in ast.walk(fn) if isinstance(m, ast.Attribute) and isinstance(m.ctx, ast.Store) and attr_chain(m) == ch) != 1:
            raise Undecided(f'{cls}.__init__: {ch} is rebound')
    for name, arg in tables._param_map(fn).items():   # the engine's positional parameter names
        if name in roles:
            roles[arg.id] = roles[name]   # type: ignore[attr-defined]
    return roles


def _role_chain(text: str, roles: T.Dict[str, str]) -> str:
    """'self.test.timeout' / 'test.timeout' -> 'test.timeout' (role-relative), anything else unchanged."""
    best = ''
    for pre in roles:
        if (text == pre or text.startswith(pre + '.')) and len(pre) > len(best):
            best = pre
    if best:
        return roles[best] + text[len(best):]
    return text


class _Roles(ast.NodeTransformer):
    def __init__(self, roles: T.Dict[str, str]):
        self.roles = roles

    def visit_Attribute(self, n: ast.Attribute) -> ast.AST:
        ch = attr_chain(n)
        if ch is not None:
            r = _role_chain(ch, self.roles)
            if r != ch:
                return ast.parse(r, mode='eval').body
            return n
        return self.generic_visit(n)

    def visit_Name(self, n: ast.Name) -> ast.AST:
        if n.id in self.roles:
            return ast.Name(id=self.roles[n.id], ctx=ast.Load())
        return n


def _slice_for(fn: T.Any, names: T.Set[str]) -> T.List[ast.stmt]:
    """Top-level statements of fn that (transitively) define the given local names (backward slice)."""
    params = {a.arg for a in fn.args.args + fn.args.kwonlyargs}
    need = set(names) - params
    chosen: T.List[ast.stmt] = []
    changed = True
    while changed:
        changed = False
        for st in fn.body:
            if st in chosen:
                continue
            stores = {n.id for n in walk_no_nested(st) if isinstance(n, ast.Name) and isinstance(n.ctx, ast.Store)}
            if stores & need:
                chosen.append(st)
                need |= {n.id for n in walk_no_nested(st) if isinstance(n, ast.Name) and isinstance(n.ctx, ast.Load)} - params
                changed = True
    return [st for st in fn.body if st in chosen]


def _testrun_arg(mod: Module, field: str) -> T.Tuple[T.Any, ast.AST, str]:
    """The expression SingleTestRunner.__init__ passes for the TestRun attribute `field` read through self.runobj."""
    prop = mod.func(f'SingleTestRunner.{field}')
    if 'property' not in decorator_names(prop):
        raise Undecided(f'SingleTestRunner.{field} is not a property')
    rets = [n for n in walk_no_nested(prop) if isinstance(n, ast.Return)]
    ch = attr_chain(rets[0].value) if len(rets) == 1 and rets[0].value is not None else None
    if not ch or len(ch.split('.')) != 3 or not ch.startswith('self.'):
        raise Undecided(f'SingleTestRunner.{field}: unknown shape {short(prop)}')
    _, holder, attr = ch.split('.')
    return _ctor_arg(mod, holder, attr)


def _ctor_arg(mod: Module, holder: str, attr: str) -> T.Tuple[T.Any, ast.AST, str]:
    """The expression SingleTestRunner.__init__ passes to the constructor of self.<holder> for the parameter copied to its self.<attr>."""
    init = mod.func('SingleTestRunner.__init__')
    builds = [st for st in ast.walk(init) if isinstance(st, ast.Assign) and len(st.targets) == 1 and attr_chain(st.targets[0]) == f'self.{holder}']
    if len(builds) != 1 or not isinstance(builds[0].value, ast.Call) or not isinstance(builds[0].value.func, ast.Name):
        raise Undecided(f'SingleTestRunner.__init__: self.{holder} is not built by one constructor call')
    call = builds[0].value
    cls = call.func.id   # type: ignore[union-attr]
    tinit = mod.func(f'{cls}.__init__')
    src = [st for st in ast.walk(tinit) if isinstance(st, ast.Assign) and len(st.targets) == 1 and attr_chain(st.targets[0]) == f'self.{attr}']
    if len(src) != 1 or not isinstance(src[0].value, ast.Name):
        raise Undecided(f'{cls}.__init__: self.{attr} is not a plain copy of a parameter')
    pname = src[0].value.id
    params = [a.arg for a in tinit.args.args if a.arg != 'self']
    if pname not in params:
        raise Undecided(f'{cls}.__init__: {pname} is not a parameter')
    for k in call.keywords:
        if k.arg == pname:
            return init, k.value, cls
    idx = params.index(pname)
    if idx < len(call.args) and not any(isinstance(a, ast.Starred) for a in call.args):
        return init, call.args[idx], cls
    raise Undecided(f'SingleTestRunner.__init__: no argument for {cls}.{pname}')


def _lt_const(a: Atom, v: bool, chain: str, roles: T.Dict[str, str]) -> T.Optional[T.Tuple[str, int]]:
    """An ordering fact about role-chain `chain` vs an integer constant: ('gt', c) = chain > c ... or None."""
    if a.kind != 'cmp' or a.args[0] != 'lt':
        return None
    x, y = _role_chain(a.args[1], roles), _role_chain(a.args[2], roles)
    try:
        if y == chain:
            c = int(x)
            return ('gt', c) if v else ('le', c)
        if x == chain:
            c = int(y)
            return ('lt', c) if v else ('ge', c)
    except ValueError:
        return None
    return None


def r2(ctx: RuleCtx) -> None:
    mod = _module(ctx, MTEST)
    s = Sched(mod)
    fq = 'TestHarness._run_tests'
    # semaphores created in _run_tests
    sems: T.Dict[str, ast.Assign] = {}
    for st in walk_no_nested(s.fn):
        if isinstance(st, ast.Assign) and isinstance(st.value, ast.Call) and call_name(st.value) in ('asyncio.Semaphore', 'asyncio.BoundedSemaphore') \
                and len(st.targets) == 1 and isinstance(st.targets[0], ast.Name):
            sems[st.targets[0].id] = st
    cfg_fn = CFG(s.fn)
    for name, st in sems.items():
        call = T.cast(ast.Call, st.value)
        size = call.args[0] if call.args else next((k.value for k in call.keywords if k.arg == 'value'), None)
        size = _inline_locals(s.fn, size) if size is not None else None
        ctx.require(size is not None and attr_chain(size) == 'self.options.num_processes', f'semaphore {name} is sized by self.options.num_processes', mod, fq, st,
                    f'the job semaphore is created with {short(size)} instead of the requested number of jobs (self.options.num_processes)')
        stores = [n for n in ast.walk(s.fn) if isinstance(n, ast.Name) and n.id == name and isinstance(n.ctx, ast.Store)]
        nodes = cfg_fn.stmt_nodes(st)
        once = len(stores) == 1 and len(nodes) == 1 and not cfg_fn.can_reach(nodes[0], nodes[0])
        ctx.require(once, f'semaphore {name} is created once per run', mod, fq, st, f'the semaphore {name} is re-created (per test / per iteration): it bounds nothing')
    ctx.floor('semaphores', len(sems), 1)

    flags = set()
    for n in s.nested.values():
        nl = {x for st in ast.walk(n) if isinstance(st, ast.Nonlocal) for x in st.names}
        for st in ast.walk(n):
            if isinstance(st, ast.Assign) and isinstance(st.value, ast.Constant) and st.value.value is True:
                for t in st.targets:
                    if isinstance(t, ast.Name) and t.id in nl:
                        flags.add(t.id)
    # the same flag held in an Event object: `<local> = asyncio.Event()` in _run_tests, `.set()` in a nested function, never `.clear()`ed;
    # its test is `<local>.is_set()` (the flag texts below are the expressions whose falsity a path must have seen)
    events = {st.targets[0].id for st in walk_no_nested(s.fn) if isinstance(st, ast.Assign) and len(st.targets) == 1 and isinstance(st.targets[0], ast.Name)
              and isinstance(st.value, ast.Call) and call_name(st.value) in ('asyncio.Event', 'threading.Event') and not st.value.args and not st.value.keywords}
    for ev_name in sorted(events):
        stores = [x for x in ast.walk(s.fn) if isinstance(x, ast.Name) and x.id == ev_name and isinstance(x.ctx, ast.Store)]
        meths = {c.func.attr for c in ast.walk(s.fn) if isinstance(c, ast.Call) and isinstance(c.func, ast.Attribute) and isinstance(c.func.value, ast.Name) and c.func.value.id == ev_name}
        set_nested = any(isinstance(c, ast.Call) and isinstance(c.func, ast.Attribute) and c.func.attr == 'set' and isinstance(c.func.value, ast.Name) and c.func.value.id == ev_name and not c.args
                         for n in s.nested.values() for c in ast.walk(n))
        if len(stores) == 1 and set_nested and 'clear' not in meths:
            flags.add(f'{ev_name}.is_set()')
    n_runs = 0
    for cname, (cl, p) in s.closures.items():
        cq = f'{fq}.{cname}'
        cfg = CFG(cl)
        is_run = lambda c: isinstance(c.func, ast.Attribute) and c.func.attr == 'run' and isinstance(c.func.value, ast.Name) and c.func.value.id == p  # noqa: E731
        run_nodes = cfg.nodes_with_call(is_run)
        enters = [n for n in cfg.nodes if n.kind == 'with_enter' and isinstance(n.ast, ast.AsyncWith)
                  and any(isinstance(i.context_expr, ast.Name) and i.context_expr.id in sems for i in n.ast.items)]
        held_withs = {id(n.ast) for n in enters}
        exits = [n for n in cfg.nodes if n.kind == 'with_exit' and id(n.ast) in held_withs]
        awaited = {id(a.value) for a in ast.walk(cl) if isinstance(a, ast.Await)}
        for rn in run_nodes:
            n_runs += 1
            rc = [c for c in walk_no_nested(rn.expr()) if isinstance(c, ast.Call) and is_run(c)][0]   # type: ignore[arg-type]
            held = bool(enters) and cfg.dominated_by_any(rn, enters) and not any(cfg.can_reach(x, rn) for x in exits)
            if not held:
                # explicit form: `await <sem>.acquire()` dominates the run and no `<sem>.release()` can precede it
                acqn = cfg.nodes_with_call(lambda c: call_method(c) == 'acquire' and isinstance(c.func, ast.Attribute) and isinstance(c.func.value, ast.Name) and c.func.value.id in sems
                                           and id(c) in awaited)
                reln = cfg.nodes_with_call(lambda c: call_method(c) == 'release' and isinstance(c.func, ast.Attribute) and isinstance(c.func.value, ast.Name) and c.func.value.id in sems)
                if acqn and cfg.dominated_by_any(rn, acqn) and not any(cfg.can_reach(x, rn) for x in reln):
                    rel_ok = bool(reln) and all(cfg.must_pass(rn, ex, reln) for ex in (cfg.exit_return, cfg.exit_raise) if cfg.can_reach(rn, ex))
                    if not rel_ok:
                        raise Undecided(f'{cq}: the semaphore is acquired explicitly but not released on every way out')
                    held = True
            if not held:
                # other ways of holding a semaphore (explicit acquire, a wrapping context manager) are not followed
                acq = [c for c in ast.walk(cl) if isinstance(c, ast.Call) and call_method(c) == 'acquire'
                       and not (isinstance(c.func, ast.Attribute) and isinstance(c.func.value, ast.Name) and c.func.value.id in sems)]
                unk = [w for w in ast.walk(cl) if isinstance(w, ast.AsyncWith) and id(w) not in held_withs
                       and not any(isinstance(i.context_expr, ast.Call) and (call_name(i.context_expr) or '').endswith('Semaphore') for i in w.items)]
                if acq or unk:
                    raise Undecided(f'{cq}: the job limit is taken by {short(acq[0] if acq else unk[0].items[0].context_expr)}, an idiom this rule does not follow')
            ctx.require(held, f'{cname}: {short(rc)} runs with the job semaphore held', mod, cq, rc,
                        f'{short(rc)} is reachable without holding `async with <semaphore>`: more than num_processes tests can run at once')
            ctx.require(id(rc) in awaited, f'{cname}: {short(rc)} is awaited inside the semaphore', mod, cq, 'await of ' + norm(rc),
                        f'{short(rc)} is not awaited: the semaphore is released before the test has run', rc)
        # cancellation flag seen false on every path to run()
        if not flags:
            raise Undecided('_run_tests: no cancellation flag (nonlocal ... = True) found')
        paths = enumerate_paths(cl.body, handlers=True)
        np_ = 0
        bad = None
        for pth in paths:
            if not any(is_run(c) for c in pth.calls()):
                continue
            np_ += 1
            idx = min(i for i, ev in enumerate(pth.events) if any(isinstance(c, ast.Call) and is_run(c) for r in _event_roots(ev) for c in walk_no_nested(r)))
            seen = {norm(ev.node): ev.val for ev in pth.events[:idx] if ev.kind == 'cond'}
            if not any(seen.get(f) is False for f in flags):
                opaque = [ev.node for ev in pth.events[:idx] if ev.kind == 'cond' and norm(ev.node) not in flags and any(isinstance(c, ast.Call) for c in ast.walk(ev.node))]
                if opaque:
                    raise Undecided(f'{cq}: `{short(opaque[0])}` is tested before {p}.run(); it may consult the cancellation flag')
                bad = pth
        if np_:
            ctx.require(bad is None, f'{cname}: every path to {p}.run() has seen the cancellation flag ({"/".join(sorted(flags))}) false', mod, cq,
                        f'{p}.run() without cancellation test',
                        f'a path reaches {p}.run() without testing {"/".join(sorted(flags))}: tests still start after the run was cut short ({bad.describe() if bad else ""})', cl)
    ctx.floor('test.run() call sites in runner closures', n_runs, 1)

    # is_parallel of a runner implies test.is_parallel and num_processes > 1 (every way the expression is true contains both atoms)
    init, expr, cls = _testrun_arg(mod, 'is_parallel')
    roles = _init_roles(mod, 'SingleTestRunner')
    e1 = _inline_locals(init, expr, calls=set(mod.methods('SingleTestRunner')))
    helper = _self_method_call(ctx, mod, 'SingleTestRunner', e1)
    if helper is not None:
        # the expression lives in a helper method: every returning path of it, with the ways its value can be true
        ways = _fn_ways_true(helper, lambda e: _Roles(roles).visit(e))
        e2 = ast.parse(f'{helper.name}()', mode='eval').body
    else:
        e2 = _Roles(roles).visit(e1)
        ways = _ways_true(e2)
    if not ways:
        raise Undecided(f'SingleTestRunner.__init__: `{short(expr)}` can never be true')
    worst = None
    for w in ways:
        has_test = w.get(Atom('truth', ('test.is_parallel',))) is True
        has_jobs = False
        for a, v in w.items():
            f = _lt_const(a, v, 'options.num_processes', {})
            if f in (('gt', 1), ('ge', 2)):
                has_jobs = True
        if not (has_test and has_jobs):
            opaque = [a for a in w if a.kind == 'truth' and (a.args[0].isidentifier() or '(' in a.args[0])]
            if opaque:
                raise Undecided(f'SingleTestRunner.__init__: is_parallel depends on {opaque[0]!r}, which this rule cannot see into')
            worst = ' & '.join(('' if v else 'not ') + repr(a) for a, v in w.items())
    ctx.require(worst is None, f'is_parallel => test.is_parallel and num_processes > 1 ({len(ways)} way(s) for `{short(e2, 90)}` to hold)', mod, 'SingleTestRunner.__init__',
                'is_parallel argument of ' + cls, f'a runner is parallel when [{worst}] holds, which does not establish test.is_parallel and num_processes > 1: '
                'a serial test (or a -j1 run) is scheduled without the barriers', expr)

    # num_processes is only lowered
    nw = 0
    for q, f in mod.funcs().items():
        for st in walk_no_nested(f):
            tgt = None
            if isinstance(st, ast.Assign) and len(st.targets) == 1:
                tgt, val = st.targets[0], st.value
            elif isinstance(st, ast.AugAssign):
                tgt, val = st.target, None
            if not (isinstance(tgt, ast.Attribute) and tgt.attr == 'num_processes'):
                continue
            nw += 1
            if val is not None and isinstance(val, ast.Constant) and val.value == 1:
                ctx.ok(f'{q}: {short(st)} (serial)')
            elif val is not None and isinstance(val, ast.Call) and call_name(val) == 'min' and any(norm(a) == norm(tgt) for a in val.args):
                ctx.ok(f'{q}: {short(st)} (never above the request)')
            elif val is None or (isinstance(val, ast.Call) and call_name(val) == 'max') or (isinstance(val, ast.BinOp) and norm(tgt) in {norm(x) for x in ast.walk(val)}):
                ctx.violation(mod, q, st, f'{short(st)} can raise the number of jobs above the requested value', st)
            else:
                raise Undecided(f'{q}: unknown write of num_processes: {short(st)}')
    ctx.floor('writers of num_processes', nw, 1)


# ---------------------------------------------------------------------------
# R3a: classification tables (reference: DESIGN A.13 / property statement)
# ---------------------------------------------------------------------------

BAD = {'FAIL', 'TIMEOUT', 'INTERRUPT', 'UNEXPECTEDPASS', 'ERROR'}
KIND = {'EXITCODE': ['exitcode'], 'GTEST': ['pass', 'exitcode'], 'TAP': ['tap'], 'RUST': []}   # protocol -> tables before TestRun.complete
SKIP_RC, ERROR_RC = 77, 99   # GNU conventions (docs/markdown/Unit-tests.md "Skipped tests and hard errors")
RES = 'self.res'


def _enum_names(mod: Module, cls: str) -> T.List[str]:
    return [st.targets[0].id for st in mod.cls(cls).body
            if isinstance(st, ast.Assign) and len(st.targets) == 1 and isinstance(st.targets[0], ast.Name) and not st.targets[0].id.startswith('_')]


def _member_name(text: str, enum: str = 'TestResult') -> T.Optional[str]:
    return text[len(enum) + 1:] if text.startswith(enum + '.') and text.count('.') == 1 else None


def _class_const(ctx: RuleCtx, mod: Module, cls: str, e: ast.AST) -> T.Any:
    """Fold `self.X` / `cls.X` / `Class.X` / `X` where X is a class- or module-level constant table (found through the MRO of cls)."""
    ch = attr_chain(e)
    if ch is None:
        return fold_expr(ctx.repo, mod, e)   # a display written in place (or substituted for a local)
    parts = ch.split('.')
    if len(parts) == 2 and (parts[0] in ('self', 'cls') or mod.has_cls(parts[0])):
        owner = cls if parts[0] in ('self', 'cls') else parts[0]
        for m_, c_ in ctx.repo.mro(mod, mod.cls(owner)):
            if m_.has_assign(parts[1], c_):
                return fold_expr(ctx.repo, m_, m_.assign_value(parts[1], c_), cls=c_.name)
        raise Undecided(f'no class-level constant {ch}')
    return fold_expr(ctx.repo, mod, e)


def _const_node(v: T.Any) -> ast.expr:
    if isinstance(v, EnumMember):
        return ast.Attribute(value=ast.Name(id=v.cls, ctx=ast.Load()), attr=v.name, ctx=ast.Load())
    if isinstance(v, (int, str, bool)) or v is None:
        return ast.Constant(value=v)
    raise Undecided(f'table entry {v!r} is not a constant this rule understands')


def _lookup_to_chain(ctx: RuleCtx, mod: Module, cls: str, st: ast.Assign) -> T.Optional[T.List[ast.stmt]]:
    """`x = TABLE[k]` / `x = TABLE.get(k, d)` over a constant table -> `if k == key1: x = v1 elif ... else: x = d / raise KeyError`
    (an if/elif chain over constants and a constant lookup table are the same decision table; policy form c)."""
    v = st.value
    if isinstance(v, ast.Subscript) and not isinstance(v.slice, ast.Slice):
        tab_e, key_e, default = v.value, v.slice, None
    elif isinstance(v, ast.Call) and isinstance(v.func, ast.Attribute) and v.func.attr == 'get' and len(v.args) in (1, 2) and not v.keywords:
        tab_e, key_e = v.func.value, v.args[0]
        default = v.args[1] if len(v.args) == 2 else ast.Constant(value=None)
    else:
        return None
    try:
        table = _class_const(ctx, mod, cls, tab_e)
    except Undecided:
        return None
    if not isinstance(table, dict) or not table:
        return None
    tail: T.List[ast.stmt] = [ast.Assign(targets=st.targets, value=default, lineno=st.lineno, col_offset=0)] if default is not None else \
        [ast.Raise(exc=ast.Call(func=ast.Name(id='KeyError', ctx=ast.Load()), args=[], keywords=[]), cause=None)]
    chain = tail
    for k, val in reversed(list(table.items())):
        op: ast.cmpop = ast.Is() if isinstance(k, EnumMember) else ast.Eq()
        test = ast.Compare(left=tables._copy(key_e), ops=[op], comparators=[_const_node(k)])
        chain = [ast.If(test=test, body=[ast.Assign(targets=st.targets, value=_const_node(val), lineno=st.lineno, col_offset=0)], orelse=chain)]
    for x in chain:
        ast.copy_location(x, st)
        ast.fix_missing_locations(x)
    return chain


def _unroll_table_setattr(ctx: RuleCtx, mod: Module, cls: str, fn: T.Any) -> T.Any:
    """Normal form: `setattr(self, T[k], getattr(self, T[k]) + 1)` over a constant table T (member -> attribute name) becomes the
    if/elif chain `if k is K1: self.<a1> += 1 ...` (table-driven dispatch and a chain over constants are the same decision table)."""
    f2 = tables._copy(fn)

    def block(stmts: T.List[ast.stmt]) -> T.List[ast.stmt]:
        out: T.List[ast.stmt] = []
        for st in stmts:
            for field in ('body', 'orelse', 'finalbody'):
                sub = getattr(st, field, None)
                if isinstance(sub, list) and sub and isinstance(sub[0], ast.stmt) and not isinstance(st, (ast.FunctionDef, ast.AsyncFunctionDef, ast.ClassDef)):
                    setattr(st, field, block(sub))
            c = st.value if isinstance(st, ast.Expr) else None
            if isinstance(c, ast.Call) and call_name(c) == 'setattr' and len(c.args) == 3 and norm(c.args[0]) == 'self' and isinstance(c.args[2], ast.BinOp) \
                    and isinstance(c.args[2].op, ast.Add) and isinstance(c.args[2].right, ast.Constant) and c.args[2].right.value == 1 \
                    and isinstance(c.args[2].left, ast.Call) and call_name(c.args[2].left) == 'getattr' and len(c.args[2].left.args) == 2 \
                    and norm(c.args[2].left.args[0]) == 'self' and norm(c.args[2].left.args[1]) == norm(c.args[1]):
                e = c.args[1]
                tab_e = key_e = None
                if isinstance(e, ast.Subscript) and not isinstance(e.slice, ast.Slice):
                    tab_e, key_e = e.value, e.slice
                elif isinstance(e, ast.Call) and isinstance(e.func, ast.Attribute) and e.func.attr == 'get' and len(e.args) == 1 and not e.keywords:
                    tab_e, key_e = e.func.value, e.args[0]    # a missing key gives getattr(self, None): TypeError, like the KeyError of T[k]
                if tab_e is not None:
                    try:
                        table = _class_const(ctx, mod, cls, tab_e)
                    except (Undecided, AnchorMissing):
                        table = None
                    if isinstance(table, dict) and table and all(isinstance(v, str) and v.isidentifier() for v in table.values()):
                        chain: T.List[ast.stmt] = [ast.Raise(exc=ast.Call(func=ast.Name(id='KeyError', ctx=ast.Load()), args=[], keywords=[]), cause=None)]
                        for k, v in reversed(list(table.items())):
                            op: ast.cmpop = ast.Is() if isinstance(k, EnumMember) else ast.Eq()
                            inc = ast.AugAssign(target=ast.Attribute(value=ast.Name(id='self', ctx=ast.Load()), attr=v, ctx=ast.Store()), op=ast.Add(), value=ast.Constant(value=1))
                            chain = [ast.If(test=ast.Compare(left=tables._copy(key_e), ops=[op], comparators=[_const_node(k)]), body=[inc], orelse=chain)]
                        for x in chain:
                            ast.copy_location(x, st)
                            ast.fix_missing_locations(x)
                        out.extend(chain)
                        continue
            out.append(st)
        return out
    f2.body = block(f2.body)
    return f2


def _member_set(ctx: RuleCtx, mod: Module, text: str, cls: str = 'TestRun') -> T.Optional[T.Set[str]]:
    """Fold a constant container of TestResult members written in the source (a display, a named constant, the keys of a table)."""
    try:
        v = _class_const(ctx, mod, cls, ast.parse(text, mode='eval').body) if attr_chain(ast.parse(text, mode='eval').body) else \
            fold_expr(ctx.repo, mod, ast.parse(text, mode='eval').body)
    except (Undecided, SyntaxError, AnchorMissing):
        return None
    if isinstance(v, dict):
        v = list(v.keys())
    if isinstance(v, (set, frozenset, tuple, list)) and all(isinstance(x, EnumMember) and x.cls == 'TestResult' for x in v):
        return {x.name for x in v}
    return None


def _method_member_set(ctx: RuleCtx, mod: Module, meth: str) -> T.Set[str]:
    """TestResult.<meth>: `return self in {...}` / `return self not in {...}` -> the set of members for which it holds."""
    fn = mod.func(f'TestResult.{meth}')
    rets = [r for r in walk_no_nested(fn) if isinstance(r, ast.Return)]
    if len(rets) == 1 and isinstance(rets[0].value, ast.Compare) and len(rets[0].value.ops) == 1 and norm(rets[0].value.left) == 'self':
        ms = _member_set(ctx, mod, norm(rets[0].value.comparators[0]))
        if ms is not None:
            if isinstance(rets[0].value.ops[0], ast.In):
                return ms
            if isinstance(rets[0].value.ops[0], ast.NotIn):
                return set(_enum_names(mod, 'TestResult')) - ms
    raise Undecided(f'TestResult.{meth} is not a membership test in a constant set of members')


def _res_pred(ctx: RuleCtx, mod: Module, a: Atom, subject: str, cls: str = 'TestRun') -> T.Optional[T.Set[str]]:
    """If atom `a` is a predicate on the enum-valued `subject` against constants: the members for which it is true."""
    if a.kind in ('cmp', 'is'):
        ops = a.args[1:] if a.kind == 'cmp' else a.args
        if a.kind == 'cmp' and a.args[0] != 'eq':
            return None
        if subject in ops:
            other = ops[1] if ops[0] == subject else ops[0]
            m = _member_name(other)
            return {m} if m else None
    if a.kind == 'in' and a.args[0] == subject:
        return _member_set(ctx, mod, a.args[1], cls)
    if a.kind == 'is' and a.args[1] == 'None':
        # `TABLE.get(subject) is None`: the members that are not keys of the constant table
        try:
            pe = ast.parse(a.args[0], mode='eval').body
        except SyntaxError:
            pe = None
        if isinstance(pe, ast.Call) and isinstance(pe.func, ast.Attribute) and pe.func.attr == 'get' and len(pe.args) == 1 and not pe.keywords and norm(pe.args[0]) == subject:
            keys = _member_set(ctx, mod, norm(pe.func.value), cls)
            if keys is not None:
                return set(_enum_names(mod, 'TestResult')) - keys
    if a.kind == 'isinstance' and a.args[0] == subject and a.args[1] == ('TestResult',):
        return set(_enum_names(mod, 'TestResult'))
    if a.kind == 'truth' and a.args[0].startswith(subject + '.') and a.args[0].endswith('()'):
        meth = a.args[0][len(subject) + 1:-2]
        if mod.has_func(f'TestResult.{meth}'):
            return _method_member_set(ctx, mod, meth)
    return None


class _SplitCondAssign(ast.NodeTransformer):
    """`x = A if c else B`  ->  `if c: x = A` / `else: x = B`  (so that the path enumerator sees the decision)."""

    def visit_Assign(self, n: ast.Assign) -> ast.AST:
        if isinstance(n.value, ast.IfExp):
            a = ast.Assign(targets=n.targets, value=n.value.body, lineno=n.lineno, col_offset=n.col_offset)
            b = ast.Assign(targets=n.targets, value=n.value.orelse, lineno=n.lineno, col_offset=n.col_offset)
            return ast.copy_location(ast.If(test=n.value.test, body=[self.visit_Assign(a)], orelse=[self.visit_Assign(b)]), n)   # type: ignore[list-item]
        return n

    def visit_AnnAssign(self, n: ast.AnnAssign) -> ast.AST:
        if isinstance(n.value, ast.IfExp):
            return self.visit_Assign(ast.copy_location(ast.Assign(targets=[n.target], value=n.value), n))
        return n

    def visit_Return(self, n: ast.Return) -> ast.AST:
        if isinstance(n.value, ast.IfExp):
            a = ast.copy_location(ast.Return(value=n.value.body), n)
            b = ast.copy_location(ast.Return(value=n.value.orelse), n)
            return ast.copy_location(ast.If(test=n.value.test, body=[self.visit_Return(a)], orelse=[self.visit_Return(b)]), n)   # type: ignore[list-item]
        return n


def _split_conditional_values(fn: T.Any) -> T.Any:
    """Normal form: conditional expressions assigned / returned become if/else statements (on a copy)."""
    f2 = tables._copy(fn)
    f2.body = [_SplitCondAssign().visit(st) for st in f2.body]
    ast.fix_missing_locations(f2)
    return f2


class ResRow:
    def __init__(self) -> None:
        self.init: T.List[T.Tuple[T.FrozenSet[str], bool]] = []   # constraints on the result the function starts with
        self.conds: T.Dict[Atom, bool] = {}                          # other canonical atoms
        self.final: T.Optional[str] = None                           # member assigned last (None: unchanged)
        self.calls: T.List[str] = []
        self.writes: T.List[str] = []                                # other `self.x := value` effects
        self.outcome = 'fall'

    def describe(self) -> str:
        cs = [('' if v else 'not ') + f'res in {sorted(s)}' for s, v in self.init] + [('' if v else 'not ') + repr(a) for a, v in self.conds.items()]
        return (' & '.join(cs) or 'always') + f' => res := {self.final or "<unchanged>"}'


def _res_rows(ctx: RuleCtx, mod: Module, fn: T.Any, qn: str) -> T.List[ResRow]:
    """Decision table of a method over the typestate of `self.res`: along each enumerated path the last constant
    assigned to self.res is propagated into later tests of self.res (a test contradicted by it prunes the path);
    tests met before any assignment constrain the incoming member."""
    cls = qn.split('.')[0]

    def expand(stmts: T.List[ast.stmt]) -> T.List[ast.stmt]:
        """`self.res = self.helper()` -> the helper's statements with `return E` as `self.res = E` (one level of call following)."""
        out: T.List[ast.stmt] = []
        for st in stmts:
            if isinstance(st, ast.Assign) and len(st.targets) == 1 and attr_chain(st.targets[0]) == RES:
                g = _self_method_call(ctx, mod, cls, st.value)
                if g is not None:
                    if any(isinstance(n, ast.Attribute) and isinstance(n.ctx, (ast.Store, ast.Del)) for n in ast.walk(g)):
                        raise Undecided(f'{qn}: the helper {g.name} changes object state')
                    out.extend(expand(_inline_call(g, T.cast(ast.Call, st.value), lambda: ast.Attribute(value=ast.Name(id='self', ctx=ast.Load()), attr='res', ctx=ast.Store()), qn, True)))
                    continue
                lk = _lookup_to_chain(ctx, mod, cls, st)
                if lk is not None:
                    out.extend(lk)
                    continue
                v_ = st.value
                if attr_chain(v_) == RES:
                    continue    # `self.res = self.res`: nothing changes
                if isinstance(v_, ast.Call) and not v_.args and not v_.keywords and isinstance(v_.func, ast.Attribute) and attr_chain(v_.func.value) == RES \
                        and mod.has_func(f'TestResult.{v_.func.attr}') and not decorator_names(mod.func(f'TestResult.{v_.func.attr}')):
                    # a method of the enum applied to the current result: its body with `self` standing for self.res
                    em = _propagated(mod.func(f'TestResult.{v_.func.attr}'))
                    if any(isinstance(n, ast.Name) and n.id == 'self' and isinstance(n.ctx, ast.Store) for n in ast.walk(em)):
                        raise Undecided(f'{qn}: TestResult.{em.name} rebinds self')
                    sub_ = tables._Subst({'self': ast.Attribute(value=ast.Name(id='self', ctx=ast.Load()), attr='res', ctx=ast.Load())})
                    inl = _ret2assign([sub_.visit(x) for x in em.body], lambda: ast.Attribute(value=ast.Name(id='self', ctx=ast.Load()), attr='res', ctx=ast.Store()), qn)
                    for x in inl:
                        ast.fix_missing_locations(x)
                    out.extend(expand(inl))
                    continue
            for field in ('body', 'orelse'):
                sub = getattr(st, field, None)
                if isinstance(st, ast.If) and isinstance(sub, list):
                    setattr(st, field, expand(sub))
            out.append(st)
        return out
    nf = _propagated(_inline_helpers(ctx, mod, cls, fn, qn, keep={'complete', '_complete'}))   # normal form: small helpers inlined, locals propagated
    for c in walk_no_nested(nf):   # closed world: a remaining call of a method that can change self.res is not understood
        if isinstance(c, ast.Call) and isinstance(c.func, ast.Attribute) and isinstance(c.func.value, ast.Name) and c.func.value.id == 'self' \
                and c.func.attr not in ('complete', '_complete'):
            r_ = ctx.repo.find_method(mod, mod.cls(cls), c.func.attr)
            if r_ is not None and any(isinstance(n, ast.Attribute) and isinstance(n.ctx, ast.Store) and attr_chain(n) == RES for n in ast.walk(r_[2])) \
                    and _self_method_call(ctx, mod, cls, c) is None:
                raise Undecided(f'{qn}: {short(c)} can change self.res and was not inlined')
    body = [_SplitCondAssign().visit(st) for st in expand(nf.body)]
    for st in body:
        ast.fix_missing_locations(st)
    rows: T.List[ResRow] = []
    # locals that carry the result (working copy of self.res, stored back later): `n = self.res`, `self.res = n`, `n2 = n`.
    # Their typestate is tracked like that of self.res itself: None = the incoming member, otherwise the member assigned last.
    carriers: T.Set[str] = set()
    assigns = [st for st in ast.walk(ast.Module(body=body, type_ignores=[])) if isinstance(st, (ast.Assign, ast.AnnAssign)) and st.value is not None]
    grew = True
    while grew:
        grew = False
        for st in assigns:
            tg_ = st.targets if isinstance(st, ast.Assign) else [st.target]
            if len(tg_) != 1:
                continue
            t0, v0 = tg_[0], st.value
            if isinstance(t0, ast.Name) and t0.id not in carriers and (attr_chain(v0) == RES or (isinstance(v0, ast.Name) and v0.id in carriers)):
                carriers.add(t0.id)
                grew = True
            if isinstance(v0, ast.Name) and v0.id not in carriers and (attr_chain(t0) == RES or (isinstance(t0, ast.Name) and t0.id in carriers)):
                carriers.add(v0.id)
                grew = True
    UNDEF = '<undefined>'
    for p in enumerate_paths(body):
        row = ResRow()
        cur: T.Optional[str] = None
        loc: T.Dict[str, T.Optional[str]] = {}
        feasible = True
        for ev in p.events:
            if ev.kind == 'cond':
                a, v = tables.canon(ev.node, ev.val)
                pred = _res_pred(ctx, mod, a, RES, cls)
                state = cur
                if pred is None:
                    for n_ in sorted(carriers):
                        pred = _res_pred(ctx, mod, a, n_, cls)
                        if pred is not None:
                            if loc.get(n_, UNDEF) == UNDEF:
                                raise Undecided(f'{qn}: the local {n_} is tested before it holds the result: {short(ev.node)}')
                            state = loc[n_]
                            break
                if pred is not None:
                    if state is None:
                        row.init.append((frozenset(pred), v))
                    elif (state in pred) != v:
                        feasible = False
                        break
                    continue
                if RES in chains_in(ev.node) or (carriers & names_in(ev.node)):
                    raise Undecided(f'{qn}: unknown test of self.res: {short(ev.node)}')
                if a in row.conds and row.conds[a] != v:
                    feasible = False
                    break
                row.conds[a] = v
            elif ev.kind == 'stmt' and ev.node is not None:
                st = ev.node
                tgts = st.targets if isinstance(st, ast.Assign) else [st.target] if isinstance(st, (ast.AugAssign, ast.AnnAssign)) else []
                for t in tgts:
                    ch = attr_chain(t)
                    if ch == RES or (isinstance(t, ast.Name) and t.id in carriers):
                        val = st.value if isinstance(st, (ast.Assign, ast.AnnAssign)) else None
                        if isinstance(st, ast.AnnAssign) and val is None:
                            continue    # a bare annotation binds nothing
                        if val is not None and len(tgts) != 1:
                            val = None
                        m = _member_name(norm(val)) if val is not None else None
                        if m is None and val is not None and attr_chain(val) == RES:
                            new_state: T.Optional[str] = cur
                        elif m is None and isinstance(val, ast.Name) and val.id in carriers:
                            if loc.get(val.id, UNDEF) == UNDEF:
                                raise Undecided(f'{qn}: the local {val.id} is read before it holds the result: {short(st)}')
                            new_state = loc[val.id]
                        elif m is None:
                            raise Undecided(f'{qn}: self.res is assigned a non-constant: {short(st)}')
                        else:
                            new_state = m
                        if ch == RES:
                            cur = new_state
                            row.final = new_state
                        else:
                            loc[t.id] = new_state   # type: ignore[union-attr]
                    elif ch and ch.startswith('self.') and isinstance(st, ast.Assign):
                        row.writes.append(f'{ch} := {norm(st.value)}')
                for c in walk_no_nested(st):
                    if isinstance(c, ast.Call):
                        row.calls.append(norm(c.func))
        if feasible:
            row.outcome = p.outcome
            rows.append(row)
    return rows


def _fire(rows: T.List[ResRow], member: str, truth: T.Callable[[Atom], T.Optional[bool]]) -> T.List[ResRow]:
    out = []
    for r in rows:
        if any((member in s) != v for s, v in r.init):
            continue
        ok = True
        for a, v in r.conds.items():
            t = truth(a)
            if t is not None and t != v:
                ok = False
                break
        if ok:
            out.append(r)
    return out


def _rc_truth(ctx: RuleCtx, mod: Module, qn: str, a: Atom, rcconst: T.Optional[int], eq_expected: bool) -> T.Optional[bool]:
    """Truth of an atom about self.returncode in the world (returncode equals the documented constant rcconst or none of
    them; returncode equals the expected status or not).  None: the atom is about something else."""
    if a.kind != 'cmp' or 'self.returncode' not in a.args[1:]:
        if 'self.returncode' in repr(a):
            raise Undecided(f'{qn}: unknown test of the exit status: {a!r}')
        return None
    if a.args[0] != 'eq':
        raise Undecided(f'{qn}: the exit status is ordered, not compared for equality: {a!r}')
    other = a.args[2] if a.args[1] == 'self.returncode' else a.args[1]
    node = ast.parse(other, mode='eval').body
    if isinstance(node, ast.BoolOp) and isinstance(node.op, ast.Or) and len(node.values) == 2 and (attr_chain(node.values[0]) or '').endswith('.expected_exitcode') \
            and isinstance(node.values[1], ast.Constant) and node.values[1].value == 0:
        return eq_expected
    try:
        c = fold_expr(ctx.repo, mod, node)
    except Undecided:
        c = None
    if isinstance(c, int) and not isinstance(c, bool):
        if c not in (0, SKIP_RC, ERROR_RC):
            raise Undecided(f'{qn}: the exit status is compared with {c}; the documented constants are 0/{SKIP_RC}/{ERROR_RC}')
        return rcconst == c
    raise Undecided(f'{qn}: the exit status is compared with {other}')


def _check_res_table(ctx: RuleCtx, mod: Module, qn: str, fn: T.Any, kind: str, members: T.List[str]) -> None:
    rows = _res_rows(ctx, mod, fn, qn)
    n = 0
    mism: T.Dict[str, str] = {}
    free = {'parse': Atom('truth', ('self.needs_parsing',)), 'xfail': Atom('truth', ('self.expected_fail',))}
    inter_atoms = [a for r in rows for a in r.conds if a.kind in ('is', 'cmp') and 'ConsoleUser.INTERACTIVE' in a.args and 'self.console_mode' in a.args]
    for m in members:
        for rcconst, eqe, parse, inter, xfail in itertools.product((0, SKIP_RC, ERROR_RC, None), (False, True), (False, True), (False, True), (False, True)):
            if kind in ('exitcode', 'tap') and (parse or inter):
                continue   # these tables do not look at the console
            if kind in ('base', 'skip') and (rcconst is not None or eqe):
                continue   # ... and the base table does not look at the exit status
            if kind == 'tap' and eqe:
                continue
            if kind == 'base' and parse and inter:
                continue   # interactive + parsed protocol: IGNORED by design, outside the documented table

            def truth(a: Atom) -> T.Optional[bool]:
                if a == free['parse']:
                    return parse
                if a == free['xfail']:
                    return xfail
                if a in inter_atoms:
                    return inter
                return _rc_truth(ctx, mod, qn, a, rcconst, eqe)
            if kind in ('exitcode', 'tap') and xfail:
                continue
            fired = _fire(rows, m, truth)
            finals = {('<raises>' if r.outcome == 'raise' else r.final) for r in fired}
            if not fired:
                raise Undecided(f'{qn}: no row for an incoming {m}')
            if len(finals) != 1:
                raise Undecided(f'{qn}: the result for an incoming {m} depends on conditions outside the reference: {[r.describe() for r in fired][:3]}')
            got = next(iter(finals)) or m
            n += 1
            if kind == 'exitcode':
                want = m if m != 'RUNNING' else 'OK' if eqe else 'SKIP' if rcconst == SKIP_RC else 'ERROR' if rcconst == ERROR_RC else 'FAIL'
                wit = f'incoming result {m}, exit status ' + ('= expected status' if eqe else 'differs from the expected status') + \
                    (f' and is {rcconst}' if rcconst is not None else ' and is none of 0/77/99')
            elif kind == 'tap':
                want = 'ERROR' if rcconst != 0 and m not in BAD else m
                wit = f'incoming result {m}, exit status ' + ('0' if rcconst == 0 else 'non-zero')
            elif kind == 'skip':
                want = 'SKIP'
                wit = f'incoming result {m}'
            else:
                base = 'OK' if m == 'RUNNING' else m
                want = ('UNEXPECTEDPASS' if base == 'OK' else 'EXPECTEDFAIL' if base == 'FAIL' else base) if xfail else base
                wit = f'incoming result {m}, should_fail={xfail}, parsed protocol={parse}, interactive={inter}'
            if got != want:
                mism.setdefault(f'{want} expected, {got} computed', wit)
    for k, wit in mism.items():
        ctx.violation(mod, qn, f'{kind} classification table: {k}', f'{qn}: for {wit} the result becomes {k.split(", ")[1].split(" ")[0]}; documented rule: {k.split(" ")[0]}', fn)
    if not mism:
        ctx.ok(f'{qn}: {kind} table ({len(rows)} rows) equals the documented rule in {n} worlds (members of TestResult x atoms)')


def _protocol_classes(mod: Module) -> T.Dict[str, str]:
    out: T.Dict[str, str] = {}
    for st in mod.tree.body:
        if isinstance(st, ast.Assign) and len(st.targets) == 1 and isinstance(st.targets[0], ast.Subscript) \
                and (attr_chain(st.targets[0].value) or '').endswith('PROTOCOL_TO_CLASS') and isinstance(st.value, ast.Name):
            key = attr_chain(st.targets[0].slice) or ''
            out[key.split('.')[-1]] = st.value.id
    displays: T.List[ast.Dict] = []
    for st in ast.walk(mod.tree):
        if isinstance(st, (ast.Assign, ast.AnnAssign)) and st.value is not None and isinstance(st.value, ast.Dict):
            tg = st.targets[0] if isinstance(st, ast.Assign) else st.target
            if (attr_chain(tg) or '').endswith('PROTOCOL_TO_CLASS'):
                displays.append(st.value)
        elif isinstance(st, ast.Call) and isinstance(st.func, ast.Attribute) and st.func.attr == 'update' and (attr_chain(st.func.value) or '').endswith('PROTOCOL_TO_CLASS') \
                and len(st.args) == 1 and isinstance(st.args[0], ast.Dict):
            displays.append(st.args[0])
    for d in displays:
        for k, v in zip(d.keys, d.values):
            if k is not None and attr_chain(k) and isinstance(v, ast.Name):
                out[T.cast(str, attr_chain(k)).split('.')[-1]] = v.id
    # registrar functions: a module-level function whose body (or the body of the one closure it returns) stores
    # `..PROTOCOL_TO_CLASS[<key parameter>] = <class parameter>` unconditionally.  Uses read: `f(K, C)` / `f(K)(C)` as module
    # statements, `@f(K)` (factory) on a class.
    def is_table_store(st: ast.stmt) -> T.Optional[T.Tuple[str, str]]:
        if isinstance(st, ast.Assign) and len(st.targets) == 1 and isinstance(st.targets[0], ast.Subscript) \
                and (attr_chain(st.targets[0].value) or '').endswith('PROTOCOL_TO_CLASS') \
                and isinstance(st.targets[0].slice, ast.Name) and isinstance(st.value, ast.Name):
            return st.targets[0].slice.id, st.value.id
        return None

    def plain_params(f: T.Any) -> T.Optional[T.List[str]]:
        a = f.args
        if a.vararg or a.kwarg or a.kwonlyargs or a.defaults or f.decorator_list:
            return None
        return [x.arg for x in a.posonlyargs + a.args]
    direct: T.Dict[str, T.Tuple[int, int]] = {}     # f(K, C): indexes of key / class parameter
    factory: T.Dict[str, int] = {}                  # f(..K..)(C): index of the key parameter
    for f in mod.tree.body:
        if not isinstance(f, ast.FunctionDef):
            continue
        ps = plain_params(f)
        if ps is None:
            continue
        for st in f.body:
            kv = is_table_store(st)
            if kv and kv[0] in ps and kv[1] in ps and kv[0] != kv[1]:
                direct[f.name] = (ps.index(kv[0]), ps.index(kv[1]))
        inner = [g for g in f.body if isinstance(g, ast.FunctionDef)]
        rets = [r for r in ast.walk(f) if isinstance(r, ast.Return) and not any(r in ast.walk(g) for g in inner)]
        if len(inner) == 1 and len(rets) == 1 and rets[0] is f.body[-1] and isinstance(rets[0].value, ast.Name) and rets[0].value.id == inner[0].name:
            g = inner[0]
            gps = plain_params(g)
            stored = {n.id for n in ast.walk(f) if isinstance(n, ast.Name) and isinstance(n.ctx, (ast.Store, ast.Del))}
            for st in g.body:
                kv = is_table_store(st)
                if kv and gps is not None and len(gps) == 1 and kv[1] == gps[0] and kv[0] in ps and kv[0] not in gps and not (stored & {kv[0], kv[1]}):
                    factory[f.name] = ps.index(kv[0])

    def key_of(e: ast.AST) -> T.Optional[str]:
        ch = attr_chain(e)
        return ch.split('.')[-1] if ch and '.' in ch else None

    def factory_key(c: ast.AST) -> T.Optional[str]:
        if isinstance(c, ast.Call) and isinstance(c.func, ast.Name) and c.func.id in factory and not c.keywords \
                and not any(isinstance(a, ast.Starred) for a in c.args) and len(c.args) > factory[c.func.id]:
            return key_of(c.args[factory[c.func.id]])
        return None
    for st in mod.tree.body:
        if isinstance(st, ast.ClassDef):
            for dec in st.decorator_list:
                k = factory_key(dec)
                if k:
                    out[k] = st.name
        elif isinstance(st, ast.Expr) and isinstance(st.value, ast.Call) and not st.value.keywords:
            c = st.value
            if isinstance(c.func, ast.Name) and c.func.id in direct and len(c.args) > max(direct[c.func.id]):
                k = key_of(c.args[direct[c.func.id][0]])
                v = c.args[direct[c.func.id][1]]
                if k and isinstance(v, ast.Name):
                    out[k] = v.id
            elif len(c.args) == 1 and isinstance(c.args[0], ast.Name):
                k = factory_key(c.func)
                if k:
                    out[k] = c.args[0].id
    # closed world: every store into the table must have been read by one of the forms above
    read_fns = set(direct) | set(factory)
    seen = {id(n) for f in mod.tree.body if isinstance(f, ast.FunctionDef) and f.name in read_fns for n in ast.walk(f)}
    for f in ast.walk(mod.tree):
        if isinstance(f, (ast.FunctionDef, ast.AsyncFunctionDef, ast.ClassDef)):
            for n in ast.walk(f):
                if id(n) not in seen and isinstance(n, ast.Subscript) and isinstance(n.ctx, ast.Store) and (attr_chain(n.value) or '').endswith('PROTOCOL_TO_CLASS'):
                    raise Undecided(f'{f.name}: PROTOCOL_TO_CLASS is filled by {short(n)} inside a function or class body; this registration idiom is not read')
    return out


def _writes_res(fn: T.Any) -> bool:
    return any(isinstance(n, ast.Attribute) and isinstance(n.ctx, ast.Store) and attr_chain(n) == RES for n in walk_no_nested(fn))


def _delegates(ctx: RuleCtx, mod: Module, qn: str, fn: T.Any, callee: str) -> None:
    """Every normal path of fn passes the call `callee()`, and self.res is not written after it."""
    cfg = CFG(fn)
    meth = callee.split('.')[-1]

    def is_delegate(c: ast.Call) -> bool:
        f = c.func
        if not (isinstance(f, ast.Attribute) and f.attr == meth):
            return False
        if callee.startswith('super()'):
            if isinstance(f.value, ast.Call) and isinstance(f.value.func, ast.Name) and f.value.func.id == 'super':
                return True
        elif isinstance(f.value, ast.Name) and f.value.id == 'self':
            return True
        # Class.meth(self, ...) spelling
        return isinstance(f.value, ast.Name) and mod.has_cls(f.value.id) and bool(c.args) and isinstance(c.args[0], ast.Name) and c.args[0].id == 'self'
    calls = cfg.nodes_with_call(is_delegate)
    ok = bool(calls) and cfg.dominated_by_any(cfg.exit_return, calls)
    if not ok:
        others = [c for c in walk_no_nested(fn) if isinstance(c, ast.Call) and not is_delegate(c) and isinstance(c.func, ast.Attribute) and (
            (isinstance(c.func.value, ast.Name) and (c.func.value.id == 'self' or mod.has_cls(c.func.value.id)) and any(mod.has_func(f'{k}.{c.func.attr}') for k in mod.classes()))
            or (isinstance(c.func.value, ast.Call) and isinstance(c.func.value.func, ast.Name) and c.func.value.func.id == 'super'))]
        def may_delegate(c: ast.Call) -> bool:
            owner = qn.split('.')[0] if not (isinstance(c.func.value, ast.Name) and mod.has_cls(c.func.value.id)) else c.func.value.id   # type: ignore[union-attr]
            r_ = ctx.repo.find_method(mod, mod.cls(owner), c.func.attr) if mod.has_cls(owner) else None   # type: ignore[union-attr]
            if r_ is None:
                return True
            return any(isinstance(x, ast.Call) and isinstance(x.func, ast.Attribute) and x.func.attr == meth for x in ast.walk(r_[2]))
        others = [c for c in others if may_delegate(c)]
        if others:
            raise Undecided(f'{qn}: {short(others[0])} may reach {callee}(); this rule does not follow it')
    ctx.require(ok, f'{qn}: every path to the return passes {callee}()', mod, qn, f'{callee}() on every path',
                f'{qn} can return without calling {callee}(): the rest of the classification (should_fail inversion) is skipped', fn)
    writes = [n for n in cfg.nodes if n.kind == 'stmt' and any(isinstance(x, ast.Attribute) and isinstance(x.ctx, ast.Store) and attr_chain(x) == RES for x in walk_no_nested(n.ast))]
    late = [w for w in writes if any(cfg.can_reach(c, w) for c in calls)]
    ctx.require(not late, f'{qn}: self.res is not written after {callee}()', mod, qn, f'write of self.res after {callee}()',
                f'{qn} overwrites self.res after {callee}() has applied the should_fail inversion', late[0].ast if late else fn)


def r3a(ctx: RuleCtx) -> None:
    mod = _module(ctx, MTEST)
    protos = _protocol_classes(mod)
    ctx.floor('protocol classes registered in PROTOCOL_TO_CLASS', len(protos), 4)
    members = _enum_names(mod, 'TestResult')
    unknown = set(protos) - set(KIND)
    if unknown:
        raise Undecided(f'protocols without a reference classification rule: {sorted(unknown)}')
    need = {'PENDING', 'RUNNING', 'OK', 'TIMEOUT', 'INTERRUPT', 'SKIP', 'FAIL', 'EXPECTEDFAIL', 'UNEXPECTEDPASS', 'ERROR'}
    if not need <= set(members):
        raise AnchorMissing(f'TestResult lacks members {sorted(need - set(members))}')
    skip_c, err_c = fold_const(ctx.repo, mod, 'GNU_SKIP_RETURNCODE'), fold_const(ctx.repo, mod, 'GNU_ERROR_RETURNCODE')
    ctx.require((skip_c, err_c) == (SKIP_RC, ERROR_RC), 'GNU_SKIP_RETURNCODE/GNU_ERROR_RETURNCODE fold to 77/99', mod, '<module>', 'GNU_SKIP_RETURNCODE, GNU_ERROR_RETURNCODE',
                f'the skip / hard-error exit statuses are {skip_c!r}/{err_c!r}; documented: 77/99')
    states = [m for m in members if m != 'PENDING']
    done: T.Set[int] = set()
    base_q = 'TestRun.complete'
    for proto, cls in sorted(protos.items()):
        # the chain of `complete` definitions from the protocol class up to TestRun.complete
        chain: T.List[T.Tuple[str, T.Any]] = []
        for m_, c_ in ctx.repo.mro(mod, mod.cls(cls)):
            for st in c_.body:
                if isinstance(st, ast.FunctionDef) and st.name == 'complete':
                    chain.append((f'{c_.name}.complete', st))
        if not chain or chain[-1][0] != base_q:
            raise Undecided(f'{cls}: complete() does not resolve to {base_q}')
        kinds = ['pass' if not _writes_res(f) else '?' for _, f in chain[:-1]]
        want_kinds = KIND[proto]
        shape_ok = len(kinds) == len(want_kinds) and all(k == 'pass' if w == 'pass' else k == '?' for k, w in zip(kinds, want_kinds))
        if not shape_ok:
            raise Undecided(f'protocol {proto}: the complete() chain {[q for q, _ in chain]} has another shape than the reference {want_kinds}')
        ctx.ok(f'protocol {proto}: {cls} classifies through {[q for q, _ in chain]}')
        for (q, f), k in zip(chain[:-1], want_kinds):
            if id(f) in done:
                continue
            done.add(id(f))
            _delegates(ctx, mod, q, f, 'super().complete')
            if k != 'pass':
                _check_res_table(ctx, mod, q, f, k, states)
    _delegates(ctx, mod, base_q, mod.func(base_q), 'self._complete')
    _check_res_table(ctx, mod, 'TestRun._complete', mod.func('TestRun._complete'), 'base', states)
    # needs_parsing is a constant property per protocol class: exit-code protocols are never "parsed"
    for proto, cls in sorted(protos.items()):
        r = ctx.repo.find_method(mod, mod.cls(cls), 'needs_parsing')
        rets = [x for x in walk_no_nested(r[2]) if isinstance(x, ast.Return)] if r else []
        if not r or len(rets) != 1 or not isinstance(rets[0].value, ast.Constant) or not isinstance(rets[0].value.value, bool):
            raise Undecided(f'{cls}.needs_parsing is not a constant property')
        want = KIND[proto] != ['exitcode'] and KIND[proto] != ['pass', 'exitcode']
        ctx.require(rets[0].value.value == want, f'{cls}.needs_parsing is {want}', mod, f'{cls}.needs_parsing', f'needs_parsing of {proto}',
                    f'{cls}.needs_parsing is {rets[0].value.value}: ' + ('an interactive exit-code test would be reported IGNORED' if not want else 'the output of the protocol is not parsed'), r[2])
    # complete_skip: SKIP with the skip status, then the base table
    sq = 'TestRun.complete_skip'
    sf = mod.func(sq)
    _delegates(ctx, mod, sq, sf, 'self._complete')
    _check_res_table(ctx, mod, sq, sf, 'skip', states + ['PENDING'])


# ---------------------------------------------------------------------------
# R3b: timeout table
# ---------------------------------------------------------------------------

ROUNDERS = ('int', 'round', 'math.floor', 'math.ceil', 'math.trunc')


def _float_option(mod: Module, flag: str) -> bool:
    """The command-line option `flag` is declared with type=float (argparse table of the module)."""
    decls = [c for c in ast.walk(mod.tree) if isinstance(c, ast.Call) and call_method(c) == 'add_argument'
             and any(isinstance(a, ast.Constant) and a.value == flag for a in c.args)]
    return len(decls) == 1 and isinstance(kwarg(decls[0], 'type'), ast.Name) and T.cast(ast.Name, kwarg(decls[0], 'type')).id == 'float'


def r3b(ctx: RuleCtx) -> None:
    mod = _module(ctx, MTEST)
    init, expr, cls = _testrun_arg(mod, 'timeout')
    roles = _init_roles(mod, 'SingleTestRunner')
    e1 = _inline_locals(init, expr, calls=set(mod.methods('SingleTestRunner')))
    helper = _self_method_call(ctx, mod, 'SingleTestRunner', e1)
    rmap = lambda e: norm(_Roles(roles).visit(tables._copy(e)))   # noqa: E731

    def eff(st: ast.AST) -> T.Optional[str]:
        if isinstance(st, (ast.Assign, ast.AnnAssign)) and st.value is not None:
            tg = st.targets[0] if isinstance(st, ast.Assign) and len(st.targets) == 1 else st.target if isinstance(st, ast.AnnAssign) else None
            if isinstance(tg, ast.Name):
                return f'{tg.id} := {rmap(st.value)}'
        return None
    if helper is not None:
        # the table lives in a helper method: its rows end in `return <local>` or `return <expression>`
        where = f'SingleTestRunner.{helper.name}'
        tab = tables.extract(_split_conditional_values(_propagated(helper)), effects=eff, name=where)
        var = None
    else:
        if not isinstance(expr, ast.Name):
            raise Undecided(f'SingleTestRunner.__init__: the timeout argument is not a local variable: {short(expr)}')
        where = 'SingleTestRunner.__init__'
        var = expr.id
        init_p = _split_conditional_values(_propagated(init))   # normal form: locals substituted back, conditional values as if/else
        stmts = _slice_for(init_p, {var})
        if not stmts:
            raise Undecided(f'SingleTestRunner.__init__: {var} is never assigned')
        tab = tables.extract(init_p, body=stmts, effects=eff, name='SingleTestRunner.__init__:timeout')

    def got_of(r: tables.Row) -> str:
        name = var
        if var is None:
            if r.outcome[0] != 'return':
                raise Undecided(f'{where}: a path does not return')
            txt = r.outcome[1]
            if not txt.isidentifier() or txt in ('None', 'True', 'False'):
                return rmap(ast.parse(txt, mode='eval').body)
            name = txt
        vals = [e.split(' := ', 1)[1] for e in r.effects if e.startswith(f'{name} := ')]
        return vals[-1] if vals else '<unset>'
    TO, MU = 'test.timeout', 'options.timeout_multiplier'
    n = 0
    no_outcome: T.List[str] = []
    mism: T.Dict[str, str] = {}
    holds = {'gt': ('pos',), 'le': ('neg', 'zero'), 'lt': ('neg',), 'ge': ('zero', 'pos')}   # ordering fact vs 0 -> sign classes
    for inter, to_s, mu_s in itertools.product((False, True), ('none', 'neg', 'zero', 'pos'), ('none', 'neg', 'zero', 'pos')):
        fired = []
        for r in tab.rows:
            ok = True
            for a, v in r.conds.items():
                if a.kind == 'truth' and _role_chain(a.args[0], roles) == 'options.interactive':
                    t = inter
                elif a.kind == 'is' and a.args[1] == 'None' and _role_chain(a.args[0], roles) in (TO, MU):
                    t = (to_s if _role_chain(a.args[0], roles) == TO else mu_s) == 'none'
                elif a.kind == 'truth' and _role_chain(a.args[0], roles) in (TO, MU):
                    t = (to_s if _role_chain(a.args[0], roles) == TO else mu_s) in ('neg', 'pos')   # truthiness of None / a number
                elif a.kind == 'cmp' and a.args[0] == 'eq' and '0' in a.args[1:] and any(_role_chain(x, roles) in (TO, MU) for x in a.args[1:]):
                    ch_ = [_role_chain(x, roles) for x in a.args[1:] if _role_chain(x, roles) in (TO, MU)][0]
                    t = (to_s if ch_ == TO else mu_s) == 'zero'
                else:
                    t = None
                    for ch, st_ in ((TO, to_s), (MU, mu_s)):
                        f = _lt_const(a, v, ch, roles)   # the ordering fact this row assumes
                        if f is None:
                            continue
                        if f[1] != 0:
                            raise Undecided(f'SingleTestRunner.__init__: {ch} is compared with {f[1]}; the documented threshold is 0')
                        # an ordering test of None raises TypeError: such a row is not a normal outcome of this world
                        t = v if st_ in holds[f[0]] else (not v)
                    if t is None:
                        raise Undecided(f'SingleTestRunner.__init__: the timeout depends on {a!r}')
                if t != v:
                    ok = False
                    break
            if ok:
                fired.append(r)
        want = 'None' if inter or to_s != 'pos' else TO if mu_s == 'none' else 'None' if mu_s != 'pos' else 'product'
        world = f'interactive={inter}, declared timeout {to_s}, multiplier {mu_s} (sign class relative to 0)'
        outs = set()
        for r in fired:
            g = got_of(r)
            if g != '<unset>':
                # symbolic outcome: float(X) is X; a whole-number coercion of the product is not the product when the multiplier is declared
                # as a float option (the limit of a test with a fractional multiplier is cut short / stretched): named outcome, compared below
                ge = ast.parse(g, mode='eval').body
                while isinstance(ge, ast.Call) and call_name(ge) == 'float' and len(ge.args) == 1 and not ge.keywords:
                    ge = ge.args[0]
                g = norm(ge)
                if isinstance(ge, ast.Call) and call_name(ge) in ROUNDERS and len(ge.args) == 1 and not ge.keywords \
                        and norm(ge.args[0]) in (f'{TO} * {MU}', f'{MU} * {TO}') and _float_option(mod, '--timeout-multiplier'):
                    g = f'product coerced to a whole number by {call_name(ge)}()'
            if g != '<unset>' and not g.startswith('product coerced') and any(isinstance(n, ast.Call) for n in ast.walk(ast.parse(g, mode='eval'))):
                raise Undecided(f'{where}: the timeout is computed by {g}, which this rule cannot see into')
            if g in (f'{TO} * {MU}', f'{MU} * {TO}'):
                g = 'product'
            outs.add(g)
        n += 1
        if not fired:
            no_outcome.append(world)
        elif len(outs) != 1:
            raise Undecided(f'SingleTestRunner.__init__: several rows fire for {world}: {sorted(outs)}')
        elif outs != {want}:
            got_ = next(iter(outs))
            understood = got_ in ('None', '<unset>', TO, MU, 'product') or got_.startswith('product coerced') or (all(isinstance(n, (ast.Expression, ast.BinOp, ast.operator, ast.Attribute, ast.Name, ast.Load, ast.Constant, ast.UnaryOp, ast.unaryop, ast.BoolOp, ast.boolop, ast.Compare, ast.cmpop))
                                                                                 for n in ast.walk(ast.parse(got_, mode='eval')))
                                                                             and names_in(ast.parse(got_, mode='eval')) <= {'test', 'options'})
            if not understood:
                raise Undecided(f'{where}: the timeout is `{got_}`, a shape this rule does not understand')
            mism.setdefault(f'{next(iter(outs))} instead of {want}', world)
    for k, wit in mism.items():
        ctx.violation(mod, 'SingleTestRunner.__init__', f'timeout table: {k}', f'effective timeout for {wit} is {k} (documented: no timeout when interactive, undeclared, '
                      f'<= 0 or multiplier <= 0; declared value without multiplier; product otherwise)', expr)
    if not mism and no_outcome:
        raise Undecided(f'{where}: no row of the table covers {no_outcome[0]}')
    if not mism:
        ctx.ok(f'timeout table of {where} ({len(tab.rows)} rows, value passed to {cls}) equals the reference in {n} worlds of its atoms')


# ---------------------------------------------------------------------------
# R3c: serialisation order and scheduling fields
# ---------------------------------------------------------------------------

def _coef(e: ast.AST, param: str) -> T.Optional[T.Tuple[float, bool]]:
    """Sort key as c * <param>.priority + const: (c, uses_priority); constants of the source are folded, nothing else."""
    if isinstance(e, ast.Constant) and isinstance(e.value, (int, float)) and not isinstance(e.value, bool):
        return (float(e.value), False)
    if isinstance(e, ast.Attribute) and isinstance(e.value, ast.Name) and e.value.id == param:
        return (1.0, True) if e.attr == 'priority' else None
    if isinstance(e, ast.UnaryOp) and isinstance(e.op, (ast.USub, ast.UAdd)):
        r = _coef(e.operand, param)
        if r is None:
            return None
        return (-r[0] if isinstance(e.op, ast.USub) else r[0], r[1])
    if isinstance(e, ast.BinOp) and isinstance(e.op, ast.Mult):
        l, r = _coef(e.left, param), _coef(e.right, param)
        if l is None or r is None or (l[1] and r[1]):
            return None
        return (l[0] * r[0], l[1] or r[1])
    if isinstance(e, ast.BinOp) and isinstance(e.op, (ast.Add, ast.Sub)):
        l, r = _coef(e.left, param), _coef(e.right, param)
        if l is None or r is None or (l[1] and r[1]):
            return None
        if l[1]:
            return l
        if r[1]:
            return (-r[0] if isinstance(e.op, ast.Sub) else r[0], True)
        return None
    return None


def _sort_direction(mod: Module, fn: T.Any, fq: str, call: ast.Call) -> str:
    """Direction by priority of one `sorted(..., key=, reverse=)` / `.sort(key=, reverse=)` call: 'ascending' | 'descending'."""
    extra = [k.arg for k in call.keywords if k.arg not in ('key', 'reverse')]
    if extra:
        raise Undecided(f'{fq}: unknown sort arguments {extra}')
    key = next((k.value for k in call.keywords if k.arg == 'key'), None)
    rev = next((k.value for k in call.keywords if k.arg == 'reverse'), None)
    if rev is not None and not isinstance(rev, ast.Constant):
        raise Undecided(f'{fq}: reverse= is not a constant')
    reverse = bool(rev.value) if rev is not None else False   # type: ignore[union-attr]
    if isinstance(key, ast.Name) and not mod.has_func(key.id):
        # the key bound to a local first: a single definition by a lambda
        kd = [st for st in walk_no_nested(fn) if isinstance(st, (ast.Assign, ast.AnnAssign)) and st.value is not None
              and any(isinstance(n, ast.Name) and n.id == key.id and isinstance(n.ctx, ast.Store) for t_ in (st.targets if isinstance(st, ast.Assign) else [st.target]) for n in ast.walk(t_))]
        nst = sum(1 for n in walk_no_nested(fn) if isinstance(n, ast.Name) and n.id == key.id and isinstance(n.ctx, (ast.Store, ast.Del)))
        if len(kd) == 1 and nst == 1 and isinstance(kd[0].value, ast.Lambda) and kd[0] in fn.body:
            key = kd[0].value
    if isinstance(key, ast.Lambda) and len(key.args.args) == 1:
        cf = _coef(key.body, key.args.args[0].arg)
        if cf is None or not cf[1] or cf[0] == 0:
            raise Undecided(f'{fq}: sort key is not a linear function of .priority: {short(key)}')
        return 'descending' if (cf[0] < 0) != reverse else 'ascending'
    if isinstance(key, ast.Name) and (mod.has_func(key.id) or any(isinstance(n, ast.FunctionDef) and n.name == key.id for n in walk_no_nested(fn))):
        kf = mod.func(key.id) if mod.has_func(key.id) else [n for n in walk_no_nested(fn) if isinstance(n, ast.FunctionDef) and n.name == key.id][0]
        krets = [r for r in walk_no_nested(kf) if isinstance(r, ast.Return) and r.value is not None]
        if len(kf.args.args) != 1 or len(krets) != 1:
            raise Undecided(f'{fq}: sort key function {key.id} is not a single expression of its argument')
        cf = _coef(_inline_locals(kf, krets[0].value), kf.args.args[0].arg)
        if cf is None or not cf[1] or cf[0] == 0:
            raise Undecided(f'{fq}: sort key {key.id} is not a linear function of .priority')
        return 'descending' if (cf[0] < 0) != reverse else 'ascending'
    if isinstance(key, ast.Call) and (call_name(key) or '').split('.')[-1] == 'attrgetter' and len(key.args) == 1 and isinstance(key.args[0], ast.Constant):
        if key.args[0].value != 'priority':
            raise Undecided(f'{fq}: sorted by {key.args[0].value!r}')
        return 'descending' if reverse else 'ascending'
    if key is None:
        raise Undecided(f'{fq}: sort without key')
    raise Undecided(f'{fq}: unknown sort key {short(key)}')


_ORDER_NEUTRAL = ('len', 'list', 'tuple', 'sorted', 'reversed', 'iter', 'enumerate', 'bool', 'any', 'all', 'set', 'frozenset', 'isinstance')


def _order_ops(mod: Module, fn: T.Any, fq: str, e: ast.AST, p0: str, loop: ast.For, depth: int = 0) -> T.List[T.Tuple[str, ...]]:
    """The order operations applied to the parameter p0 before it is iterated (see r3c); anything else -> Undecided."""
    if depth > 6:
        raise Undecided(f'{fq}: iteration source nested too deeply')
    if isinstance(e, ast.Name):
        # closed world: the list is not handed to a callee that could reorder it in place (random.shuffle(x), helper(x))
        for c in walk_no_nested(fn):
            if isinstance(c, ast.Call) and call_name(c) not in _ORDER_NEUTRAL and any(
                    isinstance(a_, ast.Name) and a_.id == e.id for a in [*c.args, *(k.value for k in c.keywords)] for a_ in [a.value if isinstance(a, ast.Starred) else a]):
                raise Undecided(f'{fq}: the iterated list {e.id} is handed to {short(c)}, which this rule does not follow')
    if isinstance(e, ast.Name) and e.id == p0:
        if any(isinstance(n, ast.Name) and n.id == p0 and isinstance(n.ctx, (ast.Store, ast.Del)) for n in walk_no_nested(fn)) or any(
                isinstance(c, ast.Call) and isinstance(c.func, ast.Attribute) and isinstance(c.func.value, ast.Name) and c.func.value.id == p0
                and c.func.attr in ('sort', 'reverse') for c in walk_no_nested(fn)):
            raise Undecided(f'{fq}: the parameter {p0} is rebound or reordered in place')
        return []
    if isinstance(e, ast.Name):
        # a local: one definition at the top level of the function before the loop, then only in-place `x.sort(...)` / `x.reverse()`
        # statements (top level, between the definition and the loop); any other method call on it is not understood
        defs = [st for st in walk_no_nested(fn) if isinstance(st, (ast.Assign, ast.AnnAssign)) and st.value is not None
                and any(isinstance(n, ast.Name) and n.id == e.id and isinstance(n.ctx, ast.Store) for t_ in (st.targets if isinstance(st, ast.Assign) else [st.target]) for n in ast.walk(t_))]
        nst = sum(1 for n in walk_no_nested(fn) if isinstance(n, ast.Name) and n.id == e.id and isinstance(n.ctx, (ast.Store, ast.Del)))
        if len(defs) != 1 or nst != 1 or defs[0] not in fn.body or loop not in fn.body or fn.body.index(defs[0]) > fn.body.index(loop):
            raise Undecided(f'{fq}: unknown iteration {short(e)}')
        tg = defs[0].targets[0] if isinstance(defs[0], ast.Assign) and len(defs[0].targets) == 1 else defs[0].target if isinstance(defs[0], ast.AnnAssign) else None
        if not isinstance(tg, ast.Name):
            raise Undecided(f'{fq}: unknown iteration {short(e)}')
        ops = _order_ops(mod, fn, fq, defs[0].value, p0, loop, depth + 1)
        muts = [c for c in walk_no_nested(fn) if isinstance(c, ast.Call) and isinstance(c.func, ast.Attribute) and isinstance(c.func.value, ast.Name) and c.func.value.id == e.id]
        inplace: T.Dict[int, ast.Call] = {}
        for st in fn.body[fn.body.index(defs[0]) + 1:fn.body.index(loop)]:
            if isinstance(st, ast.Expr) and isinstance(st.value, ast.Call) and st.value in muts and st.value.func.attr in ('sort', 'reverse'):   # type: ignore[attr-defined]
                inplace[id(st.value)] = st.value
                c = st.value
                if c.func.attr == 'reverse':   # type: ignore[attr-defined]
                    if c.args or c.keywords:
                        raise Undecided(f'{fq}: unknown call {short(c)}')
                    ops.append(('reverse',))
                else:
                    if c.args:
                        raise Undecided(f'{fq}: unknown call {short(c)}')
                    ops.append(('sort', _sort_direction(mod, fn, fq, c)))
        rest = [c for c in muts if id(c) not in inplace and c.func.attr not in ('copy', 'index', 'count', '__len__')]   # type: ignore[attr-defined]
        if rest:
            raise Undecided(f'{fq}: the iterated list {e.id} is changed by {short(rest[0])}, which this rule does not read')
        return ops
    if isinstance(e, ast.Call) and call_name(e) == 'sorted' and len(e.args) == 1:
        return _order_ops(mod, fn, fq, e.args[0], p0, loop, depth + 1) + [('sort', _sort_direction(mod, fn, fq, e))]
    if isinstance(e, ast.Call) and call_name(e) in ('list', 'tuple', 'iter') and len(e.args) == 1 and not e.keywords:
        return _order_ops(mod, fn, fq, e.args[0], p0, loop, depth + 1)
    if isinstance(e, ast.Call) and call_name(e) == 'reversed' and len(e.args) == 1 and not e.keywords:
        return _order_ops(mod, fn, fq, e.args[0], p0, loop, depth + 1) + [('reverse',)]
    if isinstance(e, ast.Call) and isinstance(e.func, ast.Attribute) and e.func.attr == 'copy' and not e.args and not e.keywords:
        return _order_ops(mod, fn, fq, e.func.value, p0, loop, depth + 1)
    if isinstance(e, (ast.List, ast.Tuple)) and len(e.elts) == 1 and isinstance(e.elts[0], ast.Starred):
        return _order_ops(mod, fn, fq, e.elts[0].value, p0, loop, depth + 1)
    if isinstance(e, ast.Subscript) and isinstance(e.slice, ast.Slice) and e.slice.lower is None and e.slice.upper is None:
        st_ = e.slice.step
        if st_ is None:
            return _order_ops(mod, fn, fq, e.value, p0, loop, depth + 1)
        if isinstance(st_, ast.UnaryOp) and isinstance(st_.op, ast.USub) and isinstance(st_.operand, ast.Constant) and st_.operand.value == 1:
            return _order_ops(mod, fn, fq, e.value, p0, loop, depth + 1) + [('reverse',)]
    raise Undecided(f'{fq}: unknown iteration {short(e)}')


FIELDS = ('is_parallel', 'expected_fail', 'expected_exitcode', 'timeout', 'protocol', 'priority')


def r3c(ctx: RuleCtx) -> None:
    mod = _module(ctx, BACKENDS)
    entry_q = 'Backend.create_test_serialisation'
    entry = mod.func(entry_q)
    builders = [q for q, f in mod.funcs().items() if q.startswith('Backend.') and q.count('.') == 1
                and any(isinstance(c, ast.Call) and call_name(c) == 'TestSerialisation' for c in walk_no_nested(f))]
    if len(builders) != 1:
        raise Undecided(f'{entry_q}: expected one method of Backend that builds TestSerialisation records, found {builders}')
    fq = builders[0]
    fn = mod.func(fq)
    p0 = [a.arg for a in fn.args.args if a.arg != 'self'][0]
    if fn is not entry:
        # the records are produced by a helper (list builder or generator): the entry point must hand its tests on and return all of them
        erets = [r for r in walk_no_nested(entry) if isinstance(r, ast.Return) and r.value is not None]
        ev = _inline_locals(entry, erets[0].value, calls={fn.name}) if len(erets) == 1 else None
        inner = ev.args[0] if isinstance(ev, ast.Call) and call_name(ev) in ('list', 'tuple') and len(ev.args) == 1 and not ev.keywords else ev
        ep0 = [a.arg for a in entry.args.args if a.arg != 'self'][0]
        if not (isinstance(inner, ast.Call) and call_name(inner) == f'self.{fn.name}' and [norm(a) for a in (_positional(inner, fn) or [])] == [ep0]):
            raise Undecided(f'{entry_q}: does not simply return the records of {fn.name}({ep0})')
    is_gen = any(isinstance(n, (ast.Yield, ast.YieldFrom)) for n in walk_no_nested(fn))
    if is_gen:
        if any(isinstance(n, ast.YieldFrom) for n in walk_no_nested(fn)):
            raise Undecided(f'{fq}: `yield from` is outside the idioms of this rule')
        arr = '<yield>'
        emits = lambda n: isinstance(n, ast.Yield)   # noqa: E731
    else:
        rets = [r for r in walk_no_nested(fn) if isinstance(r, ast.Return)]
        if len(rets) != 1 or not isinstance(rets[0].value, ast.Name):
            raise Undecided(f'{fq}: expected a single `return <list>`')
        arr = rets[0].value.id
        emits = lambda n: isinstance(n, ast.Call) and call_name(n) == f'{arr}.append'   # noqa: E731
    loops = [st for st in fn.body if isinstance(st, ast.For) and any(emits(c) for c in ast.walk(st))]
    if len(loops) != 1 or not isinstance(loops[0].target, ast.Name):
        raise Undecided(f'{fq}: expected one loop that emits the records')
    loop = loops[0]
    tv = loop.target.id
    it_ = loop.iter
    # normal form of the iterated expression: the parameter followed by a chain of order operations (copies dropped):
    # sorted(E, key=, reverse=) / E.sort(key=, reverse=) statements on a local copy -> ('sort', direction);
    # reversed(E) / E[::-1] / E.reverse() -> ('reverse',).  The last sort decides the order by priority, later reversals flip it.
    ops = _order_ops(mod, fn, fq, it_, p0, loop)
    order = 'unsorted'
    for op in ops:
        if op[0] == 'sort':
            order = op[1]
        elif order != 'unsorted':
            order = 'ascending' if order == 'descending' else 'descending'
    ctx.require(order == 'descending', 'tests are serialised in descending priority', mod, fq, 'iteration order of the serialisation loop',
                f'the serialisation loop iterates {short(it_)}: order by priority is {order}; documented: higher priority starts first', it_)
    cfg = CFG(fn)
    head = [n for n in cfg.nodes if n.kind == 'iter' and n.ast is loop]
    apps = [n_ for n_ in cfg.nodes if n_.expr() is not None and any(emits(x) for x in walk_no_nested(n_.expr()))]
    body_first = [cfg.nodes[b] for b, lab in cfg.succ[head[0].id] if lab == 'iter']
    skip = any(cfg.can_reach(bf, head[0], apps) for bf in body_first if bf not in apps)
    ctx.require(not skip, 'every iteration of the serialisation loop emits its test', mod, fq, 'record emitted on every iteration path',
                f'an iteration of the serialisation loop can return to the loop head without emitting the record ({arr}): a test is dropped', loop)
    ser = mod.cls('TestSerialisation')
    slots = [st.target.id for st in ser.body if isinstance(st, ast.AnnAssign) and isinstance(st.target, ast.Name)]
    builds = [c for c in ast.walk(loop) if isinstance(c, ast.Call) and call_name(c) == 'TestSerialisation']
    if len(builds) != 1 or any(isinstance(a, ast.Starred) for a in builds[0].args):
        raise Undecided(f'{fq}: expected one TestSerialisation(...) call')
    b = builds[0]
    given: T.Dict[str, ast.AST] = dict(zip(slots, b.args))
    for k in b.keywords:
        if k.arg:
            given[k.arg] = k.value
    fl = Flow(fn)
    for f in FIELDS:
        if f not in slots:
            raise AnchorMissing(f'TestSerialisation has no field {f}')
        e = given.get(f)
        if e is None:
            raise Undecided(f'{fq}: no argument found for the TestSerialisation field {f}')
        if f'attr:{tv}.{f}' not in fl.origins(e) and (any(isinstance(n, ast.Call) for n in ast.walk(e)) or any(
                isinstance(c_, ast.Call) for n in ast.walk(e) if isinstance(n, ast.Name) and n.id != tv for d_ in fl.defs.get(n.id, []) for c_ in ast.walk(d_))):
            raise Undecided(f'{fq}: the field {f} is computed by {short(e)}, which this rule does not follow')
        ok = e is not None and f'attr:{tv}.{f}' in fl.origins(e) and not any(f'attr:{tv}.{g}' in fl.origins(e) for g in FIELDS if g != f)
        ctx.require(ok, f'TestSerialisation.{f} <- {tv}.{f}', mod, fq, f'TestSerialisation field {f}',
                    f'the serialised field {f} is filled from {short(e)} instead of {tv}.{f}', e if e is not None else b)


# ---------------------------------------------------------------------------
# R4: tallies, exit status, summary
# ---------------------------------------------------------------------------

GROUPS = [{'FAIL', 'ERROR', 'INTERRUPT'}, {'TIMEOUT'}, {'SKIP'}, {'IGNORED'}, {'OK'}, {'EXPECTEDFAIL'}, {'UNEXPECTEDPASS'}]
LABELS = {'OK': 'ok', 'EXPECTEDFAIL': 'expected fail', 'FAIL': 'fail', 'UNEXPECTEDPASS': 'unexpected pass', 'SKIP': 'skipped',
          'IGNORED': 'ignored', 'TIMEOUT': 'timeout'}   # docs/markdown/Unit-tests.md shows the block "Ok: / Fail: / ..."


def _sum_terms(e: ast.AST) -> T.Optional[T.List[str]]:
    """`self.a + self.b + ...` or `sum([self.a, ...])` -> the attribute chains added."""
    if isinstance(e, ast.BinOp) and isinstance(e.op, ast.Add):
        l, r = _sum_terms(e.left), _sum_terms(e.right)
        return None if l is None or r is None else l + r
    if isinstance(e, ast.Call) and call_name(e) == 'sum' and len(e.args) == 1 and isinstance(e.args[0], (ast.List, ast.Tuple)) and not e.keywords:
        out: T.List[str] = []
        for x in e.args[0].elts:
            t = _sum_terms(x)
            if t is None:
                return None
            out += t
        return out
    ch = attr_chain(e)
    if ch and ch.startswith('self.') and ch.count('.') == 1:
        return [ch]
    return None


def _is_boolean(e: ast.AST) -> bool:
    if isinstance(e, ast.Compare):
        return True
    if isinstance(e, ast.UnaryOp) and isinstance(e.op, ast.Not):
        return True
    if isinstance(e, ast.BoolOp):
        return all(_is_boolean(v) for v in e.values)
    if isinstance(e, ast.Constant) and isinstance(e.value, bool):
        return True
    if isinstance(e, ast.Call) and isinstance(e.func, ast.Name) and e.func.id in ('bool', 'any', 'all', 'isinstance') and not e.keywords:
        return True
    return False


def _status_values(e: ast.AST) -> T.Optional[T.Tuple[T.Set[int], T.Optional[ast.AST], bool]]:
    """An exit-status expression drawn from a finite set of small constants: (values, c, polarity) with "non-zero iff c has
    truth value polarity" (c None: the value is constant); None when the value is not bounded by construction."""
    if isinstance(e, ast.Constant) and isinstance(e.value, (bool, int)) and e.value is not None:
        return {int(e.value)}, None, True
    if isinstance(e, ast.IfExp):
        a, b = _status_values(e.body), _status_values(e.orelse)
        if a is None or b is None or a[1] is not None or b[1] is not None:
            return None
        ta, tb = all(a[0]), all(b[0])
        if ta == tb or any(a[0]) != ta or any(b[0]) != tb:
            return None
        return a[0] | b[0], e.test, ta
    if isinstance(e, ast.Call) and isinstance(e.func, ast.Name) and e.func.id in ('int', 'bool') and len(e.args) == 1 and not e.keywords and _is_boolean(e.args[0]):
        return {0, 1}, e.args[0], True
    if _is_boolean(e):
        return {0, 1}, e, True
    if isinstance(e, ast.Call) and isinstance(e.func, ast.Name) and e.func.id == 'min' and len(e.args) == 2 and not e.keywords:
        consts = [a for a in e.args if isinstance(a, ast.Constant) and isinstance(a.value, int) and not isinstance(a.value, bool)]
        others = [a for a in e.args if a not in consts]
        if len(consts) == 1 and len(others) == 1 and 0 < consts[0].value <= 255:
            return set(range(0, consts[0].value + 1)), others[0], True
    return None


def _function_status(ctx: RuleCtx, mod: Module, q: str, fn: T.Any, depth: int = 0) -> T.List[T.Tuple[ast.Return, str]]:
    """Classify every `return` of an entry function on the way to sys.exit: 'const' (bounded constants), 'doit', or 'unbounded:<why>'."""
    out: T.List[T.Tuple[ast.Return, str]] = []
    for r in walk_no_nested(fn):
        if not isinstance(r, ast.Return):
            continue
        if r.value is None:
            out.append((r, 'const'))
            continue
        v = _inline_locals(fn, r.value, calls={'doit', 'run', 'list_tests', 'total_failure_count'})
        sv = _status_values(v)
        if sv is not None:
            out.append((r, 'const' if all(0 <= x <= 255 for x in sv[0]) else f'unbounded:constant {sorted(sv[0])} outside 0..255'))
        elif isinstance(v, ast.Call) and call_method(v) == 'doit' and isinstance(v.func, ast.Attribute):
            out.append((r, 'doit'))
        elif isinstance(v, ast.Call) and isinstance(v.func, ast.Name) and mod.has_func(v.func.id) and depth < 2:
            sub = _function_status(ctx, mod, v.func.id, mod.func(v.func.id), depth + 1)
            worst = [k for _, k in sub if k.startswith('unbounded')]
            out.append((r, worst[0] if worst else ('doit' if any(k == 'doit' for _, k in sub) else 'const')))
        elif any(isinstance(n, ast.Call) and call_method(n) in ('total_failure_count', 'len') for n in ast.walk(v)) or \
                any((attr_chain(n) or '').endswith('_count') for n in ast.walk(v)):
            out.append((r, f'unbounded:a count ({short(v, 60)})'))
        else:
            raise Undecided(f'{q}: unknown exit status expression {short(r.value)}')
    return out


def r4(ctx: RuleCtx) -> None:
    mod = _module(ctx, MTEST)
    members = _enum_names(mod, 'TestResult')
    bad = _method_member_set(ctx, mod, 'is_bad')
    finished = _method_member_set(ctx, mod, 'is_finished')
    ctx.require(bad == BAD, f'TestResult.is_bad = {sorted(bad)}', mod, 'TestResult.is_bad', 'set of bad results',
                f'is_bad() holds for {sorted(bad)}; documented failures: {sorted(BAD)} (failed, errored, timed out, interrupted, unexpectedly passed)', mod.func('TestResult.is_bad'))
    ctx.require(finished == set(members) - {'PENDING', 'RUNNING'}, 'TestResult.is_finished = all but PENDING/RUNNING', mod, 'TestResult.is_finished', 'set of finished results',
                f'is_finished() holds for {sorted(finished)}')

    # (a) process_test_result: one arm and one counter per finished member
    fq = 'TestHarness.process_test_result'
    fn = _unroll_table_setattr(ctx, mod, 'TestHarness', _propagated(_inline_helpers(ctx, mod, 'TestHarness', mod.func(fq), fq, keep={'is_bad_result'}),
                                                                    calls=set(mod.methods('TestResult'))))   # normal form
    subj = 'ARG1.res'
    badres = Atom('truth', ('self.is_bad_result(ARG1)',))

    def eff(st: ast.AST) -> T.Optional[str]:
        if isinstance(st, ast.AugAssign):
            ch = attr_chain(st.target)
            if ch and ch.startswith('self.') and isinstance(st.op, ast.Add) and isinstance(st.value, ast.Constant) and st.value.value == 1:
                return f'inc {ch}'
            return f'write {norm(st)}'
        if isinstance(st, ast.Assign) and len(st.targets) == 1:
            ch = attr_chain(st.targets[0])
            if ch and ch.startswith('self.'):
                if norm(st.value) in (f'{ch} + 1', f'1 + {ch}'):
                    return f'inc {ch}'
                return f'write {norm(st)}'
        if isinstance(st, ast.Expr) and isinstance(st.value, ast.Call):
            cn = call_name(st.value) or ''
            if cn in ('sys.exit', 'exit'):
                return 'exit'
            if cn.endswith('.append') and [norm(a) for a in st.value.args] == ['ARG1']:
                return 'collect'
            if cn in ('setattr', 'getattr') or (cn.startswith('self.') and cn.count('.') == 1):
                return f'opaque {norm(st.value)}'
        return None
    tab = tables.extract(fn, effects=eff, unroll=0, name=fq)
    counter_of: T.Dict[str, str] = {}
    all_atoms = tab.atoms()
    free_atoms = [a for a in all_atoms if _res_pred(ctx, mod, a, subj, 'TestHarness') is None]
    for a in free_atoms:
        if a != badres and not (a.kind == 'truth' and a.args[0].startswith('self.') and a.args[0].replace('self.', '').isidentifier()):
            raise Undecided(f'{fq}: arm selected by an unknown condition {a!r}')
    if len(free_atoms) > 4:
        raise Undecided(f'{fq}: too many free conditions {free_atoms}')
    has_badres = badres in free_atoms
    for m in members:
        for vals in itertools.product((False, True), repeat=len(free_atoms)):
            fw = dict(zip(free_atoms, vals))
            fired = []
            for r in tab.rows:
                ok = True
                for a, v in r.conds.items():
                    t = fw[a] if a in fw else (m in T.cast(T.Set[str], _res_pred(ctx, mod, a, subj, 'TestHarness')))
                    if t != v:
                        ok = False
                        break
                if ok:
                    fired.append(r)
            if len(fired) != 1:
                raise Undecided(f'{fq}: {len(fired)} rows fire for {m}')
            effs = list(fired[0].effects)
            opq = [e for e in effs if e.startswith('opaque ')]
            if opq:
                raise Undecided(f'{fq}: the arm for {m} runs {opq[0][7:]}, which this rule does not follow')
            incs = [e[4:] for e in effs if e.startswith('inc ')]
            other = [e for e in effs if e.startswith('write ')]
            wdesc = ', '.join(f'{a!r}={v}' for a, v in fw.items())
            if m not in finished:
                ctx.require('exit' in effs or fired[0].outcome[0] == 'raise' or (not incs and not other), f'unfinished result {m} is not tallied', mod, fq, f'arm for {m}', f'a {m} result is counted in {incs}')
                continue
            ok = 'exit' not in effs and fired[0].outcome[0] != 'raise' and len(incs) == 1 and not other
            if not ok:
                ctx.violation(mod, fq, f'arm for {m}', f'a finished {m} result ' + ('has no arm (falls into sys.exit / an exception)' if ('exit' in effs or fired[0].outcome[0] == 'raise') else f'changes the counters {incs + other}') +
                              '; exactly one counter must be incremented by one', fn)
                continue
            if counter_of.setdefault(m, incs[0]) != incs[0]:
                raise Undecided(f'{fq}: the counter of {m} depends on {wdesc}')
            coll_ = 'collect' in effs
            if has_badres:
                want_c = fw[badres]
                ctx.require(coll_ == want_c, f'{m} [{wdesc}]: `{incs[0]} += 1`; collected as failure iff is_bad_result', mod, fq, f'failure collection for {m}',
                            f'a {m} result with is_bad_result={want_c} is ' + ('' if coll_ else 'not ') + 'appended to the collected failures', fn)
            else:
                # the predicate was inlined: collected only for bad results, and always for bad results other than an interrupted one
                okc = (not coll_ or m in bad) and (coll_ or m not in bad or m == 'INTERRUPT')
                ctx.require(okc, f'{m} [{wdesc}]: `{incs[0]} += 1`; collected as failure only if bad', mod, fq, f'failure collection for {m}',
                            f'a {m} result is ' + ('' if coll_ else 'not ') + f'appended to the collected failures (bad results: {sorted(bad)})', fn)
    groups: T.Dict[str, T.Set[str]] = {}
    for n_, c in counter_of.items():
        groups.setdefault(c, set()).add(n_)
    got_groups = sorted(map(sorted, groups.values()))
    want_groups = sorted(map(sorted, GROUPS))
    if len(counter_of) == len(finished):
        ctx.require(got_groups == want_groups, f'counter grouping {got_groups}', mod, fq, 'grouping of results into counters',
                    f'results are grouped into counters as {got_groups}; documented: {want_groups}', fn)
    # every result reaches every logger
    cfg = CFG(fn)
    logs = [n for n in cfg.nodes if n.kind == 'iter' and attr_chain(n.ast.iter) == 'self.loggers' and isinstance(n.ast.target, ast.Name)   # type: ignore[union-attr]
            and all(isinstance(st, ast.Expr) and isinstance(st.value, ast.Call) for st in n.ast.body)   # type: ignore[union-attr]
            and any(isinstance(c, ast.Call) and call_name(c) == f'{n.ast.target.id}.log' and any(isinstance(a, ast.Name) and a.id == fn.args.args[1].arg for a in c.args)   # type: ignore[union-attr]
                    for c in ast.walk(n.ast))]
    if not (bool(logs) and cfg.dominated_by_any(cfg.exit_return, logs)):
        # absence finding: only when nothing else in the function (or in a helper it hands the result to) touches the loggers
        rp = fn.args.args[1].arg
        elsewhere = [n for n in walk_no_nested(fn) if attr_chain(n) == 'self.loggers' and not any(n is x for lg in logs for x in ast.walk(lg.ast))]
        helpers = []
        for c in walk_no_nested(fn):
            if isinstance(c, ast.Call) and isinstance(c.func, ast.Attribute) and isinstance(c.func.value, ast.Name) and c.func.value.id == 'self' \
                    and any(isinstance(a, ast.Name) and a.id == rp for a in c.args):
                r_ = ctx.repo.find_method(mod, mod.cls('TestHarness'), c.func.attr)
                if r_ is None or any(attr_chain(x) == 'self.loggers' for x in ast.walk(r_[2])):
                    helpers.append(c)
        if elsewhere or helpers:
            raise Undecided(f'{fq}: the loggers are reached through {short((elsewhere + helpers)[0])}, an idiom this rule does not follow')
    ctx.require(bool(logs) and cfg.dominated_by_any(cfg.exit_return, logs), 'every tallied result is passed to every logger (`for l in self.loggers: l.log(self, result)` on every path)',
                mod, fq, 'logger loop on every path', 'process_test_result can return without passing the result to the loggers: testlog.json / console lose it', fn)
    # is_bad_result implies is_bad
    if has_badres:   # the predicate is a separate method; when it was inlined or moved, the tally table above has judged it in place
        bq = 'TestHarness.is_bad_result'
        bf = mod.func(bq)
        bp = [a.arg for a in bf.args.args if a.arg != 'self'][0]
        ways = _fn_ways_true(_inline_helpers(ctx, mod, 'TestHarness', bf, bq))
        if not ways:
            raise Undecided(f'{bq}: no returning path was understood')
        isb = Atom('truth', (f'{bp}.res.is_bad()',))
        for w in ways:
            if w.get(isb) is not True:
                # closed world: an unresolved name / call / a member test in another spelling means the shape was not understood
                opaque = [a for a in w if a != isb and _res_pred(ctx, mod, a, f'{bp}.res') is None
                          and not (a.kind == 'truth' and a.args[0].startswith('self.') and a.args[0][5:].isidentifier())]
                if opaque:
                    raise Undecided(f'{bq}: depends on {opaque[0]!r}, which this rule does not follow')
        okb = all(w.get(isb) is True for w in ways)
        ctx.require(okb, 'is_bad_result(result) implies result.res.is_bad()', mod, bq, 'is_bad_result => is_bad', 'is_bad_result can hold for a result that is not bad', bf)

    # (b) total_failure_count sums exactly the counters of the bad results; doit returns non-zero iff it is positive
    tq = 'TestHarness.total_failure_count'
    tf = mod.func(tq)
    trets = [r for r in walk_no_nested(tf) if isinstance(r, ast.Return) and r.value is not None]
    terms = _sum_terms(_inline_locals(tf, trets[0].value)) if len(trets) == 1 else None
    if terms is None and len(trets) == 1 and isinstance(trets[0].value, ast.Name):
        # accumulated in a local: `t = a; t += b; ...; return t` in straight-line code
        acc_ = trets[0].value.id
        terms = []
        for st in tf.body:
            tg_ = st.targets[0] if isinstance(st, ast.Assign) and len(st.targets) == 1 else st.target if isinstance(st, (ast.AugAssign, ast.AnnAssign)) else None
            if isinstance(tg_, ast.Name) and tg_.id == acc_:
                part = _sum_terms(st.value) if st.value is not None and (not isinstance(st, ast.AugAssign) or isinstance(st.op, ast.Add)) else None
                if part is None or terms is None or (isinstance(st, ast.Assign) and terms):
                    terms = None
                    break
                terms += part
            elif any(isinstance(n, ast.Name) and n.id == acc_ and isinstance(n.ctx, ast.Store) for n in ast.walk(st)):
                terms = None
                break
    if terms is None:
        raise Undecided(f'{tq}: not a sum of counters')
    bad_counters = sorted({counter_of[n_] for n_ in bad if n_ in counter_of})
    ctx.require(sorted(terms) == bad_counters, f'total_failure_count sums {sorted(terms)} = counters of the bad results', mod, tq, 'sum of failure counters',
                f'total_failure_count() adds {sorted(terms)}; the counters fed by the bad results {sorted(bad)} are {bad_counters}', tf)
    dq = 'TestHarness.doit'
    doit = mod.func(dq)
    cfgd = CFG(doit)
    runs = cfgd.nodes_with_call(lambda c: call_name(c) == 'self.run_tests')
    if len(runs) != 1:
        raise Undecided(f'{dq}: expected one self.run_tests(...) call')
    reach = cfgd.reachable([runs[0]], edge_ok=lambda a, b, lab: lab != 'exc')
    rets = [n for n in cfgd.nodes if n.id in reach and n.kind == 'stmt' and isinstance(n.ast, ast.Return)]
    ctx.floor('returns of doit after the tests ran', len(rets), 1)
    const_rets = [rn for rn in rets if rn.ast.value is not None and (lambda sv_: sv_ is not None and sv_[1] is None)(_status_values(_inline_locals(doit, rn.ast.value, calls={'total_failure_count'})))]   # type: ignore[union-attr]
    by_paths = len(const_rets) == len(rets) and len(rets) > 1
    if by_paths:
        # early-return form (`if failures: return 1` / `return 0`): the condition of each constant is the path condition
        top = [st for st in doit.body if any(cfgd.can_reach(runs[0], x) or x is runs[0] for x in cfgd.stmt_nodes(st)) or any(n is runs[0].ast for n in ast.walk(st))]
        shell = tables._copy(doit)
        shell.body = [tables._copy(st) for st in top]
        call = 'self.total_failure_count()'
        goods = {(Atom('cmp', ('lt', '0', call)), True), (Atom('cmp', ('eq', call, '0')), False), (Atom('truth', (call,)), True), (Atom('cmp', ('lt', call, '1')), False)}
        for want_ in (True, False):
            for w in _fn_ways_true(shell, want=want_, calls={'total_failure_count'}):
                verdicts = {(v == gv) for (ga, gv) in goods for a, v in w.items() if a == ga}
                if not verdicts:
                    raise Undecided(f'{dq}: a return of a constant status does not depend on total_failure_count() ({w})')
                ctx.require(verdicts == {want_}, f'doit: returns a {"non-zero" if want_ else "zero"} constant on a path with total_failure_count() {">" if want_ else "<="} 0', mod, dq,
                            'constant exit status on the wrong path', f'doit returns a {"non-zero" if want_ else "zero"} status on a path where [{w}] holds; required: non-zero iff total_failure_count() > 0', doit)
    for rn in ([] if by_paths else rets):
        rv = rn.ast.value   # type: ignore[union-attr]
        if rv is None:
            ctx.violation(mod, dq, rn.ast, 'doit returns None after running the tests: the exit status does not reflect failures', rn.ast)
            continue
        rvi = _inline_locals(doit, rv, calls={'total_failure_count'})
        call = 'self.total_failure_count()'
        sv = _status_values(rvi)
        if sv is None:
            is_count = call in norm(rvi) or any((attr_chain(n) or '').endswith('_count') for n in ast.walk(rvi)) or any(isinstance(n, ast.Call) and call_name(n) == 'len' for n in ast.walk(rvi))
            if not is_count:
                raise Undecided(f'{dq}: unknown exit status expression {short(rv)}')
            ctx.violation(mod, dq, rn.ast, f'doit returns `{short(rvi)}`, a count, as the exit status: the process status keeps only 8 bits, so a multiple of 256 '
                          'failures exits 0; the status must be drawn from small constants (1 if total_failure_count() > 0 else 0)', rn.ast)
            continue
        vals, cond, pol = sv
        ctx.require(all(0 <= x <= 255 for x in vals) and cond is not None, f'doit: `{short(rn.ast)}` yields one of the constants {sorted(vals)[:4]}{"..." if len(vals) > 4 else ""}', mod, dq,
                    'exit status drawn from small constants', f'doit returns a status from {sorted(vals)[:6]} ' + ('regardless of the failures' if cond is None else 'outside 0..255'), rn.ast)
        if cond is None:
            continue
        a, v = tables.canon(cond, pol)
        good = (a == Atom('cmp', ('lt', '0', call)) and v) or (a == Atom('cmp', ('eq', call, '0')) and not v) or (a == Atom('truth', (call,)) and v) \
            or (a == Atom('cmp', ('lt', call, '1')) and not v)
        subject_known = call in repr(a) or any(ch.startswith('self.') for ch in chains_in(cond))
        if not good and not subject_known:
            raise Undecided(f'{dq}: unknown exit status expression {short(rv)}')
        ctx.require(good, f'doit: `{short(rn.ast)}` is non-zero iff total_failure_count() > 0', mod, dq, rn.ast,
                    f'doit returns non-zero iff [{"" if v else "not "}{a!r}]; required: iff total_failure_count() > 0', rn.ast)
    # the way to sys.exit: run() / run_with_args() hand on doit() or small constants only
    for q in ('run', 'run_with_args'):
        sts = _function_status(ctx, mod, q, mod.func(q))
        badr = [(r, k) for r, k in sts if k.startswith('unbounded')]
        ctx.require(not badr, f'{q}(): {len(sts)} return(s) hand on doit() or constants in 0..255', mod, q, f'exit status values of {q}',
                    f'{q}() returns {badr[0][1][10:] if badr else ""} as the process exit status (truncated to 8 bits by the OS)', badr[0][0] if badr else None)
    runf = mod.func('run')
    fl = Flow(runf)
    rr = [r for r in ast.walk(runf) if isinstance(r, ast.Return) and r.value is not None and any(o.startswith('call:') and o.endswith('.doit') for o in fl.origins(r.value))]
    pure = [r for r in rr if isinstance(r.value, ast.Call) or isinstance(r.value, ast.Name)]
    if not pure:
        dropped = [st for st in ast.walk(runf) if isinstance(st, ast.Expr) and isinstance(st.value, ast.Call) and call_method(st.value) == 'doit']
        if not dropped:
            raise Undecided('run(): no `return <harness>.doit()` found and no discarded doit() call either: the call moved')
    ctx.require(bool(pure), 'run() returns the value of doit()', mod, 'run', 'return th.doit()', 'run() calls doit() and discards the status it computed', runf)

    # (c) summary: the label -> counter table, and every positive counter is printed
    sq = 'TestHarness.summary'
    sf0 = mod.func(sq)
    sf = _desugar_comprehensions(sf0)          # normal form: list comprehension -> accumulate loop
    pairs_nodes = [d for d in walk_no_nested(sf) if _label_table(d) is not None]
    pairs_nodes = [d for d in pairs_nodes if not any(d is not e and any(x is d for x in ast.walk(e)) for e in pairs_nodes)]
    if len(pairs_nodes) != 1:
        raise Undecided(f'{sq}: expected one constant table (label -> counter), found {len(pairs_nodes)}')
    tnode = pairs_nodes[0]
    table = {k.strip().rstrip(':').strip().lower(): v for k, v in T.cast(T.List[T.Tuple[str, str]], _label_table(tnode))}
    for name, lab in LABELS.items():
        c = counter_of.get(name)
        if c is None:
            continue
        if table.get(lab) is None and (lab in table or any(attr_chain(n) == c for n in walk_no_nested(sf))):
            raise Undecided(f'{sq}: the counter {c} is used, but not under the label "{lab}" in the table')
        ctx.require(table.get(lab) == c, f'summary line "{lab}" shows the counter of {name} ({c})', mod, sq, f'summary line {lab}',
                    (f'the summary line "{lab}" shows {table.get(lab)}; the counter fed by {name} results is {c}' if table.get(lab) else f'the counter {c} fed by {name} results appears nowhere in summary(): it is never printed'), tnode)
    holder = [st.targets[0].id if isinstance(st, ast.Assign) else st.target.id for st in sf.body   # type: ignore[union-attr]
              if isinstance(st, (ast.Assign, ast.AnnAssign)) and st.value is tnode and isinstance(st.targets[0] if isinstance(st, ast.Assign) else st.target, ast.Name)]

    def iterates_table(it: ast.AST) -> bool:
        base = it.func.value if isinstance(it, ast.Call) and isinstance(it.func, ast.Attribute) and it.func.attr == 'items' and not it.args else it
        if isinstance(tnode, ast.Dict) != (base is not it):
            return False
        return base is tnode or (bool(holder) and isinstance(base, ast.Name) and base.id == holder[0])
    loops = [st for st in walk_no_nested(sf) if isinstance(st, ast.For) and iterates_table(st.iter)
             and isinstance(st.target, ast.Tuple) and len(st.target.elts) == 2 and all(isinstance(e, ast.Name) for e in st.target.elts)]
    if len(loops) != 1:
        raise Undecided(f'{sq}: expected one loop over the entries of the table')
    lab_v, cnt_v = [e.id for e in loops[0].target.elts]   # type: ignore[union-attr]
    flw = Flow(sf)
    all_apps = [c for c in ast.walk(loops[0]) if isinstance(c, ast.Call) and call_method(c) in ('append', 'extend', 'add') and len(c.args) == 1] + \
               [st for st in ast.walk(loops[0]) if isinstance(st, ast.AugAssign) and isinstance(st.op, ast.Add)]
    apps = [c for c in all_apps if {lab_v, cnt_v} <= names_in(c.args[0] if isinstance(c, ast.Call) else c.value)]
    if all_apps and not apps:
        raise Undecided(f'{sq}: the appended line does not mention label and count directly')
    app_texts = {norm(c) for c in apps}
    known_calls = {'startswith', 'endswith', 'format', 'append', 'extend', 'add', 'join', 'str', 'len', 'lower', 'strip'}
    foreign = [c for st_ in loops[0].body for c in ast.walk(st_) if isinstance(c, ast.Call) and call_method(c) not in known_calls]
    if foreign:
        raise Undecided(f'{sq}: the summary loop calls {short(foreign[0])}, which this rule does not follow')
    ltab = tables.extract(sf, body=loops[0].body, inline=False, name=sq + ':loop',
                          effects=lambda st: 'print' if any(norm(c) in app_texts for c in ast.walk(st) if isinstance(c, (ast.Call, ast.AugAssign))) else None)
    pos = Atom('cmp', ('lt', '0', cnt_v))
    hidden = None
    nrow = 0
    for w in ltab.worlds([pos]):
        if not w.get(pos):
            continue
        for r in ltab.fire(w):
            nrow += 1
            if 'print' not in r.effects:
                hidden = r
    if not apps:
        raise Undecided(f'{sq}: no statement in the loop collects label and count')
    ctx.require(hidden is None and nrow > 0, 'summary: every counter > 0 is printed with its label', mod, sq, 'summary prints positive counters',
                f'a counter > 0 can be omitted from the summary (row {hidden!r})', loops[0])
    sret = [r for r in walk_no_nested(sf) if isinstance(r, ast.Return) and r.value is not None]
    sink = {norm(c.func.value) if isinstance(c, ast.Call) else norm(c.target) for c in apps if isinstance(c, ast.AugAssign) or isinstance(c.func, ast.Attribute)}
    reaches = len(sret) >= 1 and all(any(f'name:{s_}' in flw.origins(r.value) or s_ in names_in(r.value) or any(s_ in names_in(v_) for n_ in names_in(r.value) for v_ in flw.defs.get(n_, [])) for s_ in sink) for r in sret)
    if not reaches and any(isinstance(c, ast.Call) and call_method(c) not in known_calls for r in sret for c in ast.walk(r.value)):
        raise Undecided(f'{sq}: the returned text is built by a call this rule does not follow')
    ctx.require(reaches, 'summary returns the collected lines', mod, sq, 'summary returns the lines', 'the lines collected in the loop do not reach the returned text', sf0)


def _label_table(d: ast.AST) -> T.Optional[T.List[T.Tuple[str, T.Optional[str]]]]:
    """A constant table label -> `self.<counter>`: a dict display with string keys, or a list/tuple display of (string, value) pairs."""
    if isinstance(d, ast.Dict) and d.keys and all(isinstance(k, ast.Constant) and isinstance(k.value, str) for k in d.keys):
        return [(T.cast(ast.Constant, k).value, attr_chain(v)) for k, v in zip(d.keys, d.values)]
    if isinstance(d, (ast.List, ast.Tuple)) and d.elts and all(isinstance(e, ast.Tuple) and len(e.elts) == 2 and isinstance(e.elts[0], ast.Constant)
                                                              and isinstance(e.elts[0].value, str) for e in d.elts):
        return [(e.elts[0].value, attr_chain(e.elts[1])) for e in d.elts]   # type: ignore[attr-defined]
    return None


def _record_fields(mod: Module, name: str) -> T.Optional[T.List[str]]:
    """Field names, in order, of a NamedTuple / dataclass record class defined in the module."""
    if not mod.has_cls(name):
        return None
    c = mod.cls(name)
    is_nt = any((attr_chain(b) or '').split('.')[-1] == 'NamedTuple' for b in c.bases)
    is_dc = any(d.split('.')[-1] == 'dataclass' for d in decorator_names(c))
    if not (is_nt or is_dc):
        return None
    return [st.target.id for st in c.body if isinstance(st, ast.AnnAssign) and isinstance(st.target, ast.Name)]


class _RecordsToTuples(ast.NodeTransformer):
    """Normal form: `Record(a, b)` / `Record(y=b, x=a)` of a NamedTuple (or positional dataclass) -> the tuple `(a, b)` in field order."""

    def __init__(self, mod: Module):
        self.mod = mod

    def visit_Call(self, n: ast.Call) -> ast.AST:
        self.generic_visit(n)
        if isinstance(n.func, ast.Name):
            fields = _record_fields(self.mod, n.func.id)
            if fields is not None and not any(isinstance(a, ast.Starred) for a in n.args) and len(n.args) + len(n.keywords) == len(fields):
                vals: T.List[T.Optional[ast.AST]] = list(n.args) + [None] * (len(fields) - len(n.args))
                for k in n.keywords:
                    if k.arg not in fields or vals[fields.index(k.arg)] is not None:
                        return n
                    vals[fields.index(k.arg)] = k.value
                if all(v is not None for v in vals):
                    return ast.copy_location(ast.Tuple(elts=T.cast(T.List[ast.expr], vals), ctx=ast.Load()), n)
        return n


def _records_to_tuples(mod: Module, fn: T.Any) -> T.Any:
    f2 = tables._copy(fn)
    f2.body = [_RecordsToTuples(mod).visit(st) for st in f2.body]
    ast.fix_missing_locations(f2)
    return f2


class _IsliceToSlice(ast.NodeTransformer):
    """Normal form: `list(islice(x, a, b, c))` / `list(itertools.islice(x, a))` over a name -> the subscript `x[a:b:c]`
    (same elements for a list x); a bare `list(x[...])` copy of a slice is the slice."""

    def visit_Call(self, n: ast.Call) -> ast.AST:
        self.generic_visit(n)
        if isinstance(n.func, ast.Name) and n.func.id in ('list', 'tuple') and len(n.args) == 1 and not n.keywords:
            a = n.args[0]
            if isinstance(a, ast.Subscript) and isinstance(a.slice, ast.Slice):
                return a if n.func.id == 'list' else n
            if isinstance(a, ast.Call) and (call_name(a) or '').split('.')[-1] == 'islice' and not a.keywords and 2 <= len(a.args) <= 4 and isinstance(a.args[0], ast.Name) \
                    and n.func.id == 'list':
                def part(x: ast.AST) -> T.Optional[ast.expr]:
                    return None if isinstance(x, ast.Constant) and x.value is None else T.cast(ast.expr, x)
                rest = a.args[1:]
                lo, hi, st = (None, rest[0], None) if len(rest) == 1 else (rest[0], rest[1], rest[2] if len(rest) == 3 else None)
                return ast.copy_location(ast.Subscript(value=a.args[0], slice=ast.Slice(lower=part(lo) if lo is not None else None, upper=part(hi) if hi is not None else None,
                                                                                       step=part(st) if st is not None else None), ctx=ast.Load()), n)
        return n


def _desugar_comprehensions(fn: T.Any) -> T.Any:
    """Normal form: `x = [E for t in it if c]` -> `x = []` + `for t in it: if c: x.append(E)` (single generator)."""
    f2 = tables._copy(fn)

    def block(stmts: T.List[ast.stmt]) -> T.List[ast.stmt]:
        out: T.List[ast.stmt] = []
        for st in stmts:
            for field in ('body', 'orelse', 'finalbody'):
                sub = getattr(st, field, None)
                if isinstance(sub, list) and sub and isinstance(sub[0], ast.stmt) and not isinstance(st, (ast.FunctionDef, ast.AsyncFunctionDef, ast.ClassDef)):
                    setattr(st, field, block(sub))
            v = st.value if isinstance(st, (ast.Assign, ast.AnnAssign)) else None
            tg = (st.targets[0] if isinstance(st, ast.Assign) and len(st.targets) == 1 else st.target if isinstance(st, ast.AnnAssign) else None)
            if isinstance(v, ast.ListComp) and len(v.generators) == 1 and isinstance(tg, ast.Name) and not v.generators[0].is_async:
                g = v.generators[0]
                app: ast.stmt = ast.Expr(value=ast.Call(func=ast.Attribute(value=ast.Name(id=tg.id, ctx=ast.Load()), attr='append', ctx=ast.Load()), args=[v.elt], keywords=[]))
                if g.ifs:
                    app = ast.If(test=g.ifs[0] if len(g.ifs) == 1 else ast.BoolOp(op=ast.And(), values=list(g.ifs)), body=[app], orelse=[])
                new = [ast.Assign(targets=[ast.Name(id=tg.id, ctx=ast.Store())], value=ast.List(elts=[], ctx=ast.Load())),
                       ast.For(target=_as_store(g.target), iter=g.iter, body=[app], orelse=[])]
                for n in new:
                    ast.copy_location(n, st)
                    ast.fix_missing_locations(n)
                out.extend(new)
                continue
            out.append(st)
        return out
    f2.body = block(f2.body)
    return f2


def _as_store(t: ast.AST) -> ast.AST:
    t = tables._copy(t)
    for n in ast.walk(t):
        if hasattr(n, 'ctx'):
            n.ctx = ast.Store()   # type: ignore[attr-defined]
    return t


# ---------------------------------------------------------------------------
# R5: slicing
# ---------------------------------------------------------------------------

def _selection_fn(ctx: RuleCtx, mod: Module) -> T.Tuple[str, T.Any]:
    """The method of TestHarness that builds the list of tests to run: get_tests, or the helper it returns the result of."""
    gq = 'TestHarness.get_tests'
    fn = mod.func(gq)

    def selects(f: T.Any) -> bool:
        return any(isinstance(st, ast.If) and any(c.endswith('options.slice') for c in chains_in(st.test)) for st in f.body)
    if selects(fn):
        return gq, fn
    cands = []
    for c in walk_no_nested(fn):
        if isinstance(c, ast.Call) and isinstance(c.func, ast.Attribute) and attr_chain(c.func.value) == 'self' and not c.args and not c.keywords \
                and mod.has_func(f'TestHarness.{c.func.attr}') and selects(mod.func(f'TestHarness.{c.func.attr}')):
            cands.append(c)
    if len(cands) != 1:
        raise Undecided(f'{gq}: the selection (--slice step) is neither in get_tests nor in one helper it calls')
    # get_tests must hand the helper's list on unchanged: every non-empty return is that list (or a name bound to it)
    holder = {t.id for st in walk_no_nested(fn) if isinstance(st, ast.Assign) and st.value is cands[0] for t in st.targets if isinstance(t, ast.Name)}
    for r in walk_no_nested(fn):
        if isinstance(r, ast.Return) and r.value is not None and not (isinstance(r.value, (ast.List, ast.Tuple)) and not r.value.elts):
            if not (r.value is cands[0] or (isinstance(r.value, ast.Name) and r.value.id in holder)):
                raise Undecided(f'{gq}: returns {short(r.value)}, not the list selected by {cands[0].func.attr}()')   # type: ignore[union-attr]
    q = f'TestHarness.{cands[0].func.attr}'   # type: ignore[union-attr]
    return q, mod.func(q)


def r5(ctx: RuleCtx) -> None:
    mod = _module(ctx, MTEST)
    # (a) argument parser: "i/n" -> (int(part 0), int(part 1)), accepted iff 0 < i, 0 < n, not n < i
    tq = 'test_slice'
    tsf = mod.func(tq)
    tab = tables.extract(_propagated(_records_to_tuples(mod, _inline_helpers(ctx, mod, None, tsf, tq)), {'split'}), inline_calls={'split'}, name=tq)   # normal form: helpers inlined, locals propagated
    part = lambda k: f"int(ARG1.split('/')[{k}])"   # noqa: E731
    I, N = part(0), part(1)
    sem = {Atom('cmp', ('eq', "len(ARG1.split('/'))", '2')): 'two', Atom('cmp', ('lt', '0', I)): 'i>0', Atom('cmp', ('lt', '0', N)): 'n>0',
           Atom('cmp', ('lt', N, I)): 'n<i', Atom('cmp', ('lt', I, N)): 'i<n', Atom('cmp', ('eq', I, N)): 'i=n', Atom('cmp', ('eq', N, I)): 'i=n'}
    n = 0
    mism = None
    shape = [r for r in tab.rows if r.outcome[0] == 'return' and r.outcome[1] != f'({I}, {N})']
    if shape:
        free = names_in(ast.parse(shape[0].outcome[1], mode='eval')) - {'ARG1', 'int'}
        if free:
            raise Undecided(f'{tq}: the returned value still mentions the locals {sorted(free)}, which could not be resolved to the argument')
        ctx.violation(mod, tq, 'roles of SLICE and NUM_SLICES', f'test_slice returns `{shape[0].outcome[1]}`; "SLICE/NUM_SLICES" requires `({I}, {N})`', tsf)
        return
    unknown = [a for a in tab.atoms() if a not in sem]
    if unknown:
        raise Undecided(f'{tq}: conditions outside the reference vocabulary: {unknown}')
    for w in tab.worlds(list(sem)):
        v = {k: w.get(a) for a, k in sem.items() if a in w}
        accept = bool(v.get('two')) and bool(v.get('i>0')) and bool(v.get('n>0')) and not v.get('n<i')
        rows = tab.fire(w)
        if len(rows) != 1:
            raise Undecided(f'{tq}: {len(rows)} rows fire in {w}')
        n += 1
        r = rows[0]
        got = r.outcome[1] if r.outcome[0] == 'return' else 'raise' if r.outcome[0] == 'raise' else r.outcome[0]
        want = f'({I}, {N})' if accept else 'raise'
        if got != want:
            mism = (', '.join(('' if x else 'not ') + k for k, x in v.items()), got, want)
    ctx.require(mism is None, f'test_slice: "i/n" -> (i, n) when 0 < i <= n, rejected otherwise ({len(tab.rows)} rows, {n} worlds)', mod, tq, 'roles of SLICE and NUM_SLICES',
                f'for an argument with [{mism[0] if mism else ""}] test_slice gives `{mism[1] if mism else ""}`; expected `{mism[2] if mism else ""}`', tsf)
    adds = [c for c in ast.walk(mod.func('add_arguments')) if isinstance(c, ast.Call) and call_method(c) == 'add_argument' and c.args
            and isinstance(c.args[0], ast.Constant) and c.args[0].value == '--slice']
    if len(adds) != 1:
        raise Undecided("add_arguments: no single add_argument('--slice', ...) call found")
    ok = len(adds) == 1 and any(k.arg == 'type' and isinstance(k.value, ast.Name) and k.value.id == 'test_slice' for k in adds[0].keywords) \
        and not any(k.arg == 'dest' for k in adds[0].keywords)
    ctx.require(ok, '--slice is parsed by test_slice into options.slice', mod, 'add_arguments', "add_argument('--slice')", '--slice is not parsed by test_slice into options.slice')

    # (b) get_tests: tests = tests[i - 1::n] with (i, n) = options.slice
    gq, fn = _selection_fn(ctx, mod)
    idx = [i for i, st in enumerate(fn.body) if isinstance(st, ast.If) and any(c.endswith('options.slice') for c in chains_in(st.test))]
    if len(idx) != 1:
        raise Undecided(f'{gq}: expected one top-level `if self.options.slice` statement')
    st_if = T.cast(ast.If, fn.body[idx[0]])
    last = fn.body[-1]
    if not (isinstance(last, ast.Return) and isinstance(last.value, ast.Name)):
        raise Undecided(f'{gq}: does not end with `return <list of tests>`')
    var = last.value.id
    ifbody: T.List[ast.stmt] = []
    for st in st_if.body:
        g = _self_call_method(ctx, mod, 'TestHarness', st.value) if isinstance(st, ast.Assign) and len(st.targets) == 1 and isinstance(st.targets[0], ast.Name) and st.targets[0].id == var else None
        if g is not None and not any(isinstance(n, (ast.Yield, ast.YieldFrom)) for n in walk_no_nested(g)):
            ifbody.extend(_inline_call(g, T.cast(ast.Call, st.value), lambda: ast.Name(id=var, ctx=ast.Store()), gq, True))   # the slicing step lives in a helper
        else:
            ifbody.append(st)
    st_if = ast.If(test=st_if.test, body=ifbody, orelse=st_if.orelse, lineno=st_if.lineno, col_offset=st_if.col_offset, end_lineno=st_if.end_lineno, end_col_offset=st_if.end_col_offset)
    chain = [c for c in chains_in(st_if.test) if c.endswith('options.slice')][0]
    iv, nv = f'{chain}[0]', f'{chain}[1]'     # roles: SLICE, NUM_SLICES (the pair test_slice returns); locals are propagated away below

    def eff(st: ast.AST) -> T.Optional[str]:
        if isinstance(st, ast.Assign) and len(st.targets) == 1 and isinstance(st.targets[0], ast.Name) and st.targets[0].id in (var, var + '__selected'):
            return norm(st.value)
        return None
    shell = tables._copy(fn)
    shell.body = [tables._copy(st) for st in st_if.body]
    out_stores = [n for st in shell.body for n in ast.walk(st) if isinstance(n, ast.Name) and n.id == var and isinstance(n.ctx, ast.Store)]
    if len(out_stores) == 1:
        owner = [st for st in shell.body if any(n is out_stores[0] for n in ast.walk(st))]
        later = [n for st in shell.body[shell.body.index(owner[0]) + 1:] for n in ast.walk(st) if isinstance(n, ast.Name) and n.id == var] if owner else [None]
        if owner and not later:
            # reads of the incoming list (`n = len(tests)` hoisted before the guard) all precede the one re-binding: SSA-rename the result
            out_stores[0].id = var + '__selected'
    shell = _propagated(shell)
    shell.body = [_IsliceToSlice().visit(st) for st in shell.body]
    ast.fix_missing_locations(shell)
    stab = tables.extract(shell, body=shell.body, effects=eff, inline=False, name=gq + ':slice')
    want_slice = f'{var}[{iv} - 1::{nv}]'
    few = Atom('cmp', ('lt', f'len({var})', nv))
    bad: T.Optional[str] = None
    nrows = 0
    for r in stab.rows:
        nrows += 1
        extra = [a for a in r.conds if not (a.kind == 'cmp' and set(a.args[1:]) in ({f'len({var})', nv}, {f'len({var})', iv}))]
        if extra:
            raise Undecided(f'{gq}: slicing depends on {extra}')
        if r.outcome[0] == 'raise':
            if r.conds.get(few) is not True:
                bad = bad or f'`{r!r}`: the request is rejected although there are at least as many tests as slices'
        elif list(r.effects) != [want_slice]:
            # closed world: only a subscript of the list with a slice built from the two roles, constants and + - is a shape this rule reads
            for e_ in r.effects:
                pe = ast.parse(e_, mode='eval').body
                read = isinstance(pe, ast.Subscript) and isinstance(pe.value, ast.Name) and pe.value.id == var and isinstance(pe.slice, ast.Slice) and all(
                    isinstance(n, (ast.Slice, ast.BinOp, ast.Add, ast.Sub, ast.Constant, ast.Attribute, ast.Name, ast.Subscript, ast.Load, ast.UnaryOp, ast.USub))
                    for n in ast.walk(pe.slice)) and all(attr_chain(n) in (None, chain, 'self', chain.rsplit('.', 1)[0]) or attr_chain(n) == chain for n in ast.walk(pe.slice) if isinstance(n, (ast.Attribute, ast.Name)))
                if not read:
                    raise Undecided(f'{gq}: the selected tests are `{e_}`, a shape this rule does not read')
            bad = bad or f'`{r!r}`: the selected tests are {list(r.effects) or "unchanged"}; offset SLICE-1 and stride NUM_SLICES require {want_slice}'
    ctx.require(bad is None and nrows > 0, f'get_tests: {want_slice} ({nrows} rows)', mod, gq, st_if,
                f'--slice does not select every NUM_SLICES-th test starting at SLICE-1: {bad}', st_if)


# ---------------------------------------------------------------------------
# R6: at-most-once selection
# ---------------------------------------------------------------------------

def _bind_args(call: ast.Call, params: T.List[str]) -> T.Dict[str, ast.AST]:
    """Arguments of an internal call bound to the callee's parameters by position or keyword."""
    if any(isinstance(a, ast.Starred) for a in call.args) or any(k.arg is None for k in call.keywords) or len(call.args) > len(params):
        raise Undecided(f'cannot bind the arguments of {short(call)}')
    out: T.Dict[str, ast.AST] = dict(zip(params, call.args))
    for k in call.keywords:
        if k.arg not in params or k.arg in out:
            raise Undecided(f'cannot bind the arguments of {short(call)}')
        out[T.cast(str, k.arg)] = k.value
    return out


def r6(ctx: RuleCtx) -> None:
    mod = _module(ctx, MTEST)
    gq, fn = _selection_fn(ctx, mod)
    last = fn.body[-1]
    if not (isinstance(last, ast.Return) and isinstance(last.value, ast.Name)):
        raise Undecided(f'{gq}: does not end with `return <list of tests>`')
    var = last.value.id
    sources = {var, 'self.tests'}

    def from_source(e: ast.AST) -> bool:
        return any((isinstance(n, ast.Name) and n.id == var) or attr_chain(n) == 'self.tests' for n in ast.walk(e))
    # (a) get_tests builds the list by filtering / mapping one source at a time, never by concatenation
    gens: T.List[T.Tuple[str, T.Any, str, T.Optional[str]]] = []
    nwrites = 0
    for st in walk_no_nested(fn):
        if isinstance(st, ast.AugAssign) and isinstance(st.target, ast.Name) and st.target.id == var:
            nwrites += 1
            ctx.violation(mod, gq, st, f'`{short(st)}` appends to the list of selected tests: a test can be selected twice', st)
        elif isinstance(st, ast.Expr) and isinstance(st.value, ast.Call) and isinstance(st.value.func, ast.Attribute) and isinstance(st.value.func.value, ast.Name) \
                and st.value.func.value.id == var and st.value.func.attr in ('extend', 'append', 'insert', '__iadd__'):
            nwrites += 1
            ctx.require(not any(from_source(a) for a in st.value.args), f'`{short(st)}` adds nothing derived from the tests already selected', mod, gq, st,
                        f'`{short(st)}` adds tests derived from the already selected ones to the same list: a test can be selected twice', st)
        elif isinstance(st, ast.Assign) and len(st.targets) == 1 and isinstance(st.targets[0], ast.Name) and st.targets[0].id == var:
            nwrites += 1
            v = st.value
            dup = [b for b in ast.walk(v) if isinstance(b, ast.BinOp) and isinstance(b.op, (ast.Add, ast.Mult)) and from_source(b)]
            if dup:
                ctx.violation(mod, gq, st, f'`{short(st)}` concatenates / repeats lists derived from the candidate tests: a test can be selected twice', st)
                continue
            inner = v.args[0] if isinstance(v, ast.Call) and call_name(v) in ('list', 'tuple', 'sorted') and len(v.args) == 1 else v
            if isinstance(inner, ast.Call) and call_name(inner) == 'filter' and len(inner.args) == 2 and not inner.keywords:
                if attr_chain(inner.args[1]) not in sources:
                    raise Undecided(f'{gq}: filter() over an unknown source {short(inner.args[1])}')
                ctx.ok(f'`{short(st, 90)}` filters one source: each candidate at most once')
            elif isinstance(inner, (ast.ListComp, ast.GeneratorExp)):
                ok = len(inner.generators) == 1 and isinstance(inner.generators[0].target, ast.Name) and isinstance(inner.elt, ast.Name) \
                    and inner.elt.id == inner.generators[0].target.id and (attr_chain(inner.generators[0].iter) in sources)
                if not ok:
                    raise Undecided(f'{gq}: unknown selection comprehension {short(v)}')
                ctx.ok(f'`{short(st, 90)}` filters one source: each candidate at most once')
            elif isinstance(inner, ast.Call) and isinstance(inner.func, ast.Attribute) and attr_chain(inner.func.value) == 'self' and mod.has_func(f'TestHarness.{inner.func.attr}'):
                g = mod.func(f'TestHarness.{inner.func.attr}')
                params = [a.arg for a in g.args.args if a.arg != 'self']
                bound = _bind_args(inner, params)
                pos = [params.index(k) for k, a in bound.items() if (isinstance(a, ast.Name) and a.id == var) or attr_chain(a) == 'self.tests']
                if len(pos) != 1:
                    raise Undecided(f'{gq}: cannot tell which argument of {short(inner)} carries the candidates')
                if not any(isinstance(n, (ast.Yield, ast.YieldFrom)) for n in walk_no_nested(g)):
                    # a plain helper: each of its returns must be a sub-sequence / one-source filter of its parameter, which it must not grow
                    cp = params[pos[0]]
                    grows = [n for n in walk_no_nested(g) if (isinstance(n, ast.AugAssign) and isinstance(n.target, ast.Name) and n.target.id == cp)
                             or (isinstance(n, ast.Call) and isinstance(n.func, ast.Attribute) and isinstance(n.func.value, ast.Name) and n.func.value.id == cp
                                 and n.func.attr in ('extend', 'append', 'insert'))]
                    if grows:
                        raise Undecided(f'TestHarness.{g.name}: grows its argument ({short(grows[0])})')
                    rets_ = [r_ for r_ in walk_no_nested(g) if isinstance(r_, ast.Return) and r_.value is not None]
                    accs = {r_.value.id for r_ in rets_ if isinstance(r_.value, ast.Name) and r_.value.id != cp}
                    if len(accs) == 1 and all(isinstance(r_.value, ast.Name) and r_.value.id in accs for r_ in rets_):
                        accn_ = next(iter(accs))
                        inits = [st_ for st_ in walk_no_nested(g) if isinstance(st_, (ast.Assign, ast.AnnAssign)) and st_.value is not None
                                 and any(isinstance(n, ast.Name) and n.id == accn_ and isinstance(n.ctx, ast.Store) for n in ast.walk(st_))]
                        if len(inits) == 1 and isinstance(inits[0].value, ast.List) and not inits[0].value.elts and inits[0] in g.body:
                            gens.append((f'TestHarness.{g.name}', g, cp, accn_))   # a list builder: judged like the generator form
                            ctx.ok(f'`{short(st, 90)}` takes the tests collected by {g.name}({cp})')
                            continue
                    for r_ in rets_:
                        if True:
                            rv = _inline_locals(g, r_.value)
                            dupb = [b_ for b_ in ast.walk(rv) if isinstance(b_, ast.BinOp) and isinstance(b_.op, (ast.Add, ast.Mult)) and cp in names_in(b_)]
                            if dupb:
                                ctx.violation(mod, f'TestHarness.{g.name}', r_, f'`{short(r_)}` concatenates / repeats lists derived from the candidate tests: a test can be selected twice', r_)
                            elif not ((isinstance(rv, ast.Subscript) and isinstance(rv.value, ast.Name) and rv.value.id == cp) or (isinstance(rv, ast.Name) and rv.id == cp)
                                      or (isinstance(rv, (ast.ListComp,)) and len(rv.generators) == 1 and isinstance(rv.generators[0].iter, ast.Name) and rv.generators[0].iter.id == cp
                                          and isinstance(rv.elt, ast.Name) and isinstance(rv.generators[0].target, ast.Name) and rv.elt.id == rv.generators[0].target.id)):
                                raise Undecided(f'TestHarness.{g.name}: unknown way of building the selection: {short(r_)}')
                    ctx.ok(f'`{short(st, 90)}` takes a sub-sequence / filter of its argument through {g.name}()')
                    continue
                gens.append((f'TestHarness.{inner.func.attr}', g, params[pos[0]], None))
                ctx.ok(f'`{short(st, 90)}` takes the tests from {inner.func.attr}({params[pos[0]]})')
            elif (isinstance(inner, ast.Subscript) and isinstance(inner.value, ast.Name) and inner.value.id == var) or \
                    (isinstance(inner, ast.Call) and (call_name(inner) or '').split('.')[-1] == 'islice' and inner.args and isinstance(inner.args[0], ast.Name) and inner.args[0].id == var):
                ctx.ok(f'`{short(st, 90)}` takes a sub-sequence')
            else:
                raise Undecided(f'{gq}: unknown way of building the selection: {short(st)}')
    ctx.floor('statements of get_tests that build the selection', nwrites, 1)

    # (c) an explicit --suite decides before the exclusions of the test setup (add_test_setup(exclude_suites:): "Suites specified
    #     in the --suite option will always run, overriding add_test_setup if necessary")
    preds = {c.attr for c in ast.walk(fn) if isinstance(c, ast.Attribute) and attr_chain(c.value) == 'self' and isinstance(c.ctx, ast.Load)
             and mod.has_func(f'TestHarness.{c.attr}') and any(isinstance(n, ast.Attribute) and n.attr in ('exclude_suites', 'include_suites')
                                                               for n in ast.walk(_inline_helpers(ctx, mod, 'TestHarness', mod.func(f'TestHarness.{c.attr}'), gq)))}
    holders = {q.split('.')[1] for q, f in mod.funcs().items() if q.startswith('TestHarness.') and q.count('.') == 1
               and any(isinstance(n, ast.Attribute) and n.attr == 'exclude_suites' and attr_chain(n) != 'self.options.exclude_suites' for n in ast.walk(f))}
    if holders and not preds:
        raise Undecided(f'{gq}: the setup exclusion lives in {sorted(holders)}, which get_tests does not call directly')
    inc = Atom('truth', ('self.options.include_suites',))
    for pn in sorted(preds):
        pq = f'TestHarness.{pn}'
        nf = _propagated(_inline_helpers(ctx, mod, 'TestHarness', mod.func(pq), pq))
        npaths = 0
        late = None
        for pth in enumerate_paths(nf.body):
            seen: T.Dict[Atom, bool] = {}
            other_inc = False
            for ev in pth.events:
                roots = _event_roots(ev)
                if any(isinstance(n, ast.Attribute) and n.attr == 'exclude_suites' and attr_chain(n) != 'self.options.exclude_suites' for r_ in roots for n in ast.walk(r_)):
                    npaths += 1
                    if seen.get(inc) is not False:
                        if other_inc:
                            raise Undecided(f'{pq}: --suite is tested in a form this rule does not understand before the setup exclusion')
                        late = pth
                    break
                if ev.kind == 'cond':
                    a_, v_ = tables.canon(ev.node, ev.val)
                    seen[a_] = v_
                    if a_ != inc and 'include_suites' in repr(a_):
                        other_inc = True
        if npaths:
            ctx.require(late is None, f'{pq}: the setup\'s exclude_suites are consulted only when no --suite was given ({npaths} paths)', mod, pq,
                        'exclude_suites consulted before --suite', f'{pq} consults the exclude_suites of the test setup on a path where --suite has not been ruled out '
                        f'({late.describe() if late else ""}): a suite requested with --suite can be dropped by add_test_setup(exclude_suites:) and its tests never start', mod.func(pq))

    # (b) every selection generator yields a candidate at most once per iteration of its one loop over the candidates
    for q, g, cand, accn in gens:
        if accn is None:
            ys: T.List[T.Any] = [n for n in walk_no_nested(g) if isinstance(n, (ast.Yield, ast.YieldFrom))]
            if not ys:
                raise Undecided(f'{q} is not a generator')
            if any(isinstance(y, ast.YieldFrom) for y in ys):
                raise Undecided(f'{q}: `yield from` is outside the idioms of this rule')
        else:
            # list builder: `acc.append(x)` plays the role of `yield x`; the appended expression is exposed as `.value` like a Yield's
            ys = []
            for c in walk_no_nested(g):
                if isinstance(c, ast.Call) and isinstance(c.func, ast.Attribute) and isinstance(c.func.value, ast.Name) and c.func.value.id == accn:
                    if c.func.attr == 'append' and len(c.args) == 1:
                        c.value = c.args[0]   # type: ignore[attr-defined]
                        ys.append(c)
                    else:
                        raise Undecided(f'{q}: {short(c)} grows the result in a way this rule does not follow')
            if any(isinstance(n, ast.AugAssign) and isinstance(n.target, ast.Name) and n.target.id == accn for n in walk_no_nested(g)):
                raise Undecided(f'{q}: the result list {accn} is grown by an augmented assignment')
            if not ys:
                raise Undecided(f'{q}: nothing is ever added to the result list {accn}')
        loops = [st for st in walk_no_nested(g) if isinstance(st, (ast.For, ast.AsyncFor)) and isinstance(st.iter, ast.Name) and st.iter.id == cand and isinstance(st.target, ast.Name)]
        cfg = CFG(g)
        per_loop: T.Dict[int, T.List[T.Any]] = {}
        for y in ys:
            owner = [lp for lp in loops if any(n is y for n in ast.walk(lp)) and isinstance(y.value, ast.Name) and y.value.id == lp.target.id]   # type: ignore[union-attr]
            if len(owner) != 1:
                raise Undecided(f'{q}: `{short(y)}` does not yield the variable of a loop over {cand}')
            per_loop.setdefault(id(owner[0]), []).append(y)
        ylps = [lp for lp in loops if id(lp) in per_loop]
        if not ylps:
            raise Undecided(f'{q}: no loop over {cand} yields')
        ctx.require(len(ylps) == 1, f'{q}: one loop over {cand} yields', mod, q, f'loops over {cand} that yield',
                    f'{len(ylps)} loops over {cand} yield tests: the same test can be yielded by each of them', g)
        for lp in ylps:
            head = [n for n in cfg.nodes if n.kind == 'iter' and n.ast is lp][0]
            join = [n for n in cfg.nodes if n.kind == 'join' and n.ast is lp][0]
            ctx.require(not cfg.can_reach(join, head), f'{q}: the yielding loop over {cand} runs once', mod, q, f'yielding loop over {cand} inside another loop',
                        f'the loop over {cand} that yields tests is itself repeated (nested in another loop): every test can be yielded once per repetition', lp)
            ynodes = {id(y): cfg.node_containing(y) for y in per_loop[id(lp)]}
            for y in per_loop[id(lp)]:
                for a in ynodes[id(y)]:
                    again = [y2 for y2 in per_loop[id(lp)] for b in ynodes[id(y2)] if cfg.can_reach(a, b, avoid=[head], no_exc=True)]
                    ctx.require(not again, f'{q}: after `{short(y)}` no yield is reachable before the next candidate', mod, q, f'second yield of {lp.target.id} in one iteration',   # type: ignore[union-attr]
                                f'after `{short(y)}` another `yield {lp.target.id}` is reachable without advancing the loop over {cand} '   # type: ignore[union-attr]
                                f'(e.g. the inner loop is not left): a test matching several patterns is selected, run and counted several times', y)


# ---------------------------------------------------------------------------
# R8: the requested number of jobs: sources and validation
# ---------------------------------------------------------------------------

UNIVERSAL = 'mesonbuild/utils/universal.py'


def _jobs_argument(mod: Module) -> ast.Call:
    adds = [c for c in ast.walk(mod.func('add_arguments')) if isinstance(c, ast.Call) and call_method(c) == 'add_argument'
            and (any(isinstance(a, ast.Constant) and a.value == '--num-processes' for a in c.args)
                 or any(k.arg == 'dest' and isinstance(k.value, ast.Constant) and k.value.value == 'num_processes' for k in c.keywords))]
    if len(adds) != 1:
        raise Undecided("add_arguments: no single add_argument(..., '--num-processes', ...) call found")
    return adds[0]


def r8(ctx: RuleCtx) -> None:
    mod = _module(ctx, MTEST)
    um = _module(ctx, UNIVERSAL)
    add = _jobs_argument(mod)
    # (a) the default of -j is the environment request, MESON_TESTTHREADS included (Unit-tests.md)
    dflt = kwarg(add, 'default')
    if not (isinstance(dflt, ast.Call) and (call_name(dflt) or '').split('.')[-1] == 'determine_worker_count'):
        raise Undecided(f'add_arguments: the default of --num-processes is {short(dflt)}, not a determine_worker_count(...) call')
    names: T.Set[str] = set()
    for a in list(dflt.args) + [k.value for k in dflt.keywords]:
        try:
            v = fold_expr(ctx.repo, mod, a)
        except Undecided:
            raise Undecided(f'add_arguments: cannot fold the variable names in {short(dflt)}')
        names |= set(v) if isinstance(v, (list, tuple, set)) else {v}
    ctx.require('MESON_TESTTHREADS' in names, 'the default of -j honours MESON_TESTTHREADS', mod, 'add_arguments', dflt,
                f'the default number of jobs is {short(dflt)}: the documented MESON_TESTTHREADS request is not consulted', dflt)
    # (b) determine_worker_count: a variable that is absent never overwrites the value taken from an earlier one
    dq = 'determine_worker_count'
    f0 = um.func(dq)
    fn = _inline_helpers(ctx, um, None, f0, dq)
    rets = [r for r in walk_no_nested(fn) if isinstance(r, ast.Return) and isinstance(r.value, ast.Name)]
    if len(rets) != 1 or len([r for r in walk_no_nested(fn) if isinstance(r, ast.Return)]) != 1:
        raise Undecided(f'{dq}: expected a single `return <count>`')
    acc = rets[0].value.id   # type: ignore[union-attr]
    loops = [st for st in fn.body if isinstance(st, ast.For) and isinstance(st.target, ast.Name)
             and any(isinstance(n, ast.Name) and n.id == acc and isinstance(n.ctx, ast.Store) for n in ast.walk(st))
             and any(attr_chain(n) == 'os.environ' for n in ast.walk(st))]
    if len(loops) != 1:
        raise Undecided(f'{dq}: expected one loop over the variable names that reads os.environ and sets {acc}')
    lp = loops[0]
    var = lp.target.id   # type: ignore[union-attr]
    shell = tables._copy(fn)
    shell.body = [tables._copy(st) for st in lp.body]
    shell = _propagated(shell, calls={'get'})

    def env_read(e: ast.AST) -> T.Tuple[bool, bool]:
        """(reads os.environ for the loop variable, can yield a value although the variable is absent)"""
        reads = defaulted = False
        for n in ast.walk(e):
            if isinstance(n, ast.Subscript) and attr_chain(n.value) == 'os.environ':
                reads = True
            if isinstance(n, ast.Call) and isinstance(n.func, ast.Attribute) and n.func.attr == 'get' and attr_chain(n.func.value) == 'os.environ':
                reads = True
                defaulted = True   # .get() never raises: absence yields None / the default
            if isinstance(n, ast.Call) and call_name(n) == 'os.getenv':
                reads = defaulted = True
        return reads, defaulted
    presence_true = {Atom('in', (var, 'os.environ'))}
    npaths = 0
    bad = None
    for pth in enumerate_paths(shell.body, handlers=True):
        present = False
        in_handler = False
        for ev in pth.events:
            if ev.kind == 'exc':
                in_handler = True
            if ev.kind == 'cond':
                a_, v_ = tables.canon(ev.node, ev.val)
                if a_ in presence_true and v_:
                    present = True
                elif a_.kind == 'is' and a_.args[1] == 'None' and env_read(ast.parse(a_.args[0], mode='eval'))[0] and not v_:
                    present = True
                elif a_.kind == 'truth' and env_read(ast.parse(a_.args[0], mode='eval'))[0] and v_:
                    present = True
            if ev.kind == 'stmt' and isinstance(ev.node, (ast.Assign, ast.AugAssign, ast.AnnAssign)) and ev.node.value is not None:
                tg = ev.node.targets if isinstance(ev.node, ast.Assign) else [ev.node.target]
                if any(isinstance(t, ast.Name) and t.id == acc for t in tg):
                    npaths += 1
                    reads, defaulted = env_read(ev.node.value)
                    opaque = [c for c in ast.walk(ev.node.value) if isinstance(c, ast.Call) and call_name(c) not in ('int', 'os.environ.get', 'os.getenv', 'str', 'max', 'min')]
                    if opaque:
                        raise Undecided(f'{dq}: {acc} is computed by {short(opaque[0])}, which this rule does not follow')
                    if not in_handler and not present and (defaulted or not reads):
                        bad = (pth, ev.node)
    ctx.require(bad is None and npaths > 0, f'{dq}: {acc} is overwritten in the loop only for a variable that is present in os.environ ({npaths} writes on paths)', um, dq,
                f'{acc} overwritten for an absent variable',
                f'`{short(bad[1]) if bad else ""}` runs in an iteration in which `{var}` is not known to be in os.environ: the value requested through an earlier variable '
                f'(MESON_TESTTHREADS) is overwritten by the default of a later, unset one (MESON_NUM_PROCESSES)', bad[1] if bad else lp)


    # (c) the number of jobs that sizes the semaphore is positive: a non-positive request is rejected or replaced before it is used
    #     (Semaphore(0) never admits a test: nothing starts; a negative value raises ValueError)
    ty = kwarg(add, 'type')
    V = 'int(ARG1)'
    if isinstance(ty, ast.Name) and mod.has_func(ty.id):
        tfn = mod.func(ty.id)
        tab = tables.extract(_propagated(_inline_helpers(ctx, mod, None, tfn, ty.id)), name=ty.id)
        pos = Atom('cmp', ('lt', '0', V))
        badrow = None
        nret = 0
        for w in tab.worlds([pos]):
            for r in tab.fire(w):
                if r.outcome[0] != 'return':
                    continue
                nret += 1
                out = r.outcome[1]
                if out == V:
                    if not w.get(pos):
                        badrow = r
                elif not ((out.isdigit() and int(out) >= 1) or out.split('(')[0].split('.')[-1] == 'determine_worker_count'):
                    raise Undecided(f'{ty.id}: returns {out}, which this rule cannot bound')
        ctx.require(badrow is None and nret > 0, f'-j is parsed by {ty.id}(), which only returns positive job counts', mod, ty.id, 'non-positive job count accepted',
                    f'{ty.id}() can return a job count <= 0 (row {badrow!r}); asyncio.Semaphore of it starts no test / raises', tfn)
    elif isinstance(ty, ast.Name) and ty.id == 'int':
        users = sorted({q for q, f in mod.funcs().items() for n in walk_no_nested(f) if isinstance(n, ast.Attribute) and n.attr == 'num_processes'})
        guards = []
        for q in users:
            f = mod.func(q)
            for n in walk_no_nested(f):
                if isinstance(n, (ast.If, ast.While, ast.Assert, ast.IfExp)) and any(isinstance(x, ast.Attribute) and x.attr == 'num_processes' for x in ast.walk(n.test)):
                    guards.append((q, n.test))
                if isinstance(n, ast.Call) and call_name(n) == 'max' and any(isinstance(x, ast.Attribute) and x.attr == 'num_processes' for x in ast.walk(n)):
                    guards.append((q, n))
        if guards:
            raise Undecided(f'{guards[0][0]}: `{short(guards[0][1])}` may validate the job count; this rule does not follow it')
        ctx.violation(mod, 'add_arguments', "add_argument('-j', '--num-processes', type=int)",
                      f'-j/--num-processes is parsed by int(), which accepts 0 and negative numbers, and none of the functions that read or write num_processes ({", ".join(users)}) '
                      'tests it against 0/1 or clamps it with max(): `meson test -j 0` creates asyncio.Semaphore(0), so no test ever starts (the run hangs), '
                      '`-j -1` raises ValueError("Semaphore initial value must be >= 0")', add)
    else:
        raise Undecided(f'add_arguments: --num-processes has type={short(ty)}')


# ---------------------------------------------------------------------------
# R7: a timeout budget that is re-used in a loop is re-derived from the clock
# ---------------------------------------------------------------------------

CLOCKS = ('time', 'monotonic', 'perf_counter')


def r7(ctx: RuleCtx) -> None:
    mod = _module(ctx, MTEST)
    n = 0
    for q, fn in mod.funcs().items():
        if not isinstance(fn, ast.AsyncFunctionDef):
            continue
        waits = [c for c in walk_no_nested(fn) if isinstance(c, ast.Call) and call_name(c) in ('asyncio.wait', 'asyncio.wait_for')]
        if not waits:
            continue
        cfg = CFG(fn)
        fl = Flow(fn, nested=False)
        for c in waits:
            t = kwarg(c, 'timeout')
            if t is None and call_name(c) == 'asyncio.wait_for' and len(c.args) > 1:
                t = c.args[1]
            if t is None or (isinstance(t, ast.Constant)):
                continue
            nodes = cfg.node_containing(c)
            if len(nodes) != 1 or not cfg.can_reach(nodes[0], nodes[0]):
                continue   # not re-issued in a loop
            if not any(o.startswith('param:') and o not in ('param:self', 'param:cls') for o in fl.origins(t)):
                continue   # not a caller-supplied budget
            if isinstance(t, ast.Name) and any(n_.kind == 'iter' and any(isinstance(x, ast.Name) and x.id == t.id for x in ast.walk(n_.ast.target))   # type: ignore[union-attr]
                                               and cfg.can_reach(nodes[0], n_) and cfg.can_reach(n_, nodes[0]) for n_ in cfg.nodes):
                continue   # the loop itself binds a new value to the variable in every iteration (a table of grace periods), nothing is re-used
            n += 1
            if not isinstance(t, ast.Name):
                raise Undecided(f'{q}: the timeout of {short(c, 60)} is not a plain variable')
            wn = nodes[0]
            fresh = []
            for w in cfg.nodes:
                if w.kind == 'stmt' and isinstance(w.ast, (ast.Assign, ast.AugAssign, ast.AnnAssign)) and cfg.can_reach(wn, w) and cfg.can_reach(w, wn):
                    tg = w.ast.targets if isinstance(w.ast, ast.Assign) else [w.ast.target]
                    if any(isinstance(x, ast.Name) and x.id == t.id for x in tg) and w.ast.value is not None \
                            and any(o.startswith('call:') and o.split('.')[-1] in CLOCKS for o in fl.origins(w.ast.value)):
                        fresh.append(w)
                    elif any(isinstance(x, ast.Name) and x.id == t.id for x in tg) and w.ast.value is not None and any(isinstance(c2, ast.Call) for c2 in ast.walk(w.ast.value)):
                        raise Undecided(f'{q}: `{short(w.ast)}` recomputes the budget through a call this rule does not follow')
            ctx.require(bool(fresh), f'{q}: the budget `{t.id}` of the repeated {call_name(c)} is re-derived from the clock inside the loop', mod, q,
                        f'stale timeout {t.id} in a repeated wait',
                        f'{short(c, 70)} is repeated in a loop with the caller\'s budget `{t.id}`, which is never recomputed from the clock inside the loop: every '
                        'early wake-up grants the full timeout again, so a test can run (much) longer than its timeout before it is killed', c)
    if n == 0:
        ctx.ok('no asyncio.wait/wait_for with a caller-supplied budget is repeated in a loop (nothing to recompute)')


# ---------------------------------------------------------------------------
# R9: a timed-out test is terminated as a process group
# ---------------------------------------------------------------------------

def _console_table(ctx: RuleCtx, mod: Module, roles: T.Dict[str, str]) -> T.Dict[str, T.Set[bool]]:
    """ConsoleUser member -> the truth values of options.interactive under which SingleTestRunner.console_mode can be that member
    (decision table of the console_mode property of the run object; the constructor argument is followed by signature)."""
    qs = sorted(q for q in mod.funcs() if q.endswith('.console_mode'))
    prop = mod.func('SingleTestRunner.console_mode')
    rets = [n for n in walk_no_nested(prop) if isinstance(n, ast.Return)]
    ch = attr_chain(rets[0].value) if len(rets) == 1 and rets[0].value is not None else None
    if 'property' not in decorator_names(prop) or not ch or len(ch.split('.')) != 3 or not ch.startswith('self.'):
        raise Undecided('SingleTestRunner.console_mode: unknown shape')
    _, holder, attr = ch.split('.')
    init = mod.func('SingleTestRunner.__init__')
    builds = [st for st in ast.walk(init) if isinstance(st, ast.Assign) and len(st.targets) == 1 and attr_chain(st.targets[0]) == f'self.{holder}']
    if len(builds) != 1 or not isinstance(builds[0].value, ast.Call) or not isinstance(builds[0].value.func, ast.Name):
        raise Undecided(f'SingleTestRunner.__init__: self.{holder} is not built by one constructor call')
    cls = builds[0].value.func.id
    if qs != sorted(['SingleTestRunner.console_mode', f'{cls}.{attr}']):
        raise Undecided(f'console_mode is defined in {qs}; this rule reads SingleTestRunner.console_mode -> {cls}.{attr} only')
    g = mod.func(f'{cls}.{attr}')
    if 'property' not in decorator_names(g):
        raise Undecided(f'{cls}.{attr} is not a property')
    out: T.Dict[str, T.Set[bool]] = {}
    follows: T.Dict[str, bool] = {}

    def is_interactive(chain: str) -> bool:
        if chain not in follows:
            follows[chain] = False
            if chain.startswith('self.') and chain.count('.') == 1:
                try:
                    i2, e, _ = _ctor_arg(mod, holder, chain.split('.')[1])
                    follows[chain] = _role_chain(norm(_inline_locals(i2, e)), roles) == 'options.interactive'
                except Undecided:
                    pass
        return follows[chain]
    for p_ in enumerate_paths(_split_conditional_values(_propagated(g)).body):
        if p_.outcome == 'raise':
            continue
        m = _member_name(norm(p_.value), 'ConsoleUser') if p_.outcome == 'return' and p_.value is not None else None
        if m is None:
            raise Undecided(f'{cls}.{attr}: a path does not return a member of ConsoleUser')
        vals: T.Set[bool] = {False, True}
        for ev in p_.events:
            if ev.kind == 'cond':
                a, v = tables.canon(ev.node, ev.val)
                if a.kind == 'truth' and is_interactive(a.args[0]):
                    vals &= {v}
        out.setdefault(m, set()).update(vals)
    return out


def _group_kill(fn: T.Any, c: ast.Call, q: str) -> bool:
    """Is `c` a kill primitive that reaches the whole process tree of the child (os.killpg(<child>.pid, sig), taskkill /T)?"""
    if call_name(c) == 'os.killpg' and c.args:
        tgt = norm(_inline_locals(fn, c.args[0]))
        if not tgt.endswith('.pid') or not tgt.startswith('self.'):
            raise Undecided(f'{q}: os.killpg is applied to {tgt}, not to the pid of the child process')
        return True
    if (call_name(c) or '').split('.')[-1] in ('run', 'call', 'check_call', 'Popen') and c.args and isinstance(c.args[0], (ast.List, ast.Tuple)):
        words = [e.value for e in c.args[0].elts if isinstance(e, ast.Constant) and isinstance(e.value, str)]
        return bool(words) and words[0].lower() == 'taskkill' and '/T' in [w.upper() for w in words]
    return False


def _deferred_kill_loops(f: T.Any, q: str) -> T.Dict[int, T.List[ast.Call]]:
    """Normal form A4 (fixed sequence of calls <-> loop over a table of deferred calls): `for call, ... in TABLE: call()` where every
    definition of the local TABLE is a non-empty list display (later only appended to) whose FIRST entry defers a group-wide kill
    (`partial(os.killpg, <child>.pid, sig)`, `lambda: os.killpg(...)`, `partial(subprocess.run, ['taskkill', .., '/T', ..])`).
    Returns id(loop) -> the calls of the loop variable in its body."""
    out: T.Dict[int, T.List[ast.Call]] = {}
    for loop in [n for n in walk_no_nested(f) if isinstance(n, ast.For)]:
        if not isinstance(loop.iter, ast.Name):
            continue
        tnames = [loop.target.id] if isinstance(loop.target, ast.Name) else [e.id if isinstance(e, ast.Name) else '' for e in loop.target.elts] if isinstance(loop.target, ast.Tuple) else []
        calls = [c for st in loop.body for c in ast.walk(st) if isinstance(c, ast.Call) and isinstance(c.func, ast.Name) and c.func.id in tnames and not c.args and not c.keywords]
        if len({c.func.id for c in calls}) != 1:   # type: ignore[attr-defined]
            continue
        idx = tnames.index(calls[0].func.id)   # type: ignore[attr-defined]
        lname = loop.iter.id
        defs = [st for st in walk_no_nested(f) if isinstance(st, (ast.Assign, ast.AnnAssign)) and st.value is not None
                and any(isinstance(t, ast.Name) and t.id == lname for t in (st.targets if isinstance(st, ast.Assign) else [st.target]))]
        other_stores = [n for n in walk_no_nested(f) if isinstance(n, ast.Name) and n.id == lname and isinstance(n.ctx, (ast.Store, ast.Del))]
        bare = [st for st in walk_no_nested(f) if isinstance(st, ast.AnnAssign) and st.value is None and isinstance(st.target, ast.Name) and st.target.id == lname]
        muts = [c for c in walk_no_nested(f) if isinstance(c, ast.Call) and isinstance(c.func, ast.Attribute) and isinstance(c.func.value, ast.Name) and c.func.value.id == lname]
        if not defs or len(other_stores) != len(defs) + len(bare) or any(c.func.attr not in ('append', 'extend') for c in muts):   # type: ignore[attr-defined]
            raise Undecided(f'{q}: the table {lname} of deferred calls is built in a way this rule does not read')
        good = True
        for d in defs:
            v = d.value
            if not isinstance(v, ast.List) or not v.elts or isinstance(v.elts[0], ast.Starred):
                raise Undecided(f'{q}: the table {lname} of deferred calls is not a non-empty list display: {short(d)}')
            e0: ast.AST = v.elts[0]
            if isinstance(loop.target, ast.Tuple):
                if not isinstance(e0, ast.Tuple) or len(e0.elts) != len(tnames):
                    raise Undecided(f'{q}: first entry of {lname} is not a {len(tnames)}-tuple: {short(e0)}')
                e0 = e0.elts[idx]
            if isinstance(e0, ast.Call) and (call_name(e0) or '').split('.')[-1] == 'partial' and e0.args and not e0.keywords:
                good = good and _group_kill(f, ast.Call(func=e0.args[0], args=list(e0.args[1:]), keywords=[]), q)
            elif isinstance(e0, ast.Lambda) and not e0.args.args and isinstance(e0.body, ast.Call):
                good = good and _group_kill(f, e0.body, q)
            elif attr_chain(e0) is not None and attr_chain(e0) not in ('os.killpg',):
                good = False     # a bound method such as p.kill / p.terminate: the leader only
            else:
                raise Undecided(f'{q}: first entry of {lname} is a deferred call this rule does not read: {short(e0)}')
        if good:
            out[id(loop)] = calls
    return out


def r9(ctx: RuleCtx) -> None:
    mod = _module(ctx, MTEST)
    direct = {q for q, f in mod.funcs().items() if q.count('.') == 1 and any(isinstance(c, ast.Attribute) and attr_chain(c) == 'os.killpg' for c in walk_no_nested(f))}   # called or deferred
    if not direct:
        raise Undecided('no method signals a process group (os.killpg): the termination of a timed-out test is implemented in a way this rule does not read')
    ctx.floor('functions that signal the process group of a test', len(direct), 1)

    def callee(q: str, c: ast.Call) -> T.Optional[str]:
        """`self.h(...)` inside the method q -> the qualified name of h (through the MRO of the class of q)."""
        if isinstance(c.func, ast.Attribute) and isinstance(c.func.value, ast.Name) and c.func.value.id == 'self' and mod.has_cls(q.split('.')[0]):
            r_ = ctx.repo.find_method(mod, mod.cls(q.split('.')[0]), c.func.attr)
            if r_ is not None and r_[0] is mod:
                return f'{r_[1].name}.{c.func.attr}'
        return None

    def reaches(q: str, depth: int = 0) -> bool:
        if q in direct:
            return True
        return depth < 3 and any(isinstance(c, ast.Call) and (callee(q, c) or q) != q and reaches(T.cast(str, callee(q, c)), depth + 1) for c in walk_no_nested(mod.func(q)))

    def always_signals(q: str, depth: int = 0) -> bool:
        """No normal path from the entry of q to a return avoids every group-wide kill (helpers that always signal count as one)."""
        f = mod.func(q)
        cfg = CFG(f)
        table_loops = _deferred_kill_loops(f, q)    # loops over a non-empty table of deferred calls whose first entry is a group-wide kill
        first_calls = {id(c) for calls_ in table_loops.values() for c in calls_}
        kills = cfg.nodes_with_call(lambda c: id(c) in first_calls or _group_kill(f, c, q)
                                    or (depth < 3 and (callee(q, c) or q) != q and always_signals(T.cast(str, callee(q, c)), depth + 1)))
        # before the first entry was called the table cannot be exhausted: the `done` edge of such a loop is not taken on a path that avoids the call
        ok_edge = lambda a, b, lab: lab != 'exc' and not (lab == 'done' and a.kind == 'iter' and id(a.ast) in table_loops)   # noqa: E731
        return cfg.exit_return.id not in cfg.reachable([cfg.entry], kills, edge_ok=ok_edge)
    all_calls = [c for c in ast.walk(mod.tree) if isinstance(c, ast.Call)]

    def timeout_params(q: str, f: T.Any) -> T.Set[str]:
        """Parameters of the method q that receive TestResult.TIMEOUT at some internal call site (a marking helper shared by several results)."""
        params = [a.arg for a in f.args.posonlyargs + f.args.args + f.args.kwonlyargs if a.arg not in ('self', 'cls')]
        if q.count('.') != 1 or any(isinstance(n, ast.Name) and n.id in params and isinstance(n.ctx, ast.Store) for n in walk_no_nested(f)):
            return set()
        out: T.Set[str] = set()
        for c in all_calls:
            if isinstance(c.func, ast.Attribute) and c.func.attr == f.name:
                bound = _positional(c, f)
                for i, a in enumerate(bound or []):
                    if _member_name(norm(a)) == 'TIMEOUT':
                        out.add(params[i])
        return out
    # (b) a result is set to TIMEOUT only on paths that called a killer (a method from which os.killpg is reached)
    sites = 0
    top: T.Set[str] = set()
    for q, f in sorted(mod.funcs().items()):
        marks = [st for st in walk_no_nested(f) if isinstance(st, ast.Assign) and any((attr_chain(t) or '').endswith('.res') for t in st.targets)
                 and (_member_name(norm(st.value)) == 'TIMEOUT' or (isinstance(st.value, ast.Name) and st.value.id in timeout_params(q, f)))]
        if not marks:
            continue
        cfg = CFG(f)
        called: T.Set[str] = set()

        def is_kill(c: ast.Call) -> bool:
            k = callee(q, c)
            if k is None and isinstance(c.func, ast.Attribute):   # another receiver: resolved by a method name that is unique in the module
                cands = [q2 for q2 in mod.funcs() if q2.count('.') == 1 and q2.split('.')[1] == c.func.attr]
                k = cands[0] if len(cands) == 1 else None
            if k is not None and k != q and reaches(k):
                called.add(k)
                return True
            return False
        ks = cfg.nodes_with_call(is_kill)
        top |= called
        for st in marks:
            sites += 1
            bad = [n for n in cfg.stmt_nodes(st) if cfg.can_reach(cfg.entry, n, avoid=ks) and cfg.can_reach(n, cfg.exit_return, avoid=ks)]
            ctx.require(not bad, f'{q}: a run is marked TIMEOUT only on paths that call a method that kills the test ({sorted(called)})', mod, q, 'TIMEOUT reported without killing the test',
                        f'{q} sets the result to TIMEOUT on a path that calls no method from which os.killpg is reached: the test is reported as timed out but keeps running', st)
    if sites == 0:
        raise Undecided('no function assigns TestResult.TIMEOUT to a .res attribute; the timeout report is written in a way this rule does not read')
    # (a) the killer: no normal return before a signal was sent to the whole process group / tree of the child
    for q in sorted(top):
        ctx.require(always_signals(q), f'{q}: every normal return has signalled the process group (or process tree) of the child first', mod, q,
                    'return before the process group of the child was signalled',
                    f'{q} can return normally without having sent any signal to the process group of the test (os.killpg(<child>.pid, ...) / taskkill /T): the processes the '
                    'timed-out test started keep running next to later tests although the run is reported TIMEOUT', mod.func(q))
    killers = sorted(top) or sorted(direct)
    # (c) the child is made the leader of its own session (so that its pid names its process group) whenever a timeout can be armed:
    #     the only skip allowed is under options.interactive, where R3b shows the timeout to be None
    roles = _init_roles(mod, 'SingleTestRunner')
    spawns = [(q, f, c) for q, f in sorted(mod.funcs().items()) for c in walk_no_nested(f) if isinstance(c, ast.Call) and (call_name(c) or '').endswith('create_subprocess_exec')
              and q.startswith('SingleTestRunner.')]
    if not spawns:
        raise Undecided('SingleTestRunner does not start the test through asyncio.create_subprocess_exec')
    for q, f, c in spawns:
        sns, pg, pre = kwarg(c, 'start_new_session'), kwarg(c, 'process_group'), kwarg(c, 'preexec_fn')
        if (isinstance(sns, ast.Constant) and sns.value is True) or (isinstance(pg, ast.Constant) and pg.value == 0 and pg.value is not False):
            ctx.ok(f'{q}: the child is always started in its own session / process group')
            continue
        if sns is not None or pg is not None or any(k.arg is None for k in c.keywords):
            raise Undecided(f'{q}: the session of the child is chosen by arguments this rule does not read')
        if isinstance(pre, ast.IfExp):   # `fn if <posix> else None`: the platform choice is not the subject
            alts = [x for x in (pre.body, pre.orelse) if not (isinstance(x, ast.Constant) and x.value is None)]
            pre = alts[0] if len(alts) == 1 else pre
        pf = None
        if isinstance(pre, ast.Name):
            ds = [n for n in walk_no_nested(f) if isinstance(n, ast.FunctionDef) and n.name == pre.id]
            pf = ds[0] if len(ds) == 1 else None
        elif pre is not None:
            pf = _self_call_method(ctx, mod, 'SingleTestRunner', ast.Call(func=pre, args=[], keywords=[])) if isinstance(pre, ast.Attribute) else None
        if pre is None:
            ctx.violation(mod, q, 'child started without a session of its own', f'{q}: {short(c, 60)} neither passes a preexec_fn that calls os.setsid() nor start_new_session=True, '
                          f'but {killers} signals the group named by the pid of the child: a timed-out test is not terminated', c)
            continue
        if pf is None:
            raise Undecided(f'{q}: preexec_fn={short(pre)} is not a local function or method this rule can read')
        table: T.Optional[T.Dict[str, T.Set[bool]]] = None
        members = _enum_names(mod, 'ConsoleUser')
        bad_paths: T.List[str] = []
        pf_n = _propagated(pf)
        if pf in list(walk_no_nested(f)):
            # a closure: single-definition locals of the enclosing function that it captures are read as their defining expression
            own = {n.id for n in ast.walk(pf) if isinstance(n, ast.Name) and isinstance(n.ctx, ast.Store)} | {a.arg for a in pf.args.args + pf.args.kwonlyargs}
            cap = tables._Subst({k: v for k, v in _single_defs(f).items() if k not in own})
            pf_n.body = [cap.visit(st) for st in pf_n.body]
            ast.fix_missing_locations(pf_n)
        for p_ in enumerate_paths(_split_conditional_values(pf_n).body):
            if p_.outcome == 'raise' or any(call_name(x) == 'os.setsid' for x in p_.calls()):
                continue
            inter: T.Optional[bool] = None
            allowed = set(members)
            unknown: T.List[str] = []
            for ev in p_.events:
                if ev.kind != 'cond':
                    continue
                a, v = tables.canon(ev.node, ev.val)
                if a.kind == 'truth' and _role_chain(a.args[0], roles) == 'options.interactive':
                    inter = v if inter is None or inter == v else inter
                elif a.kind in ('is', 'cmp') and 'self.console_mode' in a.args and (a.kind == 'is' or a.args[0] == 'eq'):
                    other = [x for x in (a.args if a.kind == 'is' else a.args[1:]) if x != 'self.console_mode']
                    m = _member_name(other[0], 'ConsoleUser') if len(other) == 1 else None
                    if m is None or m not in members:
                        unknown.append(repr(a))
                    else:
                        allowed &= ({m} if v else set(members) - {m})
                else:
                    unknown.append(repr(a))
            if inter is True:
                continue
            if allowed != set(members):
                table = table if table is not None else _console_table(ctx, mod, roles)
                if not set(table) <= set(members):
                    raise Undecided('console_mode returns members outside ConsoleUser')
                if not any(False in table.get(m, set()) for m in allowed):
                    continue   # these console modes occur only under options.interactive
            if unknown:
                raise Undecided(f'{q}: {pf.name} skips os.setsid() under {unknown[0]}, which this rule cannot relate to options.interactive')
            bad_paths.append(p_.describe())
        ctx.require(not bad_paths, f'{q}: {pf.name} skips os.setsid() only under options.interactive (where no timeout is armed)', mod, q,
                    'os.setsid() skipped for a test that can time out',
                    f'{pf.name} (preexec_fn of the test process) does not call os.setsid() on the path [{bad_paths[0] if bad_paths else ""}], which does not imply options.interactive: '
                    f'a test with an armed timeout is not the leader of a process group, so os.killpg(<child>.pid) in {killers} cannot terminate it', pf)


RULES = [
    Rule('C12.R1', 'serial isolation: barriers around a non-parallel test, one scheduling per iteration, final barrier', r1),
    Rule('C12.R2', 'job bound: run() under the num_processes semaphore, cancellation flag, is_parallel implication', r2),
    Rule('C12.R3a', 'classification tables of the protocol classes (exit status, should_fail inversion, TAP)', r3a),
    Rule('C12.R3b', 'timeout table of SingleTestRunner.__init__', r3b),
    Rule('C12.R3c', 'tests serialised by descending priority; scheduling fields in their slots', r3c),
    Rule('C12.R4', 'tallies, total_failure_count, exit status and summary agree', r4),
    Rule('C12.R5', '--slice i/n: parser roles and tests[SLICE-1::NUM_SLICES]', r5),
    Rule('C12.R8', 'job request: MESON_TESTTHREADS default, absent variables never override, job count validated positive', r8),
    Rule('C12.R7', 'a timeout budget re-used in a loop is recomputed from the clock (complete_all)', r7),
    Rule('C12.R6', 'selection: each candidate at most once; --suite decides before the setup exclusions', r6),
    Rule('C12.R9', 'a timed-out test is terminated: kill on every TIMEOUT path, group-wide signal before any return, own session unless interactive', r9),
]
