"""C01 - build definitions evaluate as the language reference prescribes (DESIGN section 2 C01).

The rules live in helper modules:
  c01_sym.py     path-wise copy propagation: normalised expression shape of a row's outcome / conditions / effects
  c01_parser.py  R1  grammar ladder
  c01_ops.py     R2  operator spelling chain, R3 typing tables
  c01_eval.py    R4  evaluation order / short-circuit, R5 dispatch
  c01_imm.py     R6  immutability (may-alias effect analysis)
  c01_lit.py     R7  literals, R8 documented method sets
  c01_args.py    R9  index bounds tables, R10 optional-argument presence, R11-R14, R15 unflattened arbitrary values, R16 range() bounds table
"""
from __future__ import annotations

from ..report import Rule
from . import c01_parser, c01_eval, c01_ops, c01_imm, c01_lit, c01_args

EXPLANATION = (
    'Decides structural clauses of C01 on every path of the anchored functions. '
    'R1: each parser level e1..e10 (+statement, method_call, index_call) maps (tokens consumed) -> (tree built, by node FIELD, operands numbered in evaluation order) '
    'exactly as the reference ladder: assignment/ternary < or < and < comparison (no chaining) < + - < * / % (left assoc.) < unary (no stacking) < call/method/index < '
    'paren/array/dict < atoms; in_ternary is tested before, set during both arm parses and reset after; accept/accept_any/expect consume iff matched. '
    'R2: for all 13 binary and 2 unary operators + indexing the chain source text -> lexer tables -> token id -> parser map -> node string -> operator.MAPPING -> MesonOperator '
    '-> evaluator call (receiver/argument roles, swap exactly for in/not in) -> holder implementation is the identity on the operator meaning (held value left, container for in; '
    '`not (a in b)` is `a not in b`; an in/not in that is handed to a same-class scan which calls itself on the loop element - descent into nested arrays - is a violation). '
    'R3: the effective operator table of Integer/String/Boolean/Array/Dict/RangeHolder (supported set, operand guard) equals the reference typing table; zero test of // and %; '
    'index errors become InvalidArguments; exact-type ==/!=; operator_call and typed_operator enforce the guard; BOOL/NOT only on booleans. '
    'R4: and/or/ternary/if evaluate the right operand / arm / block only under the documented polarity, left before right; foreach maps Continue/BreakRequest to continue/break '
    'around exactly the body, and no evaluator function that can stand between a loop body and the raising statement (closed world: methods of InterpreterBase/Interpreter on a call cycle '
    'through evaluate_codeblock, dispatch through method references included - e.g. the runner of a subdir() file) catches these requests without re-raising them. R5: every node class a statement position can hold has an arm in evaluate_statement, subclasses before bases, bool tested before int, '
    'int/bool/str/list/dict registered to their holders with exact-type lookup first. R6: no method/operator/lambda of the primitive holders and no evaluator function mutates '
    'a held value in place (may-alias analysis); held_object and self.variables have one writer; += stores a new holder; assignment deep-copies MutableInterpreterObject; '
    'holders that change their held object carry the mutable marker. R7: escapes are decoded iff the token is single-line, the escape regex accepts exactly the list of Syntax.md, '
    'dict.keys() is sorted. R8: registered methods of str/array/dict/int/bool equal docs/yaml/elementary/*.yml and each is argument-checked with tag-preserving wrappers. '
    'R9: the decision table of array.get over the ordering worlds of (index, -len) and (index, len) returns held[index] exactly for -len <= index < len, else the fallback / InvalidArguments; str.format placeholders likewise for index < len. R10: in every interpreter function/method with an optional positional argument typed `object` (get_variable, dict.get, array.get, summary, subproject.get_variable, meson.get_*_property) the argument is never tested by truthiness, also in same-class helpers it is handed to. '
    'R11: get_variable() and subproject.get_variable() return <interpreter>.variables[name] on the found row (not an accessor that also resolves builtins or raises another exception) and handle exactly KeyError on the miss row. '
    'R12: in the evaluator a raising `key in table` guard and the following store into the same table use the same key expression (duplicate dictionary keys / keyword arguments are errors). R13: the regex of str.underscorify matches exactly the single characters outside [a-zA-Z0-9]. '
    'R14: the scan loop of array.contains() (also its recursive helper) returns early only with a value known to be true on that path. R7 also: dict.values() takes its order from sorted(keys). '
    'R15: function_call and method_call flatten positional arguments only under `not getattr(callee, FLAG, False)` with one and the same FLAG, and every core-language callable whose typed_pos_args '
    'admit `object` (set_variable, get_variable, subproject.get_variable, array.contains/get, dict.get, str.format) carries the decorator that sets FLAG (an array value stays that array). '
    'R16: the decision table of range() over the ordering worlds of (start, 0), (stop, start), (step, 1) for the three call forms raises exactly for start < 0, stop < start or step < 1 and otherwise returns '
    'RangeHolder(start, stop, step) with the defaults start=0, step=1 (docs/yaml/functions/range.yaml). '
    'Helpers are read by role, not by name: private/static methods of the MRO and private module-level functions are spliced in (also at `raise helper()` and in argument position), '
    '`getattr(x, \'lit\')` is `x.lit`, loops over constant tables are unrolled, tables built by one-expression builder functions are folded; '
    'accept_any over a pairing table (token id -> node class / tuple / NamedTuple record) or a literal tuple of ids is read as one case per declared id, TABLE[token] / its items / fields resolved per case; '
    '`raise self.helper(..)` in expect/block_expect is the class every return of the helper constructs. '
    'Does NOT decide: the value a particular program yields, arithmetic on concrete numbers, .format()/f-string rendering (including which nested strings stringifyUserArguments quotes: '
    'the reference gives no table for that text), semantics delegated to Python str/list methods, '
    'subdir()/subproject() variable scoping (only the passage of break/continue through subdir() is decided, R4), what break/continue do outside any loop or across subproject(), and that `int` operand guards also admit Python bools (documented legacy for integers).')
ASSUMPTIONS = [
    'Python operators on int/str/list/dict/range and codecs unicode_escape behave as documented',
    'callees that are not resolved inside the analysed class return fresh values (R6 may-alias analysis); unknown idioms end undecided, not violated',
    'the reference ladder / operator / typing tables in sa/rules/c01_*.py encode Syntax.md and docs/yaml/elementary/*.yml (provenance noted at each table)',
    'every decorator wrapper of interpreterbase/decorators.py uses functools.wraps, so a flag set by noArgsFlattening anywhere in the decorator stack is visible on the registered callable (R15)',
    'token ids are read off the folded lexer tables under the selection discipline whose shape R2 checks in Lexer.lex (specifications in list order, first match wins, single characters as fallback, keyword promotion)',
]
TECHNIQUE = ('decision tables by path enumeration with path-wise def-use resolution (normalised outcome/effect shapes compared with reference shapes, operands by role), '
             'constant folding of lexer / parser / operator tables, regex-language facts (literal languages, first-character sets, alternative structure), '
             'class-hierarchy and decorator structure, CFG reachability, may-alias effect analysis')

RULES = [
    Rule('C01.R1', 'grammar ladder e1..e10: precedence, associativity, no chaining / stacking / nested ternary', c01_parser.r1),
    Rule('C01.R2', 'operator spelling chain: text -> token -> node -> MesonOperator -> holder implementation', c01_ops.r2),
    Rule('C01.R3', 'strict typing tables of the primitive holders', c01_ops.r3),
    Rule('C01.R4', 'evaluation order and short-circuit of and/or/ternary/if, foreach break/continue', c01_eval.r4),
    Rule('C01.R5', 'evaluate_statement dispatch: exhaustive, subclass first; bool before int; holder registration', c01_eval.r5),
    Rule('C01.R6', 'immutability: no in-place mutation of held values; += stores a new holder; assignment copies mutable objects', c01_imm.r6),
    Rule('C01.R7', 'literals: escapes decoded in single-line strings only, exactly the documented escapes; dict.keys() sorted', c01_lit.r7),
    Rule('C01.R8', 'documented method sets of str/array/dict/int/bool are registered and argument-checked', c01_lit.r8),
    Rule('C01.R9', 'documented index bounds: array.get accepts exactly -len <= i < len, format placeholders i < len', c01_args.r9),
    Rule('C01.R10', 'presence of an optional object-typed argument is decided by identity with None, never by truthiness', c01_args.r10),
    Rule('C01.R12', 'a duplicate-key guard tests the key under which the entry is stored', c01_args.r12),
    Rule('C01.R13', 'str.underscorify replaces exactly the characters outside [a-zA-Z0-9]', c01_args.r13),
    Rule('C01.R14', 'array.contains() scans every element: the search loop is left early only on success', c01_args.r14),
    Rule('C01.R11', 'get_variable(name, fallback) reads exactly the variable table; a miss is the KeyError that selects the fallback', c01_args.r11),
    Rule('C01.R15', 'a core-language callable that takes an arbitrary value (object) receives its positional arguments unflattened', c01_args.r15),
    Rule('C01.R16', 'range() fails exactly for start < 0, stop < start or step < 1; documented defaults', c01_args.r16),
]
