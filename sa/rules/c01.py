"""C01 - build definitions evaluate as the language reference prescribes (DESIGN section 2 C01)."""
from __future__ import annotations

from ..report import Rule
from . import c01_parser, c01_eval, c01_ops, c01_imm, c01_lit

EXPLANATION = 'wip'
ASSUMPTIONS: list = []
TECHNIQUE = 'symbolic path summaries of the parser levels'

RULES = [
    Rule('C01.R1', 'grammar ladder e1..e10: precedence, associativity, no chaining / stacking / nested ternary', c01_parser.r1),
    Rule('C01.R2', 'operator spelling chain: text -> token -> node -> MesonOperator -> holder implementation', c01_ops.r2),
    Rule('C01.R3', 'strict typing tables of the primitive holders', c01_ops.r3),
    Rule('C01.R4', 'evaluation order and short-circuit of and/or/ternary/if, foreach break/continue', c01_eval.r4),
    Rule('C01.R5', 'evaluate_statement dispatch: exhaustive, subclass first; bool before int; holder registration', c01_eval.r5),
    Rule('C01.R6', 'immutability: no in-place mutation of held values; += stores a new holder; assignment copies mutable objects', c01_imm.r6),
    Rule('C01.R7', 'literals: escapes decoded in single-line strings only, exactly the documented escapes; dict.keys() sorted', c01_lit.r7),
    Rule('C01.R8', 'documented method sets of str/array/dict/int/bool are registered and argument-checked', c01_lit.r8),
]
