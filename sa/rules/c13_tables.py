"""C13.R2 (classification tables) and C13.R3 (merge polarity) — decision tables over
canonical atoms compared with reference denotations on every world."""
from __future__ import annotations

import ast
import re
import typing as T

from ..core import Module, Undecided, attr_chain, norm, short
from ..report import RuleCtx
from ..paths import enumerate_paths
from .. import tables
from ..tables import Atom
from ..consteval import fold_expr, Regex
from .. import rx
from . import c13_norm

ARGLIST = 'mesonbuild/arglist.py'
CLIKE = 'mesonbuild/compilers/mixins/clike.py'
ROOT = 'CompilerArgs'

# ---------------------------------------------------------------------------------------------
# R2
# ---------------------------------------------------------------------------------------------
# Which Dedup class a class-level table feeds (arglist.py, comments above the tables: "must be
# de-duped by returning 2" = Dedup.OVERRIDDEN, "... returning 1" = Dedup.UNIQUE).
TABLE_ROLE = {
    'dedup2_prefixes': 'OVERRIDDEN', 'dedup2_suffixes': 'OVERRIDDEN', 'dedup2_args': 'OVERRIDDEN',
    'dedup1_prefixes': 'UNIQUE', 'dedup1_suffixes': 'UNIQUE', 'dedup1_args': 'UNIQUE', 'dedup1_regex': 'UNIQUE',
}

# How a table may be consulted, by its role in the class (a table of prefixes is a startswith/`in` table ...).
TABLE_KIND = {
    'dedup2_prefixes': ('prefix', 'eq'), 'dedup1_prefixes': ('prefix', 'eq'), 'dedup2_suffixes': ('suffix',), 'dedup1_suffixes': ('suffix',),
    'dedup2_args': ('eq',), 'dedup1_args': ('eq',), 'dedup1_regex': ('regex', 'regex-match', 'regex-full'),
}

# Reference content of the C-like tables.  Provenance: statement of property C13 ("every batch of -I/-L arguments goes in
# front; of identical override-type arguments only the highest-precedence occurrence survives: the front-most for -I/-L,
# the last for -D/-U/-isystem; a repeat of a once-only argument (-lfoo, a library file, -pthread ...) is dropped") and
# DESIGN section 2 C13.R2.  'exact': the folded table must equal the set; 'at least': it must contain it (more once-only
# spellings may be added without breaking the contract).
REF_TABLES: T.Dict[str, T.Tuple[str, T.FrozenSet[str]]] = {
    'prepend_prefixes': ('exact', frozenset({'-I', '-L'})),
    'dedup2_prefixes': ('exact', frozenset({'-I', '-isystem', '-L', '-D', '-U'})),
    'dedup2_suffixes': ('exact', frozenset()),
    'dedup2_args': ('exact', frozenset()),
    'dedup1_prefixes': ('at least', frozenset({'-l', '-Wl,-l', '-Wl,-rpath,', '-Wl,-rpath-link,'})),
    'dedup1_suffixes': ('at least', frozenset({'.lib', '.dll', '.so', '.dylib', '.a'})),
    'dedup1_args': ('at least', frozenset({'-c', '-S', '-E', '-pipe', '-pthread', '-Wl,--export-dynamic'})),
}

# Language facts about the versioned-shared-library regex (comment above it in arglist.py: "Match a .so of the form
# path/to/libfoo.so.0.1.0"): membership of words / emptiness of intersections, decided on the sa.rx NFA.
RX_MEMBERS = ['libfoo.so', 'libfoo.so.0', 'libfoo.so.0.1', 'libfoo.so.0.1.0', '/libfoo.so.12.3.45', '\\libz.so.1', 'path/to/libfoo.so.0.1.0', '/usr/lib/libz.so.1']
RX_DISJOINT = {
    r'lib[a-z]+\.so(\.[0-9]+)(\.[0-9]+)(\.[0-9]+)(\.[0-9]+)': 'more than three version components',
    r'[a-km-z]+\.so(\.[0-9]+)?': 'a file name without the lib prefix',
    r'lib[a-z]+\.so\.[a-np-z]+': 'a non-numeric version component',
    r'lib[a-z]+\.so\.[0-9]+[a-z]+': 'trailing text after the version (must be anchored at the end)',
    r'lib[a-z]+\.(a|dll|lib|dylib)': 'other library suffixes (they belong to dedup1_suffixes)',
}


class ArgTest(T.NamedTuple):
    kind: str      # eq | prefix | suffix | regex
    table: str


def _table_of(e: ast.AST) -> T.Optional[str]:
    c = attr_chain(e)
    if c and c.count('.') == 1 and c.split('.')[0] in ('cls', 'self'):
        return c.split('.')[1]
    return None


def _arg_test(a: Atom, arg: str = 'ARG1') -> T.Optional[ArgTest]:
    if a.kind == 'in' and a.args[0] == arg:
        t = _table_of(ast.parse(a.args[1], mode='eval').body)
        return ArgTest('eq', t) if t else None
    if a.kind == 'truth':
        e = ast.parse(a.args[0], mode='eval').body
        if isinstance(e, ast.Call) and isinstance(e.func, ast.Attribute) and len(e.args) >= 1 and not e.keywords:
            if e.func.attr in ('startswith', 'endswith') and norm(e.func.value) == arg and len(e.args) == 1:
                t = _table_of(e.args[0])
                return ArgTest('prefix' if e.func.attr == 'startswith' else 'suffix', t) if t else None
            how = {'search': 'regex', 'match': 'regex-match', 'fullmatch': 'regex-full'}.get(e.func.attr)
            if how and norm(e.func.value) == 're' and len(e.args) == 2 and norm(e.args[1]) == arg:
                t = _table_of(e.args[0])
                return ArgTest(how, t) if t else None
            if how and len(e.args) == 1 and norm(e.args[0]) == arg:
                t = _table_of(e.func.value)
                return ArgTest(how, t) if t else None
    return None


def _resolve(ctx: RuleCtx, rel: str, cls: str, meth: str) -> T.Tuple[Module, ast.ClassDef, T.Any]:
    mod = ctx.repo.module(rel)
    r = ctx.repo.find_method(mod, mod.cls(cls), meth)
    if r is None:
        raise Undecided(f'{cls}.{meth} not found along the class hierarchy')
    return r


def _fold_table(ctx: RuleCtx, rel: str, cls: str, name: str) -> T.Any:
    mod = ctx.repo.module(rel)
    v = fold_expr(ctx.repo, mod, ast.parse(f'{cls}.{name}', mode='eval').body)
    if isinstance(v, Regex):
        return v
    if isinstance(v, str) or not isinstance(v, (tuple, list, set, frozenset)) or not all(isinstance(x, str) for x in v):
        raise Undecided(f'{cls}.{name} does not fold to a collection of strings: {v!r}')
    return tuple(v)


def _anchors(pattern: str, flags: int) -> T.Tuple[bool, bool]:
    """(ends with an end anchor, starts with `\\A`/`^` or one path separator) from the regex syntax tree."""
    tree = list(rx.parse(pattern, flags))
    if not tree:
        return False, False
    op, av = tree[-1]
    tail = str(op) == 'AT' and str(av) in ('AT_END', 'AT_END_STRING')

    def alt_ok(items: T.List[T.Any]) -> bool:
        if len(items) != 1:
            return False
        o, a = items[0]
        if str(o) == 'AT':
            return str(a) in ('AT_BEGINNING', 'AT_BEGINNING_STRING')
        if str(o) == 'LITERAL':
            return chr(a) in '/\\'
        if str(o) == 'IN':
            return rx.class_chars(a, rx.BASE_SAMPLES) <= {'/', '\\'}
        return False
    o, a = tree[0]
    if str(o) == 'SUBPATTERN':
        inner = list(a[-1])
        if len(inner) == 1 and str(inner[0][0]) == 'BRANCH':
            head = all(alt_ok(list(b)) for b in inner[0][1][1])
        else:
            head = alt_ok(inner)
    elif str(o) == 'BRANCH':
        head = all(alt_ok(list(b)) for b in a[1]) and len(tree) > 1
    else:
        head = alt_ok([tree[0]])
    def any_at(t: T.Any, names: T.Tuple[str, ...]) -> bool:
        for o2, a2 in t:
            if str(o2) == 'AT' and str(a2) in names:
                return True
            if str(o2) == 'SUBPATTERN' and any_at(a2[-1], names):
                return True
            if str(o2) == 'BRANCH' and any(any_at(b, names) for b in a2[1]):
                return True
            if str(o2) in ('MAX_REPEAT', 'MIN_REPEAT', 'POSSESSIVE_REPEAT') and any_at(a2[2], names):
                return True
            if str(o2) in ('ASSERT', 'ASSERT_NOT', 'ATOMIC_GROUP') and any_at(a2[1] if str(o2) != 'ATOMIC_GROUP' else a2, names):
                return True
        return False
    # 'no' needs positive evidence: no end (begin) anchor anywhere in the tree; an anchor in an unfamiliar place is 'unknown'
    tail3 = 'yes' if tail else ('unknown' if any_at(tree, ('AT_END', 'AT_END_STRING')) else 'no')
    first_consumes_other = str(tree[0][0]) in ('LITERAL', 'IN', 'ANY', 'NOT_LITERAL') and not head
    head3 = 'yes' if head else ('no' if (not any_at(tree, ('AT_BEGINNING', 'AT_BEGINNING_STRING')) and first_consumes_other) else 'unknown')
    return tail3, head3  # type: ignore[return-value]


def _path_outcome(p: T.Any, subst: T.Callable[[ast.AST], ast.AST]) -> T.Tuple[T.Any, ...]:
    """Like tables.default_outcome, but a returned local (`result = X ... return result`) is replaced by the value of
    its reaching definition on this path (single-exit style <-> early returns)."""
    if p.outcome == 'return' and isinstance(p.value, ast.Name):
        name = p.value.id
        for ev in reversed(p.events):
            st = ev.node
            if ev.kind != 'stmt' or st is None:
                continue
            if isinstance(st, ast.Assign) and any(isinstance(t, ast.Name) and t.id == name for t in st.targets):
                return ('return', norm(subst(st.value)))
            if isinstance(st, ast.AnnAssign) and isinstance(st.target, ast.Name) and st.target.id == name and st.value is not None:
                return ('return', norm(subst(st.value)))
            if any(isinstance(n, ast.Name) and n.id == name and isinstance(n.ctx, (ast.Store, ast.Del)) for n in ast.walk(st)):
                break
    return tables.default_outcome(p, subst)


class Memo(T.NamedTuple):
    cache: ast.AST          # the subscripted cache expression (cls._cache / module dict)
    key: ast.AST
    value: ast.AST          # the expression that is cached
    node: ast.AST


def _strip_memo(fn: T.Any) -> T.Tuple[T.Any, T.Optional[Memo]]:
    """Hand-written memoisation removed:  try: return C[K] / except KeyError: v = C[K] = E; return v   and
    if K in C: return C[K]; ...; C[K] = E; return ...    become the plain computation of E.  Returns the function to
    read and what was cached under which key (None: no cache idiom)."""
    import copy
    fn = c13_norm.inline_locals(fn)          # `key = (cls, arg)` named first
    body = [x for x in fn.body if not (isinstance(x, ast.Expr) and isinstance(x.value, ast.Constant))]
    hit: T.Optional[ast.Subscript] = None
    rest: T.Optional[T.List[ast.stmt]] = None
    if body and isinstance(body[0], ast.Try) and len(body[0].body) == 1 and isinstance(body[0].body[0], ast.Return) \
            and isinstance(body[0].body[0].value, ast.Subscript) and len(body[0].handlers) == 1 and not body[0].orelse and not body[0].finalbody \
            and attr_chain(body[0].handlers[0].type) == 'KeyError':
        hit = body[0].body[0].value
        rest = list(body[0].handlers[0].body) + body[1:]
    elif body and isinstance(body[0], ast.If) and not body[0].orelse and len(body[0].body) == 1 and isinstance(body[0].body[0], ast.Return) \
            and isinstance(body[0].body[0].value, ast.Subscript) and isinstance(body[0].test, ast.Compare) and len(body[0].test.ops) == 1 \
            and isinstance(body[0].test.ops[0], ast.In) and norm(body[0].test.comparators[0]) == norm(body[0].body[0].value.value) \
            and norm(body[0].test.left) == norm(body[0].body[0].value.slice):
        hit = body[0].body[0].value
        rest = body[1:]
    if hit is None or rest is None:
        return fn, None
    slot = norm(hit)
    value: T.Optional[ast.AST] = None
    new_rest: T.List[ast.stmt] = []
    for st in copy.deepcopy(rest):
        if isinstance(st, ast.Assign) and any(norm(t) == slot for t in st.targets):
            if value is not None:
                raise Undecided(f'{fn.name}: the cache slot {slot} is stored twice')
            value = st.value
            st.targets = [t for t in st.targets if norm(t) != slot]
            if not st.targets:
                continue
        new_rest.append(st)
    if value is None:
        raise Undecided(f'{fn.name}: a cache lookup {slot} without a store of the computed value')

    class L(ast.NodeTransformer):
        def visit_Subscript(self, n: ast.Subscript) -> ast.AST:
            if norm(n) == slot and isinstance(n.ctx, ast.Load):
                return ast.copy_location(copy.deepcopy(value), n)  # type: ignore[arg-type]
            return self.generic_visit(n)
    fn2 = copy.copy(fn)
    fn2.body = [L().visit(x) for x in new_rest]
    ast.fix_missing_locations(fn2)
    return fn2, Memo(hit.value, hit.slice, value, hit)


def _check_memo(ctx: RuleCtx, mod: Module, qn: str, fn: T.Any, memo: T.Optional[Memo]) -> None:
    """A hand-written cache of a classifier must be keyed on everything the cached value depends on: the argument and, as
    the class tables differ between the flavours (CompilerArgs / CLike / D), the class - unless every class that
    overrides one of the tables read also has its own cache object."""
    if memo is None:
        return
    reads_cls = sorted({n.attr for n in ast.walk(memo.value) if isinstance(n, ast.Attribute) and attr_chain(n.value) in ('cls', 'self')})
    params = [a.arg for a in fn.args.args if a.arg not in ('self', 'cls')]
    reads_params = sorted({n.id for n in ast.walk(memo.value) if isinstance(n, ast.Name) and n.id in params})
    key_names = {n.id for n in ast.walk(memo.key) if isinstance(n, ast.Name)}
    missing_params = [p_ for p_ in reads_params if p_ not in key_names]
    cache_chain = attr_chain(memo.cache)
    per_class = False
    if reads_cls and not ({'cls', 'self'} & key_names):
        if cache_chain and cache_chain.split('.')[0] in ('cls', 'self') and cache_chain.count('.') == 1:
            # shared unless every family class that overrides a table it depends on also defines its own cache
            cname = cache_chain.split('.')[1]
            overriders: T.List[str] = []
            own: T.List[str] = []
            for rel in (ARGLIST, CLIKE, 'mesonbuild/compilers/d.py'):
                if not ctx.repo.exists(rel):
                    continue
                m2 = ctx.repo.module(rel)
                for q, c in m2.classes().items():
                    if any(m2.has_assign(t_, c) for t_ in reads_cls) and q != ROOT:
                        overriders.append(q)
                        if m2.has_assign(cname, c):
                            own.append(q)
            per_class = bool(overriders) and overriders == own
        if not per_class:
            ctx.violation(mod, qn, memo.node, f'the result cached in `{norm(memo.node)}` is computed from {", ".join("cls." + x for x in reads_cls)}, which differs between '
                          f'the argument-list flavours, but the cache key `{norm(memo.key)}` does not contain the class: the first flavour that classifies an argument '
                          'decides for all others (a -I cached by a plain CompilerArgs is then appended by a C-like list)', memo.node)
            return
    if missing_params:
        ctx.violation(mod, qn, memo.node, f'the result cached in `{norm(memo.node)}` depends on {missing_params}, which is not part of the key `{norm(memo.key)}`', memo.node)
        return
    ctx.ok(f'{qn}: hand-written cache `{norm(memo.node)}` is keyed on everything the cached value reads')


def r2(ctx: RuleCtx) -> None:
    # (a) order of the classification chain, on every world of its atoms
    mod, cdef, fn = _resolve(ctx, CLIKE, 'CLikeCompilerArgs', '_can_dedup')
    qn = f'{cdef.name}._can_dedup'
    fn, memo = _strip_memo(fn)
    _check_memo(ctx, mod, qn, fn, memo)
    fn = _inline(mod, cdef.name, fn)
    tab = tables.extract(fn, name=qn, pure={'search', 'match', 'fullmatch'}, outcome=_path_outcome)
    tests: T.Dict[Atom, ArgTest] = {}
    for a in tab.atoms():
        t = _arg_test(a)
        if t is None or t.table not in TABLE_ROLE:
            raise Undecided(f'{qn}: atom outside the reference vocabulary: {a!r}')
        tests[a] = t
    ctx.floor('_can_dedup: tests on class tables', len(tests), 4)
    prefix_tables = {t.table for t in tests.values() if t.kind == 'prefix'}
    if not tests or not prefix_tables:
        raise Undecided(f'{qn}: no startswith test on a class table is visible in the classification chain')
    n = 0
    bad: T.Dict[str, T.Tuple[tables.Row, str, str, str]] = {}
    for w in tab.worlds():
        # `arg in P` implies `arg.startswith(P)`
        if any(t.kind == 'eq' and t.table in prefix_tables and w[a] and
               any(t2 == ArgTest('prefix', t.table) and not w[a2] for a2, t2 in tests.items()) for a, t in tests.items()):
            continue
        bare = any(w[a] for a, t in tests.items() if t.kind == 'eq' and t.table in prefix_tables)
        ovr = any(w[a] for a, t in tests.items() if TABLE_ROLE[t.table] == 'OVERRIDDEN' and not (t.kind == 'eq' and t.table in prefix_tables))
        uni = any(w[a] for a, t in tests.items() if TABLE_ROLE[t.table] == 'UNIQUE' and not (t.kind == 'eq' and t.table in prefix_tables))
        want = 'NO_DEDUP' if bare else 'OVERRIDDEN' if ovr else 'UNIQUE' if uni else 'NO_DEDUP'
        rows = tab.fire(w)
        if len(rows) != 1:
            raise Undecided(f'{qn}: {len(rows)} rows fire in one world')
        n += 1
        got = rows[0].outcome[1].split('.')[-1] if rows[0].outcome[0] == 'return' else str(rows[0].outcome)
        if rows[0].outcome[0] != 'return' or rows[0].outcome[1] not in ('Dedup.NO_DEDUP', 'Dedup.UNIQUE', 'Dedup.OVERRIDDEN'):
            raise Undecided(f'{qn}: a row yields `{rows[0].outcome[-1]}`, not a member of Dedup (classification done elsewhere?)')
        if got != want:
            desc = ', '.join(f'{t.kind}:{t.table}' for a, t in tests.items() if w[a]) or 'no test holds'
            bad.setdefault(repr(rows[0]), (rows[0], got, want, desc))
    for key, (row, got, want, desc) in bad.items():
        ctx.violation(mod, qn, key, f'classification chain returns {got} where the contract (word that is itself a prefix > OVERRIDDEN > UNIQUE > NO_DEDUP) '
                      f'requires {want}, e.g. when [{desc}]', row.path.events[-1].node if row.path.events else fn)
    if not bad:
        ctx.ok(f'{qn}: {len(tab.rows)} rows agree with bare-prefix > OVERRIDDEN > UNIQUE > NO_DEDUP on {n} worlds of {len(tests)} atoms')

    # every table is consulted in the way its role allows, and a prefix table is also tested for "is itself the prefix"
    for a_, t in tests.items():
        ctx.require(t.kind in TABLE_KIND[t.table], f'{qn}: {t.table} is consulted as {t.kind}', mod, qn, repr(a_),
                    f'{t.table} is consulted with a {t.kind} test (`{a_!r}`); a table of that role is a {"/".join(TABLE_KIND[t.table])} table', fn)
    for pt in sorted(prefix_tables):
        ctx.require(ArgTest('eq', pt) in tests.values(), f'{qn}: a word that is itself an entry of {pt} is tested for', mod, qn, f'bare-prefix test of {pt}',
                    f'{pt} is used with startswith but there is no `arg in cls.{pt}` test: an option given as a separate word (`-D FOO`) '
                    'would be de-duplicated and its value orphaned', fn)
    ctx.require(prefix_tables == {'dedup1_prefixes', 'dedup2_prefixes'}, f'{qn}: both prefix tables are consulted with startswith', mod, qn, 'prefix tables',
                f'tables consulted with startswith: {sorted(prefix_tables)}; expected dedup1_prefixes and dedup2_prefixes', fn)

    # (b) _should_prepend is equivalent to "starts with an entry of prepend_prefixes", on every world of its atoms
    pmod, pcdef, pfn = _resolve(ctx, CLIKE, 'CLikeCompilerArgs', '_should_prepend')
    pqn = f'{pcdef.name}._should_prepend'
    pfn, pmemo = _strip_memo(pfn)
    _check_memo(ctx, pmod, pqn, pfn, pmemo)
    pfn = _inline(pmod, pcdef.name, pfn)
    ptab = tables.extract(pfn, name=pqn, outcome=_path_outcome)
    ptests: T.Dict[Atom, ArgTest] = {}

    def learn(e: ast.AST) -> None:
        if isinstance(e, ast.BoolOp):
            for v in e.values:
                learn(v)
        elif isinstance(e, ast.UnaryOp) and isinstance(e.op, ast.Not):
            learn(e.operand)
        elif isinstance(e, ast.Constant) and isinstance(e.value, bool):
            pass
        else:
            a, _ = tables.canon(e, True)
            t = _arg_test(a)
            if t is None:
                raise Undecided(f'{pqn}: test outside the reference vocabulary: {a!r}')
            ptests[a] = t
    for a in ptab.atoms():
        t0 = _arg_test(a)
        if t0 is None:
            raise Undecided(f'{pqn}: test outside the reference vocabulary: {a!r}')
        ptests[a] = t0
    for r_ in ptab.rows:
        if r_.outcome[0] != 'return':
            raise Undecided(f'{pqn}: leaves by {r_.outcome}')
        learn(ast.parse(r_.outcome[1], mode='eval').body)

    def truth(e: ast.AST, w: T.Dict[Atom, bool]) -> bool:
        """Truth of a returned and/or/not combination of atoms in world w (no argument value involved)."""
        if isinstance(e, ast.BoolOp):
            vals = [truth(v, w) for v in e.values]
            return all(vals) if isinstance(e.op, ast.And) else any(vals)
        if isinstance(e, ast.UnaryOp) and isinstance(e.op, ast.Not):
            return not truth(e.operand, w)
        if isinstance(e, ast.Constant):
            return bool(e.value)
        a, pol = tables.canon(e, True)
        return w[a] == pol
    want_atom = [a for a, t in ptests.items() if t == ArgTest('prefix', 'prepend_prefixes')]
    bare_atom = [a for a, t in ptests.items() if t == ArgTest('eq', 'prepend_prefixes')]
    import itertools
    diff = None
    nw = 0
    for bits in itertools.product((False, True), repeat=len(ptests)):
        w = dict(zip(ptests, bits))
        rows = ptab.fire({a: v for a, v in w.items() if a in ptab.atoms()})
        if len(rows) != 1:
            raise Undecided(f'{pqn}: {len(rows)} rows fire in one world')
        nw += 1
        if bare_atom and want_atom and w[bare_atom[0]] and not w[want_atom[0]]:
            continue        # `arg in P` implies `arg.startswith(P)`
        got = truth(ast.parse(rows[0].outcome[1], mode='eval').body, w)
        if not want_atom or got != (w[want_atom[0]] and not (bare_atom and w[bare_atom[0]])):
            diff = ', '.join(f'{t.kind}:{t.table}={w[a]}' for a, t in ptests.items())
            break
    ctx.require(diff is None, f'{pqn}: true exactly when the argument starts with an entry of prepend_prefixes ({nw} worlds)', pmod, pqn, pfn,
                f'_should_prepend is not equivalent to arg.startswith(cls.prepend_prefixes) (differs when {diff}): '
                'arguments of the wrong kind are put in front / -I, -L are appended', pfn)

    # a prefix given as a word of its own (`-I`, `dir`) is defined by the word after it (comment in _can_dedup): it is not
    # de-duplicated, and it must not be moved to the front either - that separates it from its operand and changes the
    # relative order of arguments that cannot be de-duplicated
    if diff is None and not bare_atom:
        amod_ = ctx.repo.module(ARGLIST)
        iadd = _inline(amod_, ROOT, amod_.func(f'{ROOT}.__iadd__'))
        if any(isinstance(n, ast.Attribute) and n.attr == 'prepend_prefixes' for n in ast.walk(iadd)):
            raise Undecided(f'{ROOT}.__iadd__ consults prepend_prefixes itself; cannot tell whether a bare prefix is kept in place')
        ctx.violation(pmod, pqn, 'bare prefix is prepended', f'_should_prepend is true for an argument that is itself an entry of prepend_prefixes (no `arg in cls.prepend_prefixes` '
                      'exclusion here or in __iadd__): `-I`, `dir` given as two words is torn apart (`-I` goes in front, `dir` stays behind)', pfn)
    elif diff is None:
        ctx.ok(f'{pqn}: an argument that is itself a prepend prefix stays in place')

    # (c) folded tables of the C-like class against the reference sets
    cmod = ctx.repo.module(CLIKE)
    ccls = cmod.cls('CLikeCompilerArgs')
    folded: T.Dict[str, T.Any] = {}
    for name, (mode, ref) in REF_TABLES.items():
        v = _fold_table(ctx, CLIKE, 'CLikeCompilerArgs', name)
        if isinstance(v, Regex):
            raise Undecided(f'CLikeCompilerArgs.{name} is a regular expression')
        folded[name] = got_set = frozenset(v)
        if mode == 'exact':
            ok = got_set == ref
            msg = f'CLikeCompilerArgs.{name} is {sorted(got_set)}; the contract requires exactly {sorted(ref)}' + \
                  (f' (missing {sorted(ref - got_set)})' if ref - got_set else '') + (f' (extra {sorted(got_set - ref)})' if got_set - ref else '')
        else:
            ok = ref <= got_set
            msg = f'CLikeCompilerArgs.{name} lacks {sorted(ref - got_set)}: these once-only arguments would be repeated on the command line'
        ctx.require(ok, f'CLikeCompilerArgs.{name} {"equals" if mode == "exact" else "contains"} the reference {sorted(ref)}', cmod, 'CLikeCompilerArgs',
                    f'table {name}', msg, ccls)
    ctx.floor('class tables compared with the reference', len(folded), 7)
    ctx.require(folded['prepend_prefixes'] <= folded['dedup2_prefixes'], 'every prepend prefix is also an OVERRIDDEN prefix (front-most occurrence survives)',
                cmod, 'CLikeCompilerArgs', 'prepend_prefixes within dedup2_prefixes',
                f'prepend prefixes {sorted(folded["prepend_prefixes"] - folded["dedup2_prefixes"])} are not de-duplicated: repeated -I/-L pile up in front', ccls)
    once = folded['dedup1_prefixes'] | folded['dedup1_args']
    clash = sorted(x for x in once if any(x.startswith(p) for p in folded['dedup2_prefixes']))
    ctx.require(not clash, 'no once-only spelling is shadowed by an OVERRIDDEN prefix', cmod, 'CLikeCompilerArgs', 'dedup1 entries under dedup2 prefixes',
                f'{clash} start with an OVERRIDDEN prefix and can never be classified UNIQUE', ccls)

    # (d) language of the versioned shared library regex
    rxv = _fold_table(ctx, CLIKE, 'CLikeCompilerArgs', 'dedup1_regex')
    if not isinstance(rxv, Regex):
        raise Undecided('dedup1_regex does not fold to a regular expression')
    amod = ctx.repo.module(ARGLIST)
    # the regex is applied with re.search: it must carry its own anchors (sa.rx decides languages of full matches)
    hows = sorted({t.kind for t in tests.values() if t.table == 'dedup1_regex'})
    if len(hows) != 1:
        raise Undecided(f'{qn}: dedup1_regex is consulted in {len(hows)} different ways')
    how = hows[0]      # regex (search) | regex-match (tried at the start only) | regex-full
    tail3, head3 = _anchors(rxv.pattern, rxv.flags)
    if 'unknown' in (tail3, head3):
        raise Undecided(f'dedup1_regex {rxv.pattern!r}: anchors are not in a recognised position (end: {tail3}, start: {head3})')
    tail_ok, head_ok = tail3 == 'yes', head3 == 'yes'
    ctx.require(tail_ok, 'dedup1_regex is anchored at the end of the argument', amod, ROOT, 'dedup1_regex end anchor',
                f'dedup1_regex {rxv.pattern!r} is searched without an end anchor: any argument merely containing lib*.so is treated as once-only', amod.cls(ROOT))
    ctx.require(head_ok, 'dedup1_regex starts at the beginning of the argument or after a path separator', amod, ROOT, 'dedup1_regex start anchor',
                f'dedup1_regex {rxv.pattern!r} can start in the middle of a file name (no \\A / path separator alternative in front)', amod.cls(ROOT))
    # language recognised by the *use* of the regex: search may start anywhere (the pattern's own start anchor, checked above,
    # restricts where), match/fullmatch start at the first character of the argument
    used = ('(?s:.*)(?:' + rxv.pattern + ')') if how == 'regex' else rxv.pattern
    for word in RX_MEMBERS:
        ctx.require(rx.full_matches(used, word, rxv.flags), f'dedup1_regex as used ({how}) accepts {word!r}', amod, ROOT, f'dedup1_regex accepts {word}',
                    f'dedup1_regex {rxv.pattern!r}, applied with {"re.search" if how == "regex" else "match at the start of the argument"}, does not recognise {word!r} '
                    '(a versioned shared library, also when given with its directory, must be once-only)', amod.cls(ROOT))
    for other, why in RX_DISJOINT.items():
        wit = rx.intersects(rxv.pattern, other, rxv.flags, 0)
        ctx.require(wit is None, f'dedup1_regex rejects {why}', amod, ROOT, f'dedup1_regex rejects: {why}',
                    f'the language of dedup1_regex {rxv.pattern!r} contains {wit!r} ({why})', amod.cls(ROOT))


# ---------------------------------------------------------------------------------------------
# R3
# ---------------------------------------------------------------------------------------------
DEDUP_KINDS = ('Dedup.NO_DEDUP', 'Dedup.UNIQUE', 'Dedup.OVERRIDDEN')
MUT = {'append', 'appendleft', 'extend', 'extendleft', 'insert', 'add', 'update'}


KEEP_CALLS = c13_norm.KEEP_CALLS     # vocabulary of the reference, never inlined


def _inline(mod: Module, cls: str, fn: T.Any, depth: int = 2) -> T.Any:
    return c13_norm.normalise(mod, cls, fn)


def _eff(st: ast.AST) -> T.Optional[str]:
    if isinstance(st, ast.Expr) and isinstance(st.value, ast.Call):
        return 'call ' + norm(st.value)
    if isinstance(st, ast.Assign) and len(st.targets) == 1:
        return f'{norm(st.targets[0])} := {norm(st.value)}'
    if isinstance(st, ast.AnnAssign) and st.value is not None:
        return f'{norm(st.target)} := {norm(st.value)}'
    if isinstance(st, ast.AugAssign):
        return f'{norm(st.target)} {st.op.__class__.__name__}= {norm(st.value)}'
    return None


def _opaque_on(p: T.Any) -> str:
    """First construct on a path whose effect on the queues is not modelled: a call of another method of self, or
    self / self.pre / self.post handed to a callee or bound to another name."""
    for ev in p.events:
        e = ev.node
        if e is None:
            continue
        roots = [e.iter] if ev.kind == 'iter' else [i.context_expr for i in e.items] if ev.kind == 'with' else [e]
        for r in roots:
            for n in ast.walk(r):
                if isinstance(n, ast.Call):
                    f = n.func
                    if isinstance(f, ast.Attribute) and attr_chain(f.value) == 'self' and f.attr not in KEEP_CALLS:
                        return short(n, 60)
                    for a in list(n.args) + [k.value for k in n.keywords]:
                        if attr_chain(a) in ('self', 'self.pre', 'self.post') and norm(f) not in ('len', 'reversed', 'iter', 'list', 'bool', 'enumerate'):
                            if not (isinstance(f, ast.Attribute) and attr_chain(f.value) is not None and f.attr in ('extend', 'extendleft')):
                                return short(n, 60)
            if ev.kind == 'stmt' and isinstance(e, (ast.Assign, ast.AnnAssign)) and getattr(e, 'value', None) is not None \
                    and attr_chain(e.value) in ('self.pre', 'self.post') \
                    and isinstance(e.targets[0] if isinstance(e, ast.Assign) else e.target, ast.Name):
                return short(e, 60)
    return ''


def _queues_emptied(ctx: RuleCtx, mod: Module, qn: str, fn: T.Any) -> None:
    paths = [p for p in enumerate_paths(fn.body, unroll=1) if p.outcome in ('return', 'fall')]
    if not paths:
        raise Undecided(f'{qn}: no returning path')
    bad: T.Dict[str, str] = {}
    for p in paths:
        state = {'pre': 'unknown', 'post': 'unknown'}
        for ev in p.events:
            e = ev.node
            if ev.kind == 'cond':
                c = attr_chain(e) if e is not None else None
                if c in ('self.pre', 'self.post'):
                    state[c[5:]] = 'nonempty' if ev.val else 'empty'
                elif isinstance(e, ast.Call) and norm(e.func) == 'len' and len(e.args) == 1 and attr_chain(e.args[0]) in ('self.pre', 'self.post'):
                    state[attr_chain(e.args[0])[5:]] = 'nonempty' if ev.val else 'empty'  # type: ignore[index]
            elif ev.kind == 'stmt' and e is not None:
                if isinstance(e, ast.Delete):
                    for t in e.targets:
                        if isinstance(t, ast.Subscript) and attr_chain(t.value) in ('self.pre', 'self.post') and norm(t.slice) == ':':
                            state[attr_chain(t.value)[5:]] = 'empty'  # type: ignore[index]
                if isinstance(e, ast.Expr) and isinstance(e.value, ast.Call) and isinstance(e.value.func, ast.Attribute):
                    c = attr_chain(e.value.func.value)
                    if c in ('self.pre', 'self.post'):
                        m = e.value.func.attr
                        if m == 'clear':
                            state[c[5:]] = 'empty'
                        elif m in MUT:
                            state[c[5:]] = 'nonempty'
                elif isinstance(e, (ast.Assign, ast.AnnAssign)):
                    tg = e.targets if isinstance(e, ast.Assign) else [e.target]
                    for t in tg:
                        c = attr_chain(t)
                        if c in ('self.pre', 'self.post') and e.value is not None:
                            v = e.value
                            empty = (isinstance(v, (ast.List, ast.Tuple)) and not v.elts) or \
                                (isinstance(v, ast.Call) and not v.args and attr_chain(v.func) in ('collections.deque', 'deque', 'list'))
                            state[c[5:]] = 'empty' if empty else 'nonempty'
        opaque = _opaque_on(p)
        for q, s in state.items():
            if s != 'empty':
                if opaque:
                    raise Undecided(f'{qn}: cannot tell whether self.{q} is emptied on the path [{p.describe()[:120]}]: it runs `{opaque}`')
                bad.setdefault(q, p.describe()[:200])
    for q, d in bad.items():
        ctx.violation(mod, qn, f'self.{q} after flush', f'flush_pre_post can return with entries left in self.{q} (path: {d}): the list stays unflushed '
                      f'and the entries are merged a second time by the next flush', fn)
    if not bad:
        ctx.ok(f'{qn}: self.pre and self.post are empty at the end of all {len(paths)} returning paths')


def _split_fast(fn: T.Any, qn: str) -> T.Tuple[ast.If, bool, T.List[ast.stmt], T.List[ast.stmt]]:
    """(the If on needs_override_check, polarity of the flag in the fast arm, fast body, slow statements)."""
    for i, st in enumerate(fn.body):
        if isinstance(st, ast.Expr) and isinstance(st.value, ast.Constant):
            continue
        if isinstance(st, ast.If):
            a, v = tables.canon(st.test, True)
            if a == Atom('truth', ('self.needs_override_check',)):
                rest = list(fn.body[i + 1:])
                if not v:      # if not flag: fast ... (must leave) ; slow follows
                    if st.orelse:
                        if rest:
                            raise Undecided(f'{qn}: statements after an if/else on needs_override_check')
                        return st, False, st.body, st.orelse
                    if not (st.body and isinstance(st.body[-1], ast.Return)):
                        raise Undecided(f'{qn}: fast path does not end in return')
                    return st, False, st.body, rest
                else:          # if flag: slow ... else fast
                    if st.orelse and not rest:
                        return st, True, st.orelse, st.body
                    if st.body and isinstance(st.body[-1], ast.Return) and not st.orelse:
                        return st, True, rest, st.body
                    raise Undecided(f'{qn}: unknown arrangement of the slow path')
        raise Undecided(f'{qn}: first statement is not the test of needs_override_check')
    raise Undecided(f'{qn}: empty body')


def _source(loop: ast.For) -> T.Tuple[str, str]:
    """(store, direction) of a loop's iterable."""
    it = loop.iter
    c = attr_chain(it)
    if c in ('self.pre', 'self.post', 'self._container'):
        return c[5:], 'forward'
    if isinstance(it, ast.Call) and norm(it.func) == 'reversed' and len(it.args) == 1 and attr_chain(it.args[0]) in ('self.pre', 'self.post', 'self._container'):
        return attr_chain(it.args[0])[5:], 'backward'  # type: ignore[index]
    if isinstance(it, ast.Subscript) and attr_chain(it.value) in ('self.pre', 'self.post', 'self._container') and norm(it.slice) == '::-1':
        return attr_chain(it.value)[5:], 'backward'  # type: ignore[index]
    raise Undecided(f'flush_pre_post: loop over {short(it)} is not a walk over one of the three stores')


class LoopFacts(T.NamedTuple):
    store: str
    direction: str
    out: T.Optional[str]        # collection the kept elements go to
    end: str                    # 'back' | 'front'
    tested: T.FrozenSet[str]    # override sets consulted
    added: T.Optional[str]      # override set filled


def _loop_facts(ctx: RuleCtx, mod: Module, qn: str, fn: T.Any, loop: ast.For) -> T.Optional[LoopFacts]:
    store, direction = _source(loop)
    if not isinstance(loop.target, ast.Name):
        raise Undecided(f'{qn}: loop target {short(loop.target)}')
    x = loop.target.id
    tab = tables.extract(fn, body=loop.body, effects=_eff, inline=True, inline_calls={'_can_dedup'}, name=f'{qn}:{store}-loop')
    kinds: T.Dict[Atom, str] = {}
    sets: T.Dict[Atom, str] = {}
    for a in tab.atoms():
        if a.kind == 'is' and a.args[1] in DEDUP_KINDS and a.args[0] in (f'self._can_dedup({x})', f'type(self)._can_dedup({x})'):
            kinds[a] = a.args[1]
        elif a.kind == 'in' and a.args[0] == x and a.args[1].isidentifier():
            sets[a] = a.args[1]
        else:
            raise Undecided(f'{qn}: {store} loop tests {a!r}, outside the reference vocabulary')
    outs: T.Set[T.Tuple[str, str]] = set()
    adds: T.Set[str] = set()
    bad = False
    n = 0
    import itertools
    for kind, bits in itertools.product(DEDUP_KINDS, itertools.product((False, True), repeat=len(sets))):
        w = {a: (m == kind) for a, m in kinds.items()}
        w.update(dict(zip(sets, bits)))
        rows = tab.fire(w)
        if len(rows) != 1:
            raise Undecided(f'{qn}: {store} loop: {len(rows)} rows fire in one world')
        n += 1
        r = rows[0]
        kept: T.List[T.Tuple[str, str]] = []
        added: T.List[str] = []
        for e in r.effects:
            m = re.fullmatch(r'call (\w+)\.(append|appendleft|add)\(%s\)' % re.escape(x), e)
            m0 = re.fullmatch(r'call (\w+)\.insert\(0, %s\)' % re.escape(x), e)
            if m and m.group(2) == 'add':
                added.append(m.group(1))
            elif m:
                kept.append((m.group(1), 'back' if m.group(2) == 'append' else 'front'))
            elif m0:
                kept.append((m0.group(1), 'front'))
            elif re.fullmatch(r'\w+ := (self|type\(self\))\._can_dedup\(%s\)' % re.escape(x), e):
                continue
            else:
                raise Undecided(f'{qn}: {store} loop: effect `{e}` is outside the reference vocabulary')
        known = any(w[a] for a in sets)
        want_keep = not known
        if (len(kept) == 1) != want_keep or len(kept) > 1:
            which = [s for a, s in sets.items() if w[a]]
            ctx.violation(mod, qn, repr(r), f'{store} walk: an element {"already in " + "/".join(which) if known else "not seen before"} is '
                          f'{"kept" if kept else "dropped"}; the merge must keep exactly the elements not named in an override set', r.path.events[-1].node if r.path.events else loop)
            bad = True
            continue
        outs.update(kept)
        if not known and store != '_container':
            want_add = kind == 'Dedup.OVERRIDDEN'
            if bool(added) != want_add:
                ctx.violation(mod, qn, repr(r), f'{store} walk: a kept element of kind {kind} is '
                              f'{"" if added else "not "}recorded in the override set (only OVERRIDDEN arguments may suppress later/earlier duplicates)',
                              r.path.events[-1].node if r.path.events else loop)
                bad = True
                continue
        adds.update(added)
    if bad:
        return None
    if len(outs) != 1 or len(adds) > 1:
        raise Undecided(f'{qn}: {store} loop keeps elements in {sorted(outs)} and records them in {sorted(adds)}')
    (out, end), = outs
    if store != '_container' and not adds:
        ctx.violation(mod, qn, loop.iter, f'{store} walk never records OVERRIDDEN arguments: duplicates are not removed', loop)
        return None
    ctx.ok(f'{qn}: walk over self.{store} ({direction}): keeps elements not in {sorted(sets.values())}, into {out} at the {end}'
           f'{", records OVERRIDDEN ones in " + next(iter(adds)) if adds else ""} ({n} worlds)')
    return LoopFacts(store, direction, out, end, frozenset(sets.values()), next(iter(adds)) if adds else None)


class Seg(T.NamedTuple):
    store: str                       # pre | post | _container
    order: str                       # 'store' (elements in the order of the store) | 'reversed'
    winner: T.Optional[str]          # which of several identical OVERRIDDEN entries survives: first | last | None (no de-duplication)
    tested: T.FrozenSet[int]         # override sets consulted (object ids)
    fills: T.Optional[int]           # override set filled
    node: ast.AST


class ListVal:
    def __init__(self, segs: T.Optional[T.List[Seg]] = None) -> None:
        self.segs: T.List[Seg] = list(segs or [])


class SetVal:
    def __init__(self, name: str, members: T.Optional[T.FrozenSet[int]] = None) -> None:
        self.name = name
        self.members: T.FrozenSet[int] = members if members is not None else frozenset([id(self)])   # base sets this value is the union of
        self.declared: T.Optional[str] = None      # store whose OVERRIDDEN entries the set names by construction (set comprehension)


class IndexMap:
    """`{x: i for i, x in enumerate(self.S)}`: for every element of store S the index of its LAST occurrence (later keys replace earlier ones)."""
    def __init__(self, store: str, which: str) -> None:
        self.store = store
        self.which = which


EMPTY_LISTS = ('[]', 'list()', 'collections.deque()', 'deque()')
STORE_CHAINS = ('self.pre', 'self.post', 'self._container')


class _Reported(Exception):
    """a violation was reported while reading a value; the rest of the slow path is not judged"""


def _slow_path(ctx: RuleCtx, mod: Module, qn: str, fn: T.Any, slow: T.List[ast.stmt]) -> bool:
    try:
        return _slow_path_read(ctx, mod, qn, fn, slow)
    except _Reported:
        return False


def _slow_path_read(ctx: RuleCtx, mod: Module, qn: str, fn: T.Any, slow: T.List[ast.stmt]) -> bool:
    """Symbolic reading of the slow path: every local list is a sequence of *segments* (which store it came from, in which
    order, which duplicate wins, which override sets were consulted); the statements only move segments around.  The value
    finally stored in self._container is compared with  [pre: first wins] + [container minus both sets] + [post: last wins]."""
    env: T.Dict[str, T.Any] = {}
    final: T.Optional[T.List[Seg]] = None
    n_walks = 0

    def flip(segs: T.List[Seg]) -> T.List[Seg]:
        return [x._replace(order='store' if x.order == 'reversed' else 'reversed') for x in reversed(segs)]

    def set_of(e: ast.AST) -> T.Optional[SetVal]:
        if isinstance(e, ast.Name) and isinstance(env.get(e.id), SetVal):
            return env[e.id]
        if isinstance(e, ast.BinOp) and isinstance(e.op, ast.BitOr):
            l, r = set_of(e.left), set_of(e.right)
            if l is not None and r is not None:
                return SetVal('|', l.members | r.members)
        if isinstance(e, ast.Call) and isinstance(e.func, ast.Attribute) and e.func.attr == 'union' and not e.keywords:
            parts = [set_of(e.func.value)] + [set_of(x) for x in e.args]
            if all(p_ is not None for p_ in parts):
                return SetVal('|', frozenset().union(*[p_.members for p_ in parts]))  # type: ignore[union-attr]
        if isinstance(e, ast.Call) and norm(e.func) in ('set', 'frozenset') and len(e.args) == 1 and not e.keywords:
            return set_of(e.args[0])
        return None

    def enum_source(g: ast.comprehension) -> T.Optional[T.Tuple[str, str, str]]:
        """`for i, x in enumerate(self.S)` -> (S, i, x)."""
        it, tg = g.iter, g.target
        if isinstance(it, ast.Call) and norm(it.func) == 'enumerate' and len(it.args) == 1 and not it.keywords and attr_chain(it.args[0]) in STORE_CHAINS \
                and isinstance(tg, ast.Tuple) and len(tg.elts) == 2 and all(isinstance(x, ast.Name) for x in tg.elts) and not g.is_async:
            return attr_chain(it.args[0])[5:], tg.elts[0].id, tg.elts[1].id  # type: ignore[index,attr-defined]
        return None

    def declared_set(e: ast.SetComp) -> SetVal:
        """`{x for x in <walk over store S> if <classifier>(x) is Dedup.OVERRIDDEN}`: the override set of S, stated instead of collected."""
        if len(e.generators) != 1 or e.generators[0].is_async or not isinstance(e.generators[0].target, ast.Name) or norm(e.elt) != e.generators[0].target.id:
            raise Undecided(f'{qn}: set comprehension `{short(e, 60)}` is not a plain filter of one store')
        g = e.generators[0]
        x = g.target.id
        store, _ = _source(ast.For(target=g.target, iter=g.iter, body=[], orelse=[]))
        if len(g.ifs) != 1:
            raise Undecided(f'{qn}: set comprehension `{short(e, 60)}` does not select by one kind test')
        at, pol = tables.canon(g.ifs[0], True)
        if at.kind == 'cmp' and at.args[0] == 'eq' and at.args[1] in DEDUP_KINDS:
            at = Atom('is', (at.args[2], at.args[1]))
        if not (at.kind == 'is' and at.args[0] in (f'self._can_dedup({x})', f'type(self)._can_dedup({x})') and at.args[1] in DEDUP_KINDS and pol):
            raise Undecided(f'{qn}: filter `{short(g.ifs[0], 60)}` of a set comprehension is outside the reference vocabulary')
        if at.args[1] != 'Dedup.OVERRIDDEN':
            ctx.violation(mod, qn, e, f'{store}: the override set is made of the {at.args[1]} arguments (only OVERRIDDEN arguments may suppress later/earlier duplicates)', e)
            raise _Reported()
        sv = SetVal('?')
        sv.declared = store
        return sv

    def enum_seg(e: T.Any, src: T.Tuple[str, str, str]) -> T.List[Seg]:
        """`[x for i, x in enumerate(self.S) if x not in OVR or <i is the first/last index of x in S>]`, OVR the declared override
        set of S: every argument outside OVR is kept, of the others the first/last occurrence - the same segment a walk builds."""
        store, i, x = src
        if norm(e.elt) != x or len(e.generators[0].ifs) != 1:
            raise Undecided(f'{qn}: comprehension `{short(e, 60)}` is not a plain filter of one store')
        cond = e.generators[0].ifs[0]
        parts = cond.values if isinstance(cond, ast.BoolOp) and isinstance(cond.op, ast.Or) else [cond]
        sv: T.Optional[SetVal] = None
        winner: T.Optional[str] = None
        for part in parts:
            at, pol = tables.canon(part, True)
            if at.kind == 'in' and at.args[0] == x and not pol and sv is None:
                sv = set_of(ast.parse(at.args[1], mode='eval').body)
                if sv is not None:
                    continue
            if at.kind == 'cmp' and at.args[0] == 'eq' and pol and i in at.args[1:] and winner is None:
                rhs = ast.parse(at.args[2] if at.args[1] == i else at.args[1], mode='eval').body
                if isinstance(rhs, ast.Subscript) and isinstance(rhs.value, ast.Name) and isinstance(env.get(rhs.value.id), IndexMap) and norm(rhs.slice) == x \
                        and env[rhs.value.id].store == store:
                    winner = env[rhs.value.id].which
                    continue
                if isinstance(rhs, ast.Call) and isinstance(rhs.func, ast.Attribute) and rhs.func.attr == 'index' and attr_chain(rhs.func.value) == f'self.{store}' \
                        and len(rhs.args) == 1 and norm(rhs.args[0]) == x and not rhs.keywords:
                    winner = 'first'
                    continue
            raise Undecided(f'{qn}: filter `{short(part, 60)}` of a comprehension is outside the reference vocabulary')
        if sv is None or winner is None or len(sv.members) != 1 or sv.declared != store:
            raise Undecided(f'{qn}: comprehension `{short(e, 60)}` does not select occurrences by the declared override set of self.{store}')
        return [Seg(store, 'store', winner, sv.members, next(iter(sv.members)), e)]

    def comp_seg(e: T.Any) -> T.List[Seg]:
        if len(e.generators) == 1 and enum_source(e.generators[0]) is not None:
            return enum_seg(e, enum_source(e.generators[0]))  # type: ignore[arg-type]
        if len(e.generators) != 1 or e.generators[0].is_async or not isinstance(e.generators[0].target, ast.Name) or norm(e.elt) != e.generators[0].target.id:
            raise Undecided(f'{qn}: comprehension `{short(e, 60)}` is not a plain filter of one store')
        g = e.generators[0]
        x = g.target.id
        fake = ast.For(target=g.target, iter=g.iter, body=[], orelse=[])
        store, direction = _source(fake)
        tested: T.Set[int] = set()
        for cond in g.ifs:
            parts = cond.values if isinstance(cond, ast.BoolOp) and isinstance(cond.op, ast.And) else [cond]
            for part in parts:
                at, pol = tables.canon(part, True)
                sv = set_of(ast.parse(at.args[1], mode='eval').body) if at.kind == 'in' and at.args[0] == x and not pol else None
                if sv is not None:
                    tested |= sv.members
                else:
                    raise Undecided(f'{qn}: filter `{short(part, 60)}` of a comprehension is outside the reference vocabulary')
        return [Seg(store, 'store' if direction == 'forward' else 'reversed', None, frozenset(tested), None, e)]

    def seq_of(e: ast.AST) -> T.List[Seg]:
        if isinstance(e, ast.Name):
            v = env.get(e.id)
            if isinstance(v, ListVal):
                return list(v.segs)
            raise Undecided(f'{qn}: `{e.id}` is not a list built by the walks')
        if isinstance(e, (ast.ListComp, ast.GeneratorExp)):
            return comp_seg(e)
        if isinstance(e, ast.Call) and not e.keywords:
            f = norm(e.func)
            if f == 'reversed' and len(e.args) == 1:
                return flip(seq_of(e.args[0]))
            if f in ('list', 'tuple', 'iter', 'collections.deque', 'deque') and len(e.args) == 1:
                return seq_of(e.args[0])
            if f in EMPTY_LISTS or (f in ('list', 'collections.deque', 'deque') and not e.args):
                return []
            if isinstance(e.func, ast.Attribute) and e.func.attr == 'copy' and not e.args:
                return seq_of(e.func.value)
        if isinstance(e, (ast.List, ast.Tuple)):
            out: T.List[Seg] = []
            for x in e.elts:
                if not isinstance(x, ast.Starred):
                    raise Undecided(f'{qn}: literal element in `{short(e, 60)}`')
                out += seq_of(x.value)
            return out
        if isinstance(e, ast.BinOp) and isinstance(e.op, ast.Add):
            return seq_of(e.left) + seq_of(e.right)
        if isinstance(e, ast.Subscript) and norm(e.slice) == ':':
            return seq_of(e.value)
        if isinstance(e, ast.Subscript) and norm(e.slice) == '::-1':
            return flip(seq_of(e.value))
        raise Undecided(f'{qn}: `{short(e, 60)}` is not a known way of combining the kept lists')

    def bind(t: ast.AST, v: ast.AST) -> None:
        nonlocal final
        if isinstance(t, (ast.Tuple, ast.List)) and isinstance(v, (ast.Tuple, ast.List)) and len(t.elts) == len(v.elts):
            vals = [value_of(x) for x in v.elts]
            for tt, vv in zip(t.elts, vals):
                store_to(tt, vv)
            return
        store_to(t, value_of(v))

    def value_of(v: ast.AST) -> T.Any:
        if isinstance(v, ast.Name) and isinstance(env.get(v.id), (ListVal, SetVal)):
            return env[v.id]              # alias: the same object
        if set_of(v) is not None:
            return set_of(v)
        if isinstance(v, ast.Call) and norm(v) in ('set()', 'frozenset()'):
            return SetVal('?')
        if isinstance(v, ast.Set) and not v.elts:
            return SetVal('?')
        if isinstance(v, ast.SetComp):
            return declared_set(v)
        if isinstance(v, ast.DictComp) and len(v.generators) == 1 and not v.generators[0].ifs:
            src = enum_source(v.generators[0])
            if src is not None and norm(v.key) == src[2] and norm(v.value) == src[1]:
                return IndexMap(src[0], 'last')
            raise Undecided(f'{qn}: `{short(v, 60)}` is not an index map of one store')
        return ListVal(seq_of(v))

    def store_to(t: ast.AST, val: T.Any) -> None:
        nonlocal final
        if isinstance(t, ast.Name):
            if isinstance(val, SetVal) and val.name == '?':
                val.name = t.id
            env[t.id] = val
        elif attr_chain(t) == 'self._container' or (isinstance(t, ast.Subscript) and attr_chain(t.value) == 'self._container' and norm(t.slice) == ':'):
            if not isinstance(val, ListVal):
                raise Undecided(f'{qn}: _container is assigned something that is not a list')
            final = list(val.segs)
        elif attr_chain(t) == 'self.needs_override_check':
            pass
        else:
            raise Undecided(f'{qn}: slow path assigns `{short(t)}`')

    for st in slow:
        if isinstance(st, ast.Expr) and isinstance(st.value, ast.Constant):
            continue
        if isinstance(st, ast.Pass):
            continue
        if isinstance(st, ast.Assign) and attr_chain(st.targets[0]) == 'self.needs_override_check':
            continue
        if isinstance(st, ast.Assign) and len(st.targets) == 1:
            bind(st.targets[0], st.value)
            continue
        if isinstance(st, ast.AnnAssign) and st.value is not None:
            bind(st.target, st.value)
            continue
        if isinstance(st, ast.For):
            f = _loop_facts(ctx, mod, qn, fn, st)
            if f is None:
                return False
            n_walks += 1
            out = env.get(f.out or '')
            if not isinstance(out, ListVal):
                raise Undecided(f'{qn}: the {f.store} walk collects into `{f.out}`, which is not a list initialised in this function')
            sets = []
            for nm in sorted(f.tested) + ([f.added] if f.added else []):
                if not isinstance(env.get(nm), SetVal):
                    raise Undecided(f'{qn}: the {f.store} walk uses `{nm}`, which is not a set initialised in this function')
                sets.append(env[nm])
            fwd = f.direction == 'forward'
            seg = Seg(f.store, 'store' if fwd == (f.end == 'back') else 'reversed', ('first' if fwd else 'last') if f.added else None,
                      frozenset().union(*[env[nm].members for nm in f.tested]) if f.tested else frozenset(), id(env[f.added]) if f.added else None, st)
            if f.end == 'back':
                out.segs.append(seg)
            else:
                out.segs.insert(0, seg)
            continue
        if isinstance(st, ast.AugAssign) and isinstance(st.op, ast.Add) and isinstance(st.target, ast.Name) and isinstance(env.get(st.target.id), ListVal):
            env[st.target.id].segs += seq_of(st.value)
            continue
        if isinstance(st, ast.AugAssign) and isinstance(st.op, ast.Add) and attr_chain(st.target) == 'self._container':
            raise Undecided(f'{qn}: slow path extends _container in place')
        if isinstance(st, ast.Expr) and isinstance(st.value, ast.Call) and isinstance(st.value.func, ast.Attribute):
            c = st.value
            recv = attr_chain(c.func.value)
            m = c.func.attr
            if recv in ('self.pre', 'self.post') and m == 'clear':
                continue
            if recv is not None and isinstance(env.get(recv), ListVal) and len(c.args) == 1 and not c.keywords:
                if m == 'extend':
                    env[recv].segs += seq_of(c.args[0])
                    continue
                if m == 'extendleft':
                    env[recv].segs[0:0] = flip(seq_of(c.args[0]))
                    continue
        if isinstance(st, ast.Delete) and all(isinstance(t, ast.Subscript) and attr_chain(t.value) in ('self.pre', 'self.post') for t in st.targets):
            continue
        raise Undecided(f'{qn}: slow path statement `{short(st, 60)}` is outside the reference vocabulary')

    ctx.floor('walks in the slow path', n_walks, 1)
    if final is None:
        raise Undecided(f'{qn}: the slow path never assigns self._container')
    by_store: T.Dict[str, T.List[Seg]] = {}
    for sg in final:
        by_store.setdefault(sg.store, []).append(sg)
    for store in ('pre', '_container', 'post'):
        if store not in by_store:
            ctx.violation(mod, qn, f'self.{store} in the merged list', f'the value stored in self._container is built from {[x.store for x in final] or "nothing"}: '
                          f'the entries of self.{store} never reach it (everything queued there is lost)', fn)
            return False
        if len(by_store[store]) > 1:
            ctx.violation(mod, qn, f'self.{store} in the merged list', f'self.{store} is merged {len(by_store[store])} times into the new _container', fn)
            return False
    pre, cont, post = by_store['pre'][0], by_store['_container'][0], by_store['post'][0]
    order = [x.store for x in final]
    ctx.require(order == ['pre', '_container', 'post'], f'{qn}: result is [pre kept] + [container kept] + [post kept]', mod, qn, 'assembly order',
                f'assembly order is wrong: the merged list is {" + ".join(order)}; it must be pre + surviving container entries + post', fn)
    ctx.require(pre.winner == 'first' and pre.order == 'store', f'{qn}: pre keeps the first of identical overridden entries, in order', mod, qn, 'polarity of the pre walk',
                f'pre: {"the " + str(pre.winner) + " occurrence wins" if pre.winner else "duplicates are never removed"}, elements come out in '
                f'{"the order queued" if pre.order == "store" else "reverse order"}; the front-most -I/-L must survive and the batch order must be kept', pre.node)
    ctx.require(post.winner == 'last' and post.order == 'store', f'{qn}: post keeps the last of identical overridden entries, in order', mod, qn, 'polarity of the post walk',
                f'post: {"the " + str(post.winner) + " occurrence wins" if post.winner else "duplicates are never removed"}, elements come out in '
                f'{"the order added" if post.order == "store" else "reverse order"}; the last -D/-U/-isystem must survive and appended arguments keep their order', post.node)
    ctx.require(cont.order == 'store' and cont.winner is None, f'{qn}: the flushed part keeps its order', mod, qn, 'polarity of the container walk',
                'the already flushed arguments come out reversed or de-duplicated among themselves', cont.node)
    both = frozenset(x for x in (pre.fills, post.fills) if x is not None)
    ctx.require(cont.tested == both and len(both) == 2, f'{qn}: container entries named in either override set are dropped', mod, qn,
                'override sets consulted by the container walk', 'the container walk does not consult exactly the two override sets filled by the pre and post walks: '
                'an overridden argument already flushed would survive next to its replacement', cont.node)
    ctx.require(pre.tested == frozenset([pre.fills]) and post.tested == frozenset([post.fills]), f'{qn}: each queue de-duplicates against its own set',
                mod, qn, 'override sets consulted by the queue walks', 'a queue walk consults an override set other than the one it fills', pre.node)
    return True


def r3(ctx: RuleCtx) -> None:
    mod = ctx.repo.module(ARGLIST)
    fn = _inline(mod, ROOT, mod.func(f'{ROOT}.flush_pre_post'))
    qn = f'{ROOT}.flush_pre_post'
    _queues_emptied(ctx, mod, qn, fn)

    ifst, _pol, fast, slow = _split_fast(fn, qn)
    # fast path (no OVERRIDDEN argument pending): pre in front, post behind
    ftab = tables.extract(fn, body=fast, effects=_eff, inline=False, name=f'{qn}:fast')
    for a in ftab.atoms():
        if a not in (Atom('truth', ('self.pre',)), Atom('truth', ('self.post',))):
            raise Undecided(f'{qn}: fast path tests {a!r}')
    FRONT = ('self._container[0:0] := %s', 'self._container[:0] := %s', 'self._container := list(%s) + self._container',
             'self._container := [*%s, *self._container]')
    BACK = ('call self._container.extend(%s)', 'self._container Add= %s', 'self._container Add= list(%s)', 'self._container := self._container + list(%s)',
            'self._container := [*self._container, *%s]')
    for s_ in fast:
        if isinstance(s_, (ast.For, ast.While, ast.With, ast.Try)):
            raise Undecided(f'{qn}: fast path contains `{short(s_, 50)}`')
    lost: T.Dict[str, int] = {'pre': 0, 'post': 0}
    nw = 0
    for w in ftab.worlds([Atom('truth', ('self.pre',)), Atom('truth', ('self.post',))]):
        rows = ftab.fire(w)
        if len(rows) != 1:
            raise Undecided(f'{qn}: fast path: {len(rows)} rows fire')
        nw += 1
        opaque = _opaque_on(rows[0].path)
        if opaque:
            raise Undecided(f'{qn}: fast path runs `{opaque}`')
        effs = [e for e in rows[0].effects if not e.endswith('.clear()')]
        good = {q: [f % f'self.{q}' for f in forms] for q, forms in (('pre', FRONT), ('post', BACK))}
        wrong = {q: [f % f'self.{q}' for f in forms] for q, forms in (('pre', BACK), ('post', FRONT))}
        for e in effs:
            if '_container' in e and e not in good['pre'] + good['post']:
                hit = [q for q in ('pre', 'post') if e in wrong[q]]
                if hit:
                    ctx.violation(mod, qn, e, f'fast path merges self.{hit[0]} with `{e}`, i.e. at the {"back" if hit[0] == "pre" else "front"}: pending prepends belong in front '
                                  'of _container and pending appends behind it', ifst)
                    return
                raise Undecided(f'{qn}: fast path effect `{e}` is not a known way of merging a queue')
        for q in ('pre', 'post'):
            if w.get(Atom('truth', (f'self.{q}',)), True) and not [e for e in effs if e in good[q]]:
                if f'call self.{q}.clear()' in rows[0].effects:
                    lost[q] += 1       # positive evidence: the queue is cleared on this row although nothing merged it
                else:
                    raise Undecided(f'{qn}: fast path neither merges nor clears a non-empty self.{q} in a recognised way')
    for q in ('pre', 'post'):
        ctx.require(not lost[q], f'{qn}: fast path: a non-empty self.{q} is merged at the {"front" if q == "pre" else "back"} of _container ({nw} worlds)',
                    mod, qn, f'fast path self.{q}', f'fast path clears a non-empty self.{q} without merging it into _container: the entries are lost', ifst)

    if not _slow_path(ctx, mod, qn, fn, slow):
        return

    _iadd(ctx, mod)


def _iadd(ctx: RuleCtx, mod: Module) -> None:
    qn = f'{ROOT}.__iadd__'
    fn = _inline(mod, ROOT, mod.func(qn))
    loops = [s for s in fn.body if isinstance(s, ast.For)]
    if len(loops) != 1 or not isinstance(loops[0].target, ast.Name):
        raise Undecided(f'{qn}: expected one loop over the added arguments')
    lp = loops[0]
    params = [a.arg for a in fn.args.args if a.arg != 'self']
    if norm(lp.iter) not in params:
        raise Undecided(f'{qn}: the loop does not walk the added arguments ({short(lp.iter)})')
    x = lp.target.id
    tab = tables.extract(fn, body=lp.body, effects=_eff, inline=True, inline_calls={'_can_dedup', '_should_prepend'}, name=qn + ':loop',
                         pure={'_can_dedup', '_should_prepend'})
    cd = f'self._can_dedup({x})'
    sem: T.Dict[Atom, str] = {}
    for a in tab.atoms():
        if a.kind == 'is' and a.args[0] == cd and a.args[1] in DEDUP_KINDS:
            sem[a] = a.args[1].split('.')[1]
        elif a.kind == 'in' and a.args[0] == x and a.args[1] in ('self._container', 'self.pre', 'self.post'):
            sem[a] = 'in:' + a.args[1]
        elif a == Atom('truth', (f'self._should_prepend({x})',)):
            sem[a] = 'front'
        else:
            raise Undecided(f'{qn}: loop tests {a!r}, outside the reference vocabulary')
    if 'front' not in sem.values():
        raise Undecided(f'{qn}: the loop never tests _should_prepend')
    tmp: T.Set[str] = set()
    n = 0
    bad = 0
    import itertools
    free = [a for a, k in sem.items() if k not in ('NO_DEDUP', 'UNIQUE', 'OVERRIDDEN')]
    for kind, bits in itertools.product(('NO_DEDUP', 'UNIQUE', 'OVERRIDDEN'), itertools.product((False, True), repeat=len(free))):
        w = {a: (k == kind) for a, k in sem.items() if a not in free}
        w.update(dict(zip(free, bits)))
        v = {k: w[a] for a, k in sem.items()}
        for k_ in ('NO_DEDUP', 'UNIQUE', 'OVERRIDDEN'):
            v[k_] = kind == k_
        rows = tab.fire(w)
        if len(rows) != 1:
            raise Undecided(f'{qn}: {len(rows)} rows fire in one world')
        r = rows[0]
        n += 1
        present = any(val for k, val in v.items() if k.startswith('in:'))
        adds_front: T.List[str] = []
        adds_back: T.List[str] = []
        flag = False
        for e in r.effects:
            m = re.fullmatch(r'call ([\w.]+)\.(append|appendleft)\(%s\)' % re.escape(x), e)
            if e == 'self.needs_override_check := True':
                flag = True
            elif m and m.group(1) == 'self.post' and m.group(2) == 'append':
                adds_back.append(e)
            elif m and m.group(1).isidentifier():
                adds_front.append(e)
                tmp.add(f'{m.group(1)}.{m.group(2)}')
            elif m and m.group(1) == 'self.pre':
                adds_front.append(e)
                tmp.add(f'self.pre.{m.group(2)}')
            elif re.fullmatch(r'\w+ := self\._can_dedup\(%s\)' % re.escape(x), e):
                continue
            else:
                raise Undecided(f'{qn}: loop effect `{e}` is outside the reference vocabulary')
        node = r.path.events[-1].node if r.path.events else lp
        if v['UNIQUE'] and present:
            if adds_front or adds_back:
                ctx.violation(mod, qn, repr(r), 'a once-only (UNIQUE) argument that is already present is added again', node)
                bad += 1
            continue
        want_front = v['front']
        if len(adds_front) != (1 if want_front else 0) or len(adds_back) != (0 if want_front else 1):
            ctx.violation(mod, qn, repr(r), f'an argument that {"must go in front (prepend prefix)" if want_front else "must be appended"} is queued as '
                          f'{adds_front + adds_back or "nothing"}: arguments are lost, duplicated or put at the wrong end', node)
            bad += 1
        elif v['OVERRIDDEN'] and not flag:
            ctx.violation(mod, qn, repr(r), 'an OVERRIDDEN-type argument is queued without setting needs_override_check: the next flush takes the fast '
                          'path and earlier occurrences are not removed', node)
            bad += 1
    if not bad:
        ctx.ok(f'{qn}: loop table agrees with the reference on {n} worlds (UNIQUE present -> skipped; OVERRIDDEN -> flag; prepend prefix -> front, else post)')
    # the batch goes to the front of pre in its own order
    if bad:
        return
    after = [s for s in fn.body[fn.body.index(lp) + 1:]]
    moves = [norm(s.value) for s in after if isinstance(s, ast.Expr) and isinstance(s.value, ast.Call) and norm(s.value).startswith('self.pre.')]
    if len(tmp) != 1:
        raise Undecided(f'{qn}: front additions go through {sorted(tmp)}')
    form = next(iter(tmp))
    name, how = form.rsplit('.', 1)
    if name == 'self.pre':
        ok = False
        msg = f'arguments are put into self.pre one by one with {how}: a batch of prepend-type arguments ends up ' \
              f'{"in reverse order" if how == "appendleft" else "behind what was added earlier"}'
    else:
        good = {(f'self.pre.extendleft({name})', 'appendleft'), (f'self.pre.extendleft(reversed({name}))', 'append')}
        ok = len(moves) == 1 and (moves[0], how) in good
        msg = f'the batch is collected with {name}.{how} and moved with {moves}: it must arrive in front of self.pre in its own order ' \
              f'({name}.appendleft + self.pre.extendleft({name}), or the mirror image)'
        if not ok and (len(moves) != 1 or not re.fullmatch(r'self\.pre\.(extend|extendleft)\((reversed\()?%s\)?\)' % re.escape(name), moves[0])):
            raise Undecided(f'{qn}: the batch is moved by {moves}')
    ctx.require(ok, f'{qn}: a batch is prepended in its own order ({form} then {moves})', mod, qn, 'batch prepend', msg, lp)


# ---------------------------------------------------------------------------------------------
# R4: extend_preserving_lflags — which arguments bypass de-duplication
# ---------------------------------------------------------------------------------------------
# Reference (arglist.py, comment above always_dedup_args: "In generate_link() we add external libs without de-dup, but we
# must *always* de-dup these because they're special arguments to the linker"; property C13: a repeat of a once-only
# argument is dropped): an argument takes the direct (no de-dup) route iff it is a -l/-L argument and is not one of the
# always-de-duplicated compiler-internal libraries; everything else takes the de-duplicating route; nothing is lost.
ALWAYS_DEDUP_MIN = frozenset({'-lm', '-lc', '-lpthread', '-ldl', '-lrt'})


def r4(ctx: RuleCtx) -> None:
    mod = ctx.repo.module(ARGLIST)
    qn = f'{ROOT}.extend_preserving_lflags'
    fn = _inline(mod, ROOT, mod.func(qn))
    params = [a.arg for a in fn.args.args if a.arg != 'self']
    loops = [s_ for s_ in fn.body if isinstance(s_, ast.For)]
    if len(loops) != 1 or not isinstance(loops[0].target, ast.Name) or norm(loops[0].iter) not in params:
        raise Undecided(f'{qn}: expected one loop over the added arguments')
    lp = loops[0]
    x = lp.target.id
    # the two routes: lists handed to self.extend_direct(...) / self.extend(...) after the loop
    routes: T.Dict[str, str] = {}
    for s_ in fn.body:
        if s_ is lp or (isinstance(s_, ast.Expr) and isinstance(s_.value, ast.Constant)):
            continue
        if isinstance(s_, (ast.Assign, ast.AnnAssign)) and s_.value is not None and norm(s_.value) in ('[]', 'list()'):
            continue
        if isinstance(s_, ast.Expr) and isinstance(s_.value, ast.Call) and attr_chain(s_.value.func) in ('self.extend', 'self.extend_direct') \
                and len(s_.value.args) == 1 and isinstance(s_.value.args[0], ast.Name) and not s_.value.keywords and fn.body.index(s_) > fn.body.index(lp):
            routes[s_.value.args[0].id] = 'direct' if s_.value.func.attr == 'extend_direct' else 'dedup'  # type: ignore[attr-defined]
            continue
        if isinstance(s_, ast.AugAssign) and attr_chain(s_.target) == 'self' and isinstance(s_.value, ast.Name) and fn.body.index(s_) > fn.body.index(lp):
            routes[s_.value.id] = 'dedup'
            continue
        raise Undecided(f'{qn}: statement `{short(s_, 60)}` is outside the reference vocabulary')
    if sorted(routes.values()) != ['dedup', 'direct']:
        raise Undecided(f'{qn}: routes after the loop are {routes}')
    tab = tables.extract(fn, body=lp.body, effects=_eff, inline=True, name=qn + ':loop')
    exempt: T.List[Atom] = []
    pref: T.Dict[Atom, T.FrozenSet[str]] = {}
    for a in tab.atoms():
        if a.kind == 'in' and a.args[0] == x and _table_of(ast.parse(a.args[1], mode='eval').body):
            exempt.append(a)
            continue
        if a.kind == 'truth':
            e = ast.parse(a.args[0], mode='eval').body
            if isinstance(e, ast.Call) and isinstance(e.func, ast.Attribute) and e.func.attr == 'startswith' and norm(e.func.value) == x and len(e.args) == 1:
                v = e.args[0]
                tn = _table_of(v)
                if tn is not None:       # prefixes hoisted into a class constant: fold it
                    fv = _fold_table(ctx, ARGLIST, ROOT, tn)
                    if not isinstance(fv, Regex):
                        pref[a] = frozenset(fv)
                        continue
                consts = v.elts if isinstance(v, ast.Tuple) else [v]
                if all(isinstance(c, ast.Constant) and isinstance(c.value, str) for c in consts):
                    pref[a] = frozenset(c.value for c in consts)  # type: ignore[attr-defined]
                    continue
        raise Undecided(f'{qn}: loop tests {a!r}, outside the reference vocabulary')
    if len(exempt) != 1 or not pref:
        raise Undecided(f'{qn}: expected one table test and the -l/-L prefix tests, found {exempt} / {list(pref)}')
    table = _table_of(ast.parse(exempt[0].args[1], mode='eval').body)
    tested = frozenset().union(*pref.values())
    ctx.require(tested == {'-l', '-L'}, f'{qn}: the direct route is reserved for -l/-L arguments', mod, qn, 'prefixes of the direct route',
                f'the prefixes that select the direct (no de-dup) route are {sorted(tested)}, the contract says -l and -L', lp)
    ctx.require(table == 'always_dedup_args', f'{qn}: the exemption from the direct route is the always_dedup_args table', mod, qn, exempt[0].args[1],
                f'the libraries kept on the de-duplicating route are looked up in {table}; the table of compiler-internal libraries that must always be '
                f'de-duplicated is always_dedup_args (a repeated -lm/-lpthread would be passed through)', lp)
    import itertools
    bad = 0
    n = 0
    atoms = list(pref) + exempt
    for bits in itertools.product((False, True), repeat=len(atoms)):
        w = dict(zip(atoms, bits))
        # prefix tests on the same constants agree; a tuple test is the disjunction of its members
        single = {next(iter(p)): w[a] for a, p in pref.items() if len(p) == 1}
        if any(len(p) > 1 and all(c in single for c in p) and w[a] != any(single[c] for c in p) for a, p in pref.items()):
            continue
        rows = tab.fire(w)
        if len(rows) != 1:
            raise Undecided(f'{qn}: {len(rows)} rows fire in one world')
        n += 1
        is_l = any(w[a] for a in pref)
        want = 'direct' if (is_l and not w[exempt[0]]) else 'dedup'
        got: T.List[str] = []
        for e in rows[0].effects:
            m = re.fullmatch(r'call (\w+)\.append\(%s\)' % re.escape(x), e)
            if m and m.group(1) in routes:
                got.append(routes[m.group(1)])
            else:
                raise Undecided(f'{qn}: loop effect `{e}` is outside the reference vocabulary')
        if got != [want]:
            bad += 1
            ctx.violation(mod, qn, repr(rows[0]), f'an argument that {"is" if is_l else "is not"} a -l/-L argument and {"is" if w[exempt[0]] else "is not"} in {table} '
                          f'takes the route(s) {got or "none"}; the contract requires exactly the {want} route', rows[0].path.events[-1].node if rows[0].path.events else lp)
    if not bad:
        ctx.ok(f'{qn}: routing table agrees with the reference on {n} worlds (-l/-L outside {table} -> extend_direct, everything else -> extend)')
    vals = _fold_table(ctx, ARGLIST, ROOT, 'always_dedup_args')
    ctx.require(ALWAYS_DEDUP_MIN <= frozenset(vals), 'always_dedup_args contains the compiler-internal libraries', mod, ROOT, 'table always_dedup_args',
                f'always_dedup_args folds to {sorted(vals)} and lacks {sorted(ALWAYS_DEDUP_MIN - frozenset(vals))}', mod.cls(ROOT))
