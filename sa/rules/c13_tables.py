"""C13.R2 (classification tables) and C13.R3 (merge polarity) — decision tables over
canonical atoms compared with reference denotations on every world."""
from __future__ import annotations

import ast
import re
import typing as T

from ..core import Module, Undecided, attr_chain, norm, short
from ..report import RuleCtx
from ..paths import enumerate_paths
from .. import tables
from ..tables import Atom
from ..consteval import fold_expr, Regex
from .. import rx

ARGLIST = 'mesonbuild/arglist.py'
CLIKE = 'mesonbuild/compilers/mixins/clike.py'
ROOT = 'CompilerArgs'

# ---------------------------------------------------------------------------------------------
# R2
# ---------------------------------------------------------------------------------------------
# Which Dedup class a class-level table feeds (arglist.py, comments above the tables: "must be
# de-duped by returning 2" = Dedup.OVERRIDDEN, "... returning 1" = Dedup.UNIQUE).
TABLE_ROLE = {
    'dedup2_prefixes': 'OVERRIDDEN', 'dedup2_suffixes': 'OVERRIDDEN', 'dedup2_args': 'OVERRIDDEN',
    'dedup1_prefixes': 'UNIQUE', 'dedup1_suffixes': 'UNIQUE', 'dedup1_args': 'UNIQUE', 'dedup1_regex': 'UNIQUE',
}

# How a table may be consulted, by its role in the class (a table of prefixes is a startswith/`in` table ...).
TABLE_KIND = {
    'dedup2_prefixes': ('prefix', 'eq'), 'dedup1_prefixes': ('prefix', 'eq'), 'dedup2_suffixes': ('suffix',), 'dedup1_suffixes': ('suffix',),
    'dedup2_args': ('eq',), 'dedup1_args': ('eq',), 'dedup1_regex': ('regex',),
}

# Reference content of the C-like tables.  Provenance: statement of property C13 ("every batch of -I/-L arguments goes in
# front; of identical override-type arguments only the highest-precedence occurrence survives: the front-most for -I/-L,
# the last for -D/-U/-isystem; a repeat of a once-only argument (-lfoo, a library file, -pthread ...) is dropped") and
# DESIGN section 2 C13.R2.  'exact': the folded table must equal the set; 'at least': it must contain it (more once-only
# spellings may be added without breaking the contract).
REF_TABLES: T.Dict[str, T.Tuple[str, T.FrozenSet[str]]] = {
    'prepend_prefixes': ('exact', frozenset({'-I', '-L'})),
    'dedup2_prefixes': ('exact', frozenset({'-I', '-isystem', '-L', '-D', '-U'})),
    'dedup2_suffixes': ('exact', frozenset()),
    'dedup2_args': ('exact', frozenset()),
    'dedup1_prefixes': ('at least', frozenset({'-l', '-Wl,-l', '-Wl,-rpath,', '-Wl,-rpath-link,'})),
    'dedup1_suffixes': ('at least', frozenset({'.lib', '.dll', '.so', '.dylib', '.a'})),
    'dedup1_args': ('at least', frozenset({'-c', '-S', '-E', '-pipe', '-pthread', '-Wl,--export-dynamic'})),
}

# Language facts about the versioned-shared-library regex (comment above it in arglist.py: "Match a .so of the form
# path/to/libfoo.so.0.1.0"): membership of words / emptiness of intersections, decided on the sa.rx NFA.
RX_MEMBERS = ['libfoo.so', 'libfoo.so.0', 'libfoo.so.0.1', 'libfoo.so.0.1.0', '/libfoo.so.12.3.45', '\\libz.so.1']
RX_DISJOINT = {
    r'lib[a-z]+\.so(\.[0-9]+)(\.[0-9]+)(\.[0-9]+)(\.[0-9]+)': 'more than three version components',
    r'[a-km-z]+\.so(\.[0-9]+)?': 'a file name without the lib prefix',
    r'lib[a-z]+\.so\.[a-np-z]+': 'a non-numeric version component',
    r'lib[a-z]+\.so\.[0-9]+[a-z]+': 'trailing text after the version (must be anchored at the end)',
    r'lib[a-z]+\.(a|dll|lib|dylib)': 'other library suffixes (they belong to dedup1_suffixes)',
}


class ArgTest(T.NamedTuple):
    kind: str      # eq | prefix | suffix | regex
    table: str


def _table_of(e: ast.AST) -> T.Optional[str]:
    c = attr_chain(e)
    if c and c.count('.') == 1 and c.split('.')[0] in ('cls', 'self'):
        return c.split('.')[1]
    return None


def _arg_test(a: Atom, arg: str = 'ARG1') -> T.Optional[ArgTest]:
    if a.kind == 'in' and a.args[0] == arg:
        t = _table_of(ast.parse(a.args[1], mode='eval').body)
        return ArgTest('eq', t) if t else None
    if a.kind == 'truth':
        e = ast.parse(a.args[0], mode='eval').body
        if isinstance(e, ast.Call) and isinstance(e.func, ast.Attribute) and len(e.args) >= 1 and not e.keywords:
            if e.func.attr in ('startswith', 'endswith') and norm(e.func.value) == arg and len(e.args) == 1:
                t = _table_of(e.args[0])
                return ArgTest('prefix' if e.func.attr == 'startswith' else 'suffix', t) if t else None
            if e.func.attr in ('search',) and norm(e.func.value) == 're' and len(e.args) == 2 and norm(e.args[1]) == arg:
                t = _table_of(e.args[0])
                return ArgTest('regex', t) if t else None
            if e.func.attr == 'search' and len(e.args) == 1 and norm(e.args[0]) == arg:
                t = _table_of(e.func.value)
                return ArgTest('regex', t) if t else None
    return None


def _resolve(ctx: RuleCtx, rel: str, cls: str, meth: str) -> T.Tuple[Module, ast.ClassDef, T.Any]:
    mod = ctx.repo.module(rel)
    r = ctx.repo.find_method(mod, mod.cls(cls), meth)
    if r is None:
        raise Undecided(f'{cls}.{meth} not found along the class hierarchy')
    return r


def _fold_table(ctx: RuleCtx, rel: str, cls: str, name: str) -> T.Any:
    mod = ctx.repo.module(rel)
    v = fold_expr(ctx.repo, mod, ast.parse(f'{cls}.{name}', mode='eval').body)
    if isinstance(v, Regex):
        return v
    if isinstance(v, str) or not isinstance(v, (tuple, list, set, frozenset)) or not all(isinstance(x, str) for x in v):
        raise Undecided(f'{cls}.{name} does not fold to a collection of strings: {v!r}')
    return tuple(v)


def _anchors(pattern: str, flags: int) -> T.Tuple[bool, bool]:
    """(ends with an end anchor, starts with `\\A`/`^` or one path separator) from the regex syntax tree."""
    tree = list(rx.parse(pattern, flags))
    if not tree:
        return False, False
    op, av = tree[-1]
    tail = str(op) == 'AT' and str(av) in ('AT_END', 'AT_END_STRING')

    def alt_ok(items: T.List[T.Any]) -> bool:
        if len(items) != 1:
            return False
        o, a = items[0]
        if str(o) == 'AT':
            return str(a) in ('AT_BEGINNING', 'AT_BEGINNING_STRING')
        if str(o) == 'LITERAL':
            return chr(a) in '/\\'
        if str(o) == 'IN':
            return rx.class_chars(a, rx.BASE_SAMPLES) <= {'/', '\\'}
        return False
    o, a = tree[0]
    if str(o) == 'SUBPATTERN':
        inner = list(a[-1])
        if len(inner) == 1 and str(inner[0][0]) == 'BRANCH':
            head = all(alt_ok(list(b)) for b in inner[0][1][1])
        else:
            head = alt_ok(inner)
    elif str(o) == 'BRANCH':
        head = all(alt_ok(list(b)) for b in a[1]) and len(tree) > 1
    else:
        head = alt_ok([tree[0]])
    def any_at(t: T.Any, names: T.Tuple[str, ...]) -> bool:
        for o2, a2 in t:
            if str(o2) == 'AT' and str(a2) in names:
                return True
            if str(o2) == 'SUBPATTERN' and any_at(a2[-1], names):
                return True
            if str(o2) == 'BRANCH' and any(any_at(b, names) for b in a2[1]):
                return True
            if str(o2) in ('MAX_REPEAT', 'MIN_REPEAT', 'POSSESSIVE_REPEAT') and any_at(a2[2], names):
                return True
            if str(o2) in ('ASSERT', 'ASSERT_NOT', 'ATOMIC_GROUP') and any_at(a2[1] if str(o2) != 'ATOMIC_GROUP' else a2, names):
                return True
        return False
    # 'no' needs positive evidence: no end (begin) anchor anywhere in the tree; an anchor in an unfamiliar place is 'unknown'
    tail3 = 'yes' if tail else ('unknown' if any_at(tree, ('AT_END', 'AT_END_STRING')) else 'no')
    first_consumes_other = str(tree[0][0]) in ('LITERAL', 'IN', 'ANY', 'NOT_LITERAL') and not head
    head3 = 'yes' if head else ('no' if (not any_at(tree, ('AT_BEGINNING', 'AT_BEGINNING_STRING')) and first_consumes_other) else 'unknown')
    return tail3, head3  # type: ignore[return-value]


def _path_outcome(p: T.Any, subst: T.Callable[[ast.AST], ast.AST]) -> T.Tuple[T.Any, ...]:
    """Like tables.default_outcome, but a returned local (`result = X ... return result`) is replaced by the value of
    its reaching definition on this path (single-exit style <-> early returns)."""
    if p.outcome == 'return' and isinstance(p.value, ast.Name):
        name = p.value.id
        for ev in reversed(p.events):
            st = ev.node
            if ev.kind != 'stmt' or st is None:
                continue
            if isinstance(st, ast.Assign) and any(isinstance(t, ast.Name) and t.id == name for t in st.targets):
                return ('return', norm(subst(st.value)))
            if isinstance(st, ast.AnnAssign) and isinstance(st.target, ast.Name) and st.target.id == name and st.value is not None:
                return ('return', norm(subst(st.value)))
            if any(isinstance(n, ast.Name) and n.id == name and isinstance(n.ctx, (ast.Store, ast.Del)) for n in ast.walk(st)):
                break
    return tables.default_outcome(p, subst)


def r2(ctx: RuleCtx) -> None:
    # (a) order of the classification chain, on every world of its atoms
    mod, cdef, fn = _resolve(ctx, CLIKE, 'CLikeCompilerArgs', '_can_dedup')
    qn = f'{cdef.name}._can_dedup'
    tab = tables.extract(fn, name=qn, pure={'search'}, outcome=_path_outcome)
    tests: T.Dict[Atom, ArgTest] = {}
    for a in tab.atoms():
        t = _arg_test(a)
        if t is None or t.table not in TABLE_ROLE:
            raise Undecided(f'{qn}: atom outside the reference vocabulary: {a!r}')
        tests[a] = t
    ctx.floor('_can_dedup: tests on class tables', len(tests), 9)
    prefix_tables = {t.table for t in tests.values() if t.kind == 'prefix'}
    n = 0
    bad: T.Dict[str, T.Tuple[tables.Row, str, str, str]] = {}
    for w in tab.worlds():
        # `arg in P` implies `arg.startswith(P)`
        if any(t.kind == 'eq' and t.table in prefix_tables and w[a] and
               any(t2 == ArgTest('prefix', t.table) and not w[a2] for a2, t2 in tests.items()) for a, t in tests.items()):
            continue
        bare = any(w[a] for a, t in tests.items() if t.kind == 'eq' and t.table in prefix_tables)
        ovr = any(w[a] for a, t in tests.items() if TABLE_ROLE[t.table] == 'OVERRIDDEN' and not (t.kind == 'eq' and t.table in prefix_tables))
        uni = any(w[a] for a, t in tests.items() if TABLE_ROLE[t.table] == 'UNIQUE' and not (t.kind == 'eq' and t.table in prefix_tables))
        want = 'NO_DEDUP' if bare else 'OVERRIDDEN' if ovr else 'UNIQUE' if uni else 'NO_DEDUP'
        rows = tab.fire(w)
        if len(rows) != 1:
            raise Undecided(f'{qn}: {len(rows)} rows fire in one world')
        n += 1
        got = rows[0].outcome[1].split('.')[-1] if rows[0].outcome[0] == 'return' else str(rows[0].outcome)
        if got != want:
            desc = ', '.join(f'{t.kind}:{t.table}' for a, t in tests.items() if w[a]) or 'no test holds'
            bad.setdefault(repr(rows[0]), (rows[0], got, want, desc))
    for key, (row, got, want, desc) in bad.items():
        ctx.violation(mod, qn, key, f'classification chain returns {got} where the contract (word that is itself a prefix > OVERRIDDEN > UNIQUE > NO_DEDUP) '
                      f'requires {want}, e.g. when [{desc}]', row.path.events[-1].node if row.path.events else fn)
    if not bad:
        ctx.ok(f'{qn}: {len(tab.rows)} rows agree with bare-prefix > OVERRIDDEN > UNIQUE > NO_DEDUP on {n} worlds of {len(tests)} atoms')

    # every table is consulted in the way its role allows, and a prefix table is also tested for "is itself the prefix"
    for a_, t in tests.items():
        ctx.require(t.kind in TABLE_KIND[t.table], f'{qn}: {t.table} is consulted as {t.kind}', mod, qn, repr(a_),
                    f'{t.table} is consulted with a {t.kind} test (`{a_!r}`); a table of that role is a {"/".join(TABLE_KIND[t.table])} table', fn)
    for pt in sorted(prefix_tables):
        ctx.require(ArgTest('eq', pt) in tests.values(), f'{qn}: a word that is itself an entry of {pt} is tested for', mod, qn, f'bare-prefix test of {pt}',
                    f'{pt} is used with startswith but there is no `arg in cls.{pt}` test: an option given as a separate word (`-D FOO`) '
                    'would be de-duplicated and its value orphaned', fn)
    ctx.require(prefix_tables == {'dedup1_prefixes', 'dedup2_prefixes'}, f'{qn}: both prefix tables are consulted with startswith', mod, qn, 'prefix tables',
                f'tables consulted with startswith: {sorted(prefix_tables)}; expected dedup1_prefixes and dedup2_prefixes', fn)

    # (b) _should_prepend is equivalent to "starts with an entry of prepend_prefixes", on every world of its atoms
    pmod, pcdef, pfn = _resolve(ctx, CLIKE, 'CLikeCompilerArgs', '_should_prepend')
    pqn = f'{pcdef.name}._should_prepend'
    ptab = tables.extract(pfn, name=pqn, outcome=_path_outcome)
    ptests: T.Dict[Atom, ArgTest] = {}

    def learn(e: ast.AST) -> None:
        if isinstance(e, ast.BoolOp):
            for v in e.values:
                learn(v)
        elif isinstance(e, ast.UnaryOp) and isinstance(e.op, ast.Not):
            learn(e.operand)
        elif isinstance(e, ast.Constant) and isinstance(e.value, bool):
            pass
        else:
            a, _ = tables.canon(e, True)
            t = _arg_test(a)
            if t is None:
                raise Undecided(f'{pqn}: test outside the reference vocabulary: {a!r}')
            ptests[a] = t
    for a in ptab.atoms():
        t0 = _arg_test(a)
        if t0 is None:
            raise Undecided(f'{pqn}: test outside the reference vocabulary: {a!r}')
        ptests[a] = t0
    for r_ in ptab.rows:
        if r_.outcome[0] != 'return':
            raise Undecided(f'{pqn}: leaves by {r_.outcome}')
        learn(ast.parse(r_.outcome[1], mode='eval').body)

    def truth(e: ast.AST, w: T.Dict[Atom, bool]) -> bool:
        """Truth of a returned and/or/not combination of atoms in world w (no argument value involved)."""
        if isinstance(e, ast.BoolOp):
            vals = [truth(v, w) for v in e.values]
            return all(vals) if isinstance(e.op, ast.And) else any(vals)
        if isinstance(e, ast.UnaryOp) and isinstance(e.op, ast.Not):
            return not truth(e.operand, w)
        if isinstance(e, ast.Constant):
            return bool(e.value)
        a, pol = tables.canon(e, True)
        return w[a] == pol
    want_atom = [a for a, t in ptests.items() if t == ArgTest('prefix', 'prepend_prefixes')]
    import itertools
    diff = None
    nw = 0
    for bits in itertools.product((False, True), repeat=len(ptests)):
        w = dict(zip(ptests, bits))
        rows = ptab.fire({a: v for a, v in w.items() if a in ptab.atoms()})
        if len(rows) != 1:
            raise Undecided(f'{pqn}: {len(rows)} rows fire in one world')
        nw += 1
        got = truth(ast.parse(rows[0].outcome[1], mode='eval').body, w)
        if not want_atom or got != w[want_atom[0]]:
            diff = ', '.join(f'{t.kind}:{t.table}={w[a]}' for a, t in ptests.items())
            break
    ctx.require(diff is None, f'{pqn}: true exactly when the argument starts with an entry of prepend_prefixes ({nw} worlds)', pmod, pqn, pfn,
                f'_should_prepend is not equivalent to arg.startswith(cls.prepend_prefixes) (differs when {diff}): '
                'arguments of the wrong kind are put in front / -I, -L are appended', pfn)

    # (c) folded tables of the C-like class against the reference sets
    cmod = ctx.repo.module(CLIKE)
    ccls = cmod.cls('CLikeCompilerArgs')
    folded: T.Dict[str, T.Any] = {}
    for name, (mode, ref) in REF_TABLES.items():
        v = _fold_table(ctx, CLIKE, 'CLikeCompilerArgs', name)
        if isinstance(v, Regex):
            raise Undecided(f'CLikeCompilerArgs.{name} is a regular expression')
        folded[name] = got_set = frozenset(v)
        if mode == 'exact':
            ok = got_set == ref
            msg = f'CLikeCompilerArgs.{name} is {sorted(got_set)}; the contract requires exactly {sorted(ref)}' + \
                  (f' (missing {sorted(ref - got_set)})' if ref - got_set else '') + (f' (extra {sorted(got_set - ref)})' if got_set - ref else '')
        else:
            ok = ref <= got_set
            msg = f'CLikeCompilerArgs.{name} lacks {sorted(ref - got_set)}: these once-only arguments would be repeated on the command line'
        ctx.require(ok, f'CLikeCompilerArgs.{name} {"equals" if mode == "exact" else "contains"} the reference {sorted(ref)}', cmod, 'CLikeCompilerArgs',
                    f'table {name}', msg, ccls)
    ctx.floor('class tables compared with the reference', len(folded), 7)
    ctx.require(folded['prepend_prefixes'] <= folded['dedup2_prefixes'], 'every prepend prefix is also an OVERRIDDEN prefix (front-most occurrence survives)',
                cmod, 'CLikeCompilerArgs', 'prepend_prefixes within dedup2_prefixes',
                f'prepend prefixes {sorted(folded["prepend_prefixes"] - folded["dedup2_prefixes"])} are not de-duplicated: repeated -I/-L pile up in front', ccls)
    once = folded['dedup1_prefixes'] | folded['dedup1_args']
    clash = sorted(x for x in once if any(x.startswith(p) for p in folded['dedup2_prefixes']))
    ctx.require(not clash, 'no once-only spelling is shadowed by an OVERRIDDEN prefix', cmod, 'CLikeCompilerArgs', 'dedup1 entries under dedup2 prefixes',
                f'{clash} start with an OVERRIDDEN prefix and can never be classified UNIQUE', ccls)

    # (d) language of the versioned shared library regex
    rxv = _fold_table(ctx, CLIKE, 'CLikeCompilerArgs', 'dedup1_regex')
    if not isinstance(rxv, Regex):
        raise Undecided('dedup1_regex does not fold to a regular expression')
    amod = ctx.repo.module(ARGLIST)
    # the regex is applied with re.search: it must carry its own anchors (sa.rx decides languages of full matches)
    if not any(t.kind == 'regex' and t.table == 'dedup1_regex' for t in tests.values()):
        raise Undecided(f'{qn}: dedup1_regex is not consulted with re.search')
    tail3, head3 = _anchors(rxv.pattern, rxv.flags)
    if 'unknown' in (tail3, head3):
        raise Undecided(f'dedup1_regex {rxv.pattern!r}: anchors are not in a recognised position (end: {tail3}, start: {head3})')
    tail_ok, head_ok = tail3 == 'yes', head3 == 'yes'
    ctx.require(tail_ok, 'dedup1_regex is anchored at the end of the argument', amod, ROOT, 'dedup1_regex end anchor',
                f'dedup1_regex {rxv.pattern!r} is searched without an end anchor: any argument merely containing lib*.so is treated as once-only', amod.cls(ROOT))
    ctx.require(head_ok, 'dedup1_regex starts at the beginning of the argument or after a path separator', amod, ROOT, 'dedup1_regex start anchor',
                f'dedup1_regex {rxv.pattern!r} can start in the middle of a file name (no \\A / path separator alternative in front)', amod.cls(ROOT))
    for word in RX_MEMBERS:
        ctx.require(rx.full_matches(rxv.pattern, word, rxv.flags), f'dedup1_regex accepts {word!r}', amod, ROOT, f'dedup1_regex accepts {word}',
                    f'the language of dedup1_regex {rxv.pattern!r} does not contain {word!r} (a versioned shared library must be once-only)', amod.cls(ROOT))
    for other, why in RX_DISJOINT.items():
        wit = rx.intersects(rxv.pattern, other, rxv.flags, 0)
        ctx.require(wit is None, f'dedup1_regex rejects {why}', amod, ROOT, f'dedup1_regex rejects: {why}',
                    f'the language of dedup1_regex {rxv.pattern!r} contains {wit!r} ({why})', amod.cls(ROOT))


# ---------------------------------------------------------------------------------------------
# R3
# ---------------------------------------------------------------------------------------------
DEDUP_KINDS = ('Dedup.NO_DEDUP', 'Dedup.UNIQUE', 'Dedup.OVERRIDDEN')
MUT = {'append', 'appendleft', 'extend', 'extendleft', 'insert', 'add', 'update'}


KEEP_CALLS = {'_can_dedup', '_should_prepend', 'flush_pre_post'}     # vocabulary of the reference, never inlined


def _inline(mod: Module, cls: str, fn: T.Any, depth: int = 2) -> T.Any:
    """Copy of `fn` with calls `self.helper(...)` of private helpers of the same class folded in:
    * a helper whose body is a single `return <expr>` is substituted as an expression,
    * a statement `self.helper(...)` whose helper never returns a value is replaced by the helper's statements
      (parameters substituted; helpers whose locals clash with the caller's are left alone).
    Extracting a block into a private method and calling it on `self` does not change what the method does."""
    import copy
    meths = mod.methods(cls)

    def body_of(h: T.Any) -> T.List[ast.stmt]:
        b = list(h.body)
        if b and isinstance(b[0], ast.Expr) and isinstance(b[0].value, ast.Constant) and isinstance(b[0].value.value, str):
            b = b[1:]
        return b

    def helper(call: ast.AST) -> T.Optional[T.Any]:
        if isinstance(call, ast.Call) and isinstance(call.func, ast.Attribute) and attr_chain(call.func.value) == 'self' and not call.keywords:
            n = call.func.attr
            if n.startswith('_') and not n.endswith('__') and n not in KEEP_CALLS and n in meths and n != fn.name:
                h = meths[n]
                ps = [a.arg for a in h.args.args]
                if ps[:1] == ['self'] and len(ps) - 1 == len(call.args) and not h.args.vararg and not h.args.kwarg and not h.args.kwonlyargs \
                        and not any(isinstance(a, ast.Starred) for a in call.args) and not h.decorator_list:
                    return h
        return None

    def subst(node: ast.AST, h: T.Any, call: ast.Call) -> ast.AST:
        mapping = {a.arg: v for a, v in zip(h.args.args[1:], call.args)}

        class S(ast.NodeTransformer):
            def visit_Name(self, n: ast.Name) -> ast.AST:
                if n.id in mapping and isinstance(n.ctx, ast.Load):
                    return ast.copy_location(copy.deepcopy(mapping[n.id]), n)
                return n
        assigned = {n.id for n in ast.walk(node) if isinstance(n, ast.Name) and isinstance(n.ctx, ast.Store)}
        if assigned & set(mapping):
            raise Undecided(f'{cls}.{h.name} rebinds a parameter; not inlined')
        return S().visit(copy.deepcopy(node))

    cur = copy.deepcopy(fn)
    for _ in range(depth):
        changed = False
        caller_locals = {n.id for n in ast.walk(cur) if isinstance(n, ast.Name) and isinstance(n.ctx, ast.Store)}

        class E(ast.NodeTransformer):
            def visit_Call(self, c: ast.Call) -> ast.AST:
                nonlocal changed
                self.generic_visit(c)
                h = helper(c)
                if h is not None:
                    b = body_of(h)
                    if len(b) == 1 and isinstance(b[0], ast.Return) and b[0].value is not None:
                        changed = True
                        return ast.copy_location(subst(b[0].value, h, c), c)
                return c

        def splice(stmts: T.List[ast.stmt]) -> T.List[ast.stmt]:
            nonlocal changed
            out: T.List[ast.stmt] = []
            for st in stmts:
                for field in ('body', 'orelse', 'finalbody'):
                    sub = getattr(st, field, None)
                    if isinstance(sub, list) and sub and isinstance(sub[0], ast.stmt):
                        setattr(st, field, splice(sub))
                for hd in getattr(st, 'handlers', []) or []:
                    hd.body = splice(hd.body)
                h = helper(st.value) if isinstance(st, ast.Expr) else None
                if h is not None:
                    b = body_of(h)
                    if b and isinstance(b[-1], ast.Return) and b[-1].value is None:
                        b = b[:-1]
                    rets = [n for x in b for n in ast.walk(x) if isinstance(n, (ast.Return, ast.Yield, ast.YieldFrom))]
                    locs = {n.id for x in b for n in ast.walk(x) if isinstance(n, ast.Name) and isinstance(n.ctx, ast.Store)}
                    if not rets and not (locs & caller_locals) and b:
                        out.extend(subst(x, h, st.value) for x in b)  # type: ignore[arg-type,misc]
                        changed = True
                        continue
                out.append(st)
            return out
        cur = E().visit(cur)
        cur.body = splice(cur.body)
        ast.fix_missing_locations(cur)
        if not changed:
            break
    return cur


def _eff(st: ast.AST) -> T.Optional[str]:
    if isinstance(st, ast.Expr) and isinstance(st.value, ast.Call):
        return 'call ' + norm(st.value)
    if isinstance(st, ast.Assign) and len(st.targets) == 1:
        return f'{norm(st.targets[0])} := {norm(st.value)}'
    if isinstance(st, ast.AnnAssign) and st.value is not None:
        return f'{norm(st.target)} := {norm(st.value)}'
    if isinstance(st, ast.AugAssign):
        return f'{norm(st.target)} {st.op.__class__.__name__}= {norm(st.value)}'
    return None


def _opaque_on(p: T.Any) -> str:
    """First construct on a path whose effect on the queues is not modelled: a call of another method of self, or
    self / self.pre / self.post handed to a callee or bound to another name."""
    for ev in p.events:
        e = ev.node
        if e is None:
            continue
        roots = [e.iter] if ev.kind == 'iter' else [i.context_expr for i in e.items] if ev.kind == 'with' else [e]
        for r in roots:
            for n in ast.walk(r):
                if isinstance(n, ast.Call):
                    f = n.func
                    if isinstance(f, ast.Attribute) and attr_chain(f.value) == 'self' and f.attr not in KEEP_CALLS:
                        return short(n, 60)
                    for a in list(n.args) + [k.value for k in n.keywords]:
                        if attr_chain(a) in ('self', 'self.pre', 'self.post') and norm(f) not in ('len', 'reversed', 'iter', 'list', 'bool', 'enumerate'):
                            if not (isinstance(f, ast.Attribute) and attr_chain(f.value) is not None and f.attr in ('extend', 'extendleft')):
                                return short(n, 60)
            if ev.kind == 'stmt' and isinstance(e, (ast.Assign, ast.AnnAssign)) and getattr(e, 'value', None) is not None \
                    and attr_chain(e.value) in ('self.pre', 'self.post') \
                    and isinstance(e.targets[0] if isinstance(e, ast.Assign) else e.target, ast.Name):
                return short(e, 60)
    return ''


def _queues_emptied(ctx: RuleCtx, mod: Module, qn: str, fn: T.Any) -> None:
    paths = [p for p in enumerate_paths(fn.body, unroll=1) if p.outcome in ('return', 'fall')]
    if not paths:
        raise Undecided(f'{qn}: no returning path')
    bad: T.Dict[str, str] = {}
    for p in paths:
        state = {'pre': 'unknown', 'post': 'unknown'}
        for ev in p.events:
            e = ev.node
            if ev.kind == 'cond':
                c = attr_chain(e) if e is not None else None
                if c in ('self.pre', 'self.post'):
                    state[c[5:]] = 'nonempty' if ev.val else 'empty'
                elif isinstance(e, ast.Call) and norm(e.func) == 'len' and len(e.args) == 1 and attr_chain(e.args[0]) in ('self.pre', 'self.post'):
                    state[attr_chain(e.args[0])[5:]] = 'nonempty' if ev.val else 'empty'  # type: ignore[index]
            elif ev.kind == 'stmt' and e is not None:
                if isinstance(e, ast.Delete):
                    for t in e.targets:
                        if isinstance(t, ast.Subscript) and attr_chain(t.value) in ('self.pre', 'self.post') and norm(t.slice) == ':':
                            state[attr_chain(t.value)[5:]] = 'empty'  # type: ignore[index]
                if isinstance(e, ast.Expr) and isinstance(e.value, ast.Call) and isinstance(e.value.func, ast.Attribute):
                    c = attr_chain(e.value.func.value)
                    if c in ('self.pre', 'self.post'):
                        m = e.value.func.attr
                        if m == 'clear':
                            state[c[5:]] = 'empty'
                        elif m in MUT:
                            state[c[5:]] = 'nonempty'
                elif isinstance(e, (ast.Assign, ast.AnnAssign)):
                    tg = e.targets if isinstance(e, ast.Assign) else [e.target]
                    for t in tg:
                        c = attr_chain(t)
                        if c in ('self.pre', 'self.post') and e.value is not None:
                            v = e.value
                            empty = (isinstance(v, (ast.List, ast.Tuple)) and not v.elts) or \
                                (isinstance(v, ast.Call) and not v.args and attr_chain(v.func) in ('collections.deque', 'deque', 'list'))
                            state[c[5:]] = 'empty' if empty else 'nonempty'
        opaque = _opaque_on(p)
        for q, s in state.items():
            if s != 'empty':
                if opaque:
                    raise Undecided(f'{qn}: cannot tell whether self.{q} is emptied on the path [{p.describe()[:120]}]: it runs `{opaque}`')
                bad.setdefault(q, p.describe()[:200])
    for q, d in bad.items():
        ctx.violation(mod, qn, f'self.{q} after flush', f'flush_pre_post can return with entries left in self.{q} (path: {d}): the list stays unflushed '
                      f'and the entries are merged a second time by the next flush', fn)
    if not bad:
        ctx.ok(f'{qn}: self.pre and self.post are empty at the end of all {len(paths)} returning paths')


def _split_fast(fn: T.Any, qn: str) -> T.Tuple[ast.If, bool, T.List[ast.stmt], T.List[ast.stmt]]:
    """(the If on needs_override_check, polarity of the flag in the fast arm, fast body, slow statements)."""
    for i, st in enumerate(fn.body):
        if isinstance(st, ast.Expr) and isinstance(st.value, ast.Constant):
            continue
        if isinstance(st, ast.If):
            a, v = tables.canon(st.test, True)
            if a == Atom('truth', ('self.needs_override_check',)):
                rest = list(fn.body[i + 1:])
                if not v:      # if not flag: fast ... (must leave) ; slow follows
                    if st.orelse:
                        if rest:
                            raise Undecided(f'{qn}: statements after an if/else on needs_override_check')
                        return st, False, st.body, st.orelse
                    if not (st.body and isinstance(st.body[-1], ast.Return)):
                        raise Undecided(f'{qn}: fast path does not end in return')
                    return st, False, st.body, rest
                else:          # if flag: slow ... else fast
                    if st.orelse and not rest:
                        return st, True, st.orelse, st.body
                    if st.body and isinstance(st.body[-1], ast.Return) and not st.orelse:
                        return st, True, rest, st.body
                    raise Undecided(f'{qn}: unknown arrangement of the slow path')
        raise Undecided(f'{qn}: first statement is not the test of needs_override_check')
    raise Undecided(f'{qn}: empty body')


def _source(loop: ast.For) -> T.Tuple[str, str]:
    """(store, direction) of a loop's iterable."""
    it = loop.iter
    c = attr_chain(it)
    if c in ('self.pre', 'self.post', 'self._container'):
        return c[5:], 'forward'
    if isinstance(it, ast.Call) and norm(it.func) == 'reversed' and len(it.args) == 1 and attr_chain(it.args[0]) in ('self.pre', 'self.post', 'self._container'):
        return attr_chain(it.args[0])[5:], 'backward'  # type: ignore[index]
    if isinstance(it, ast.Subscript) and attr_chain(it.value) in ('self.pre', 'self.post', 'self._container') and norm(it.slice) == '::-1':
        return attr_chain(it.value)[5:], 'backward'  # type: ignore[index]
    raise Undecided(f'flush_pre_post: loop over {short(it)} is not a walk over one of the three stores')


class LoopFacts(T.NamedTuple):
    store: str
    direction: str
    out: T.Optional[str]        # collection the kept elements go to
    end: str                    # 'back' | 'front'
    tested: T.FrozenSet[str]    # override sets consulted
    added: T.Optional[str]      # override set filled


def _loop_facts(ctx: RuleCtx, mod: Module, qn: str, fn: T.Any, loop: ast.For) -> T.Optional[LoopFacts]:
    store, direction = _source(loop)
    if not isinstance(loop.target, ast.Name):
        raise Undecided(f'{qn}: loop target {short(loop.target)}')
    x = loop.target.id
    tab = tables.extract(fn, body=loop.body, effects=_eff, inline=True, inline_calls={'_can_dedup'}, name=f'{qn}:{store}-loop')
    kinds: T.Dict[Atom, str] = {}
    sets: T.Dict[Atom, str] = {}
    for a in tab.atoms():
        if a.kind == 'is' and a.args[1] in DEDUP_KINDS and a.args[0] in (f'self._can_dedup({x})', f'type(self)._can_dedup({x})'):
            kinds[a] = a.args[1]
        elif a.kind == 'in' and a.args[0] == x and a.args[1].isidentifier():
            sets[a] = a.args[1]
        else:
            raise Undecided(f'{qn}: {store} loop tests {a!r}, outside the reference vocabulary')
    outs: T.Set[T.Tuple[str, str]] = set()
    adds: T.Set[str] = set()
    bad = False
    n = 0
    import itertools
    for kind, bits in itertools.product(DEDUP_KINDS, itertools.product((False, True), repeat=len(sets))):
        w = {a: (m == kind) for a, m in kinds.items()}
        w.update(dict(zip(sets, bits)))
        rows = tab.fire(w)
        if len(rows) != 1:
            raise Undecided(f'{qn}: {store} loop: {len(rows)} rows fire in one world')
        n += 1
        r = rows[0]
        kept: T.List[T.Tuple[str, str]] = []
        added: T.List[str] = []
        for e in r.effects:
            m = re.fullmatch(r'call (\w+)\.(append|appendleft|add)\(%s\)' % re.escape(x), e)
            m0 = re.fullmatch(r'call (\w+)\.insert\(0, %s\)' % re.escape(x), e)
            if m and m.group(2) == 'add':
                added.append(m.group(1))
            elif m:
                kept.append((m.group(1), 'back' if m.group(2) == 'append' else 'front'))
            elif m0:
                kept.append((m0.group(1), 'front'))
            elif re.fullmatch(r'\w+ := (self|type\(self\))\._can_dedup\(%s\)' % re.escape(x), e):
                continue
            else:
                raise Undecided(f'{qn}: {store} loop: effect `{e}` is outside the reference vocabulary')
        known = any(w[a] for a in sets)
        want_keep = not known
        if (len(kept) == 1) != want_keep or len(kept) > 1:
            which = [s for a, s in sets.items() if w[a]]
            ctx.violation(mod, qn, repr(r), f'{store} walk: an element {"already in " + "/".join(which) if known else "not seen before"} is '
                          f'{"kept" if kept else "dropped"}; the merge must keep exactly the elements not named in an override set', r.path.events[-1].node if r.path.events else loop)
            bad = True
            continue
        outs.update(kept)
        if not known and store != '_container':
            want_add = kind == 'Dedup.OVERRIDDEN'
            if bool(added) != want_add:
                ctx.violation(mod, qn, repr(r), f'{store} walk: a kept element of kind {kind} is '
                              f'{"" if added else "not "}recorded in the override set (only OVERRIDDEN arguments may suppress later/earlier duplicates)',
                              r.path.events[-1].node if r.path.events else loop)
                bad = True
                continue
        adds.update(added)
    if bad:
        return None
    if len(outs) != 1 or len(adds) > 1:
        raise Undecided(f'{qn}: {store} loop keeps elements in {sorted(outs)} and records them in {sorted(adds)}')
    (out, end), = outs
    if store != '_container' and not adds:
        ctx.violation(mod, qn, loop.iter, f'{store} walk never records OVERRIDDEN arguments: duplicates are not removed', loop)
        return None
    ctx.ok(f'{qn}: walk over self.{store} ({direction}): keeps elements not in {sorted(sets.values())}, into {out} at the {end}'
           f'{", records OVERRIDDEN ones in " + next(iter(adds)) if adds else ""} ({n} worlds)')
    return LoopFacts(store, direction, out, end, frozenset(sets.values()), next(iter(adds)) if adds else None)


def r3(ctx: RuleCtx) -> None:
    mod = ctx.repo.module(ARGLIST)
    fn = _inline(mod, ROOT, mod.func(f'{ROOT}.flush_pre_post'))
    qn = f'{ROOT}.flush_pre_post'
    _queues_emptied(ctx, mod, qn, fn)

    ifst, _pol, fast, slow = _split_fast(fn, qn)
    # fast path (no OVERRIDDEN argument pending): pre in front, post behind
    ftab = tables.extract(fn, body=fast, effects=_eff, inline=False, name=f'{qn}:fast')
    for a in ftab.atoms():
        if a not in (Atom('truth', ('self.pre',)), Atom('truth', ('self.post',))):
            raise Undecided(f'{qn}: fast path tests {a!r}')
    FRONT = ('self._container[0:0] := %s', 'self._container[:0] := %s', 'self._container := list(%s) + self._container',
             'self._container := [*%s, *self._container]')
    BACK = ('call self._container.extend(%s)', 'self._container Add= %s', 'self._container Add= list(%s)', 'self._container := self._container + list(%s)',
            'self._container := [*self._container, *%s]')
    for s_ in fast:
        if isinstance(s_, (ast.For, ast.While, ast.With, ast.Try)):
            raise Undecided(f'{qn}: fast path contains `{short(s_, 50)}`')
    lost: T.Dict[str, int] = {'pre': 0, 'post': 0}
    nw = 0
    for w in ftab.worlds([Atom('truth', ('self.pre',)), Atom('truth', ('self.post',))]):
        rows = ftab.fire(w)
        if len(rows) != 1:
            raise Undecided(f'{qn}: fast path: {len(rows)} rows fire')
        nw += 1
        opaque = _opaque_on(rows[0].path)
        if opaque:
            raise Undecided(f'{qn}: fast path runs `{opaque}`')
        effs = [e for e in rows[0].effects if not e.endswith('.clear()')]
        good = {q: [f % f'self.{q}' for f in forms] for q, forms in (('pre', FRONT), ('post', BACK))}
        wrong = {q: [f % f'self.{q}' for f in forms] for q, forms in (('pre', BACK), ('post', FRONT))}
        for e in effs:
            if '_container' in e and e not in good['pre'] + good['post']:
                hit = [q for q in ('pre', 'post') if e in wrong[q]]
                if hit:
                    ctx.violation(mod, qn, e, f'fast path merges self.{hit[0]} with `{e}`, i.e. at the {"back" if hit[0] == "pre" else "front"}: pending prepends belong in front '
                                  'of _container and pending appends behind it', ifst)
                    return
                raise Undecided(f'{qn}: fast path effect `{e}` is not a known way of merging a queue')
        for q in ('pre', 'post'):
            if w.get(Atom('truth', (f'self.{q}',)), True) and not [e for e in effs if e in good[q]]:
                if f'call self.{q}.clear()' in rows[0].effects:
                    lost[q] += 1       # positive evidence: the queue is cleared on this row although nothing merged it
                else:
                    raise Undecided(f'{qn}: fast path neither merges nor clears a non-empty self.{q} in a recognised way')
    for q in ('pre', 'post'):
        ctx.require(not lost[q], f'{qn}: fast path: a non-empty self.{q} is merged at the {"front" if q == "pre" else "back"} of _container ({nw} worlds)',
                    mod, qn, f'fast path self.{q}', f'fast path clears a non-empty self.{q} without merging it into _container: the entries are lost', ifst)

    # slow path
    loops = [s for s in slow if isinstance(s, ast.For)]
    for s in slow:
        if isinstance(s, (ast.If, ast.While, ast.Try, ast.With)):
            raise Undecided(f'{qn}: slow path contains `{short(s, 50)}`')
    facts: T.Dict[str, LoopFacts] = {}
    pos: T.Dict[str, int] = {}
    for lp in loops:
        f = _loop_facts(ctx, mod, qn, fn, lp)
        if f is None:
            return
        if f.store in facts:
            raise Undecided(f'{qn}: two walks over self.{f.store}')
        facts[f.store] = f
        pos[f.store] = slow.index(lp)
    ctx.floor('walks in the slow path', len(facts), 3)
    if set(facts) != {'pre', 'post', '_container'}:
        raise Undecided(f'{qn}: walks over {sorted(facts)}')
    pre, post, cont = facts['pre'], facts['post'], facts['_container']
    # polarity: pre keeps the FIRST occurrence and its order, post keeps the LAST occurrence and its order
    ctx.require((pre.direction, pre.end) in (('forward', 'back'),), f'{qn}: pre is walked forward and kept in order (first occurrence wins)', mod, qn,
                'polarity of the pre walk', f'pre is walked {pre.direction} and kept elements are put at the {pre.end} of {pre.out}: '
                f'{"the last instead of the first occurrence of an overridden -I/-L survives" if pre.direction == "backward" else "the batch order is reversed"}', loops[0])
    ctx.require((post.direction, post.end) in (('backward', 'front'),), f'{qn}: post is walked backward and rebuilt from the front (last occurrence wins)', mod, qn,
                'polarity of the post walk', f'post is walked {post.direction} and kept elements are put at the {post.end} of {post.out}: '
                f'{"the first instead of the last occurrence of an overridden -D/-U survives" if post.direction == "forward" else "the appended arguments come out reversed"}', loops[0])
    ctx.require((cont.direction, cont.end) == ('forward', 'back'), f'{qn}: the flushed part keeps its order', mod, qn, 'polarity of the container walk',
                f'_container is walked {cont.direction} and kept at the {cont.end}: order of already flushed arguments changes', loops[0])
    sets = frozenset(x for x in (pre.added, post.added) if x)
    ctx.require(cont.tested == sets and len(sets) == 2, f'{qn}: container entries named in either override set {sorted(sets)} are dropped', mod, qn,
                'override sets consulted by the container walk', f'the container walk consults {sorted(cont.tested)}, the override sets are {sorted(sets)}: '
                'an overridden argument already flushed would survive next to its replacement', loops[0])
    ctx.require(pre.tested == frozenset([pre.added]) and post.tested == frozenset([post.added]), f'{qn}: each queue de-duplicates against its own set',
                mod, qn, 'override sets consulted by the queue walks', f'pre consults {sorted(pre.tested)} / fills {pre.added}; post consults {sorted(post.tested)} / fills {post.added}', loops[0])
    # assembly: result = pre-kept + container-kept + post-kept
    tail = [(i, s) for i, s in enumerate(slow) if isinstance(s, ast.Expr) and isinstance(s.value, ast.Call) and
            norm(s.value) in (f'{pre.out}.extend({post.out})',)]
    tail += [(i, s) for i, s in enumerate(slow) if isinstance(s, ast.AugAssign) and isinstance(s.op, ast.Add) and norm(s.target) == pre.out and
             norm(s.value) in (post.out, f'list({post.out})')]
    assign = [(i, s) for i, s in enumerate(slow) if isinstance(s, ast.Assign) and norm(s.targets[0]) == 'self._container']
    order_ok = (pre.out == cont.out and post.out != pre.out and pos['pre'] < pos['_container'] and pos['post'] < pos['_container']
                and len(tail) == 1 and tail[0][0] > pos['_container'] and len(assign) == 1 and assign[0][0] > pos['_container']
                and norm(assign[0][1].value) == pre.out)  # type: ignore[attr-defined]
    alt_sum = (len(assign) == 1 and not tail and norm(assign[0][1].value) in (f'{pre.out} + {post.out}', f'{pre.out} + list({post.out})',  # type: ignore[attr-defined]
                                                                                 f'[*{pre.out}, *{post.out}]')
               and pre.out == cont.out and post.out != pre.out and pos['pre'] < pos['_container'] and pos['post'] < pos['_container']
               and assign[0][0] > pos['_container'])
    order_ok = order_ok or alt_sum
    if not order_ok:
        skip = {id(lp) for lp in loops}
        uses_post = any(post.out in {n.id for n in ast.walk(s_) if isinstance(n, ast.Name) and isinstance(n.ctx, ast.Load)}
                        for s_ in slow if id(s_) not in skip)
        if len(tail) == 1 and tail[0][0] < pos['_container'] and pre.out == cont.out:
            why = f'the kept appended arguments ({post.out}) are added to {pre.out} before the surviving container entries'
        elif not uses_post:
            why = f'the kept appended arguments ({post.out}) are built but never read again: everything queued in self.post is lost'
        elif pre.out == cont.out and pos['pre'] > pos['_container']:
            why = 'the kept prepended arguments are added after the surviving container entries'
        else:
            raise Undecided(f'{qn}: assembly of the merged list is not in a known form')
        ctx.violation(mod, qn, 'assembly order', f'assembly order is wrong: {why}; the merged list must be pre + surviving container entries + post', fn)
    else:
        ctx.ok(f'{qn}: result is [pre kept] + [container kept] + [post kept] (built in {pre.out}, tail {post.out})')
    # containers start empty
    inits: T.Dict[str, str] = {}
    for s in slow:
        if isinstance(s, (ast.Assign, ast.AnnAssign)) and s.value is not None:
            t = s.targets[0] if isinstance(s, ast.Assign) else s.target
            if isinstance(t, ast.Name):
                inits[t.id] = norm(s.value)
    need = {pre.out: ('[]', 'list()'), post.out: ('collections.deque()', 'deque()', '[]', 'list()'), pre.added: ('set()',), post.added: ('set()',)}
    init_nodes: T.Dict[str, ast.AST] = {}
    for s_ in slow:
        if isinstance(s_, (ast.Assign, ast.AnnAssign)) and s_.value is not None:
            t_ = s_.targets[0] if isinstance(s_, ast.Assign) else s_.target
            if isinstance(t_, ast.Name):
                init_nodes.setdefault(t_.id, s_.value)
    for name, forms in need.items():
        got_i = inits.get(name or '')
        if got_i in forms:
            ctx.ok(f'{qn}: {name} starts empty')
            continue
        v_ = init_nodes.get(name or '')
        nonempty = isinstance(v_, (ast.List, ast.Tuple, ast.Set, ast.Dict)) and bool(getattr(v_, 'elts', None) or getattr(v_, 'keys', None))
        aliased = v_ is not None and attr_chain(v_) is not None
        if nonempty or aliased:
            ctx.violation(mod, qn, f'initial value of {name}', f'{name} starts as {got_i}: '
                          f'{"it shares the list it is rebuilt from" if aliased else "it is not empty"}, the merged list gets extra / duplicated entries', fn)
        else:
            raise Undecided(f'{qn}: {name} is initialised as {got_i!r}, not a recognised empty container')

    _iadd(ctx, mod)


def _iadd(ctx: RuleCtx, mod: Module) -> None:
    qn = f'{ROOT}.__iadd__'
    fn = _inline(mod, ROOT, mod.func(qn))
    loops = [s for s in fn.body if isinstance(s, ast.For)]
    if len(loops) != 1 or not isinstance(loops[0].target, ast.Name):
        raise Undecided(f'{qn}: expected one loop over the added arguments')
    lp = loops[0]
    params = [a.arg for a in fn.args.args if a.arg != 'self']
    if norm(lp.iter) not in params:
        raise Undecided(f'{qn}: the loop does not walk the added arguments ({short(lp.iter)})')
    x = lp.target.id
    tab = tables.extract(fn, body=lp.body, effects=_eff, inline=True, inline_calls={'_can_dedup', '_should_prepend'}, name=qn + ':loop',
                         pure={'_can_dedup', '_should_prepend'})
    cd = f'self._can_dedup({x})'
    sem: T.Dict[Atom, str] = {}
    for a in tab.atoms():
        if a.kind == 'is' and a.args[0] == cd and a.args[1] in DEDUP_KINDS:
            sem[a] = a.args[1].split('.')[1]
        elif a.kind == 'in' and a.args[0] == x and a.args[1] in ('self._container', 'self.pre', 'self.post'):
            sem[a] = 'in:' + a.args[1]
        elif a == Atom('truth', (f'self._should_prepend({x})',)):
            sem[a] = 'front'
        else:
            raise Undecided(f'{qn}: loop tests {a!r}, outside the reference vocabulary')
    if 'front' not in sem.values():
        raise Undecided(f'{qn}: the loop never tests _should_prepend')
    tmp: T.Set[str] = set()
    n = 0
    bad = 0
    import itertools
    free = [a for a, k in sem.items() if k not in ('NO_DEDUP', 'UNIQUE', 'OVERRIDDEN')]
    for kind, bits in itertools.product(('NO_DEDUP', 'UNIQUE', 'OVERRIDDEN'), itertools.product((False, True), repeat=len(free))):
        w = {a: (k == kind) for a, k in sem.items() if a not in free}
        w.update(dict(zip(free, bits)))
        v = {k: w[a] for a, k in sem.items()}
        for k_ in ('NO_DEDUP', 'UNIQUE', 'OVERRIDDEN'):
            v[k_] = kind == k_
        rows = tab.fire(w)
        if len(rows) != 1:
            raise Undecided(f'{qn}: {len(rows)} rows fire in one world')
        r = rows[0]
        n += 1
        present = any(val for k, val in v.items() if k.startswith('in:'))
        adds_front: T.List[str] = []
        adds_back: T.List[str] = []
        flag = False
        for e in r.effects:
            m = re.fullmatch(r'call ([\w.]+)\.(append|appendleft)\(%s\)' % re.escape(x), e)
            if e == 'self.needs_override_check := True':
                flag = True
            elif m and m.group(1) == 'self.post' and m.group(2) == 'append':
                adds_back.append(e)
            elif m and m.group(1).isidentifier():
                adds_front.append(e)
                tmp.add(f'{m.group(1)}.{m.group(2)}')
            elif m and m.group(1) == 'self.pre':
                adds_front.append(e)
                tmp.add(f'self.pre.{m.group(2)}')
            elif re.fullmatch(r'\w+ := self\._can_dedup\(%s\)' % re.escape(x), e):
                continue
            else:
                raise Undecided(f'{qn}: loop effect `{e}` is outside the reference vocabulary')
        node = r.path.events[-1].node if r.path.events else lp
        if v['UNIQUE'] and present:
            if adds_front or adds_back:
                ctx.violation(mod, qn, repr(r), 'a once-only (UNIQUE) argument that is already present is added again', node)
                bad += 1
            continue
        want_front = v['front']
        if len(adds_front) != (1 if want_front else 0) or len(adds_back) != (0 if want_front else 1):
            ctx.violation(mod, qn, repr(r), f'an argument that {"must go in front (prepend prefix)" if want_front else "must be appended"} is queued as '
                          f'{adds_front + adds_back or "nothing"}: arguments are lost, duplicated or put at the wrong end', node)
            bad += 1
        elif v['OVERRIDDEN'] and not flag:
            ctx.violation(mod, qn, repr(r), 'an OVERRIDDEN-type argument is queued without setting needs_override_check: the next flush takes the fast '
                          'path and earlier occurrences are not removed', node)
            bad += 1
    if not bad:
        ctx.ok(f'{qn}: loop table agrees with the reference on {n} worlds (UNIQUE present -> skipped; OVERRIDDEN -> flag; prepend prefix -> front, else post)')
    # the batch goes to the front of pre in its own order
    if bad:
        return
    after = [s for s in fn.body[fn.body.index(lp) + 1:]]
    moves = [norm(s.value) for s in after if isinstance(s, ast.Expr) and isinstance(s.value, ast.Call) and norm(s.value).startswith('self.pre.')]
    if len(tmp) != 1:
        raise Undecided(f'{qn}: front additions go through {sorted(tmp)}')
    form = next(iter(tmp))
    name, how = form.rsplit('.', 1)
    if name == 'self.pre':
        ok = False
        msg = f'arguments are put into self.pre one by one with {how}: a batch of prepend-type arguments ends up ' \
              f'{"in reverse order" if how == "appendleft" else "behind what was added earlier"}'
    else:
        good = {(f'self.pre.extendleft({name})', 'appendleft'), (f'self.pre.extendleft(reversed({name}))', 'append')}
        ok = len(moves) == 1 and (moves[0], how) in good
        msg = f'the batch is collected with {name}.{how} and moved with {moves}: it must arrive in front of self.pre in its own order ' \
              f'({name}.appendleft + self.pre.extendleft({name}), or the mirror image)'
        if not ok and (len(moves) != 1 or not re.fullmatch(r'self\.pre\.(extend|extendleft)\((reversed\()?%s\)?\)' % re.escape(name), moves[0])):
            raise Undecided(f'{qn}: the batch is moved by {moves}')
    ctx.require(ok, f'{qn}: a batch is prepended in its own order ({form} then {moves})', mod, qn, 'batch prepend', msg, lp)
