"""C14 helper: folding of expressions / straight-line statements under *sample bindings*, and
replay of enumerated paths (sa.paths) under such bindings.

This is E2 (consteval with an environment) extended to the string/format expressions the template
code is made of.  Nothing of the repository is imported or executed by Python: expressions are
folded node by node over a whitelist of builtins and str/list/dict/re.Match methods; every other
construct raises `Undecided`.  The folder never decides control flow: paths come from
`sa.paths.enumerate_paths`; `replay` only tells which of the enumerated paths is consistent with a
sample (each `cond` event is folded and compared with the polarity the path assumes).
"""
from __future__ import annotations

import ast
import re
import typing as T

from ..core import Undecided, norm, short
from ..paths import enumerate_paths, Path


class FoldRaise(Exception):
    """Folding showed that the expression raises a Python exception for this sample."""

    def __init__(self, exc: str, msg: str = ''):
        super().__init__(f'{exc}: {msg}')
        self.exc = exc
        self.msg = msg


class Recorder:
    """Opaque collaborator (`mlog`, an output file, `FeatureNew`): method calls are recorded as effects."""

    def __init__(self, name: str, log: T.List[T.Tuple[str, T.Tuple[T.Any, ...]]]):
        self._name = name
        self._log = log

    def __repr__(self) -> str:
        return f'<{self._name}>'


class SampleConf:
    """Stand-in for build.ConfigurationData: values {name: (value, description)}; get raises KeyError."""

    def __init__(self, values: T.Dict[str, T.Tuple[T.Any, T.Optional[str]]]):
        self.values = dict(values)


class Namespace(dict):  # type: ignore[type-arg]
    """A module-like sample object (`re` with compile/VERBOSE...): attribute access reads the entry."""


class Closure:
    def __init__(self, node: T.Union[ast.Lambda, ast.FunctionDef], env: T.Dict[str, T.Any]):
        self.node = node
        self.env = env


STR_METHODS = {'strip', 'lstrip', 'rstrip', 'split', 'rsplit', 'splitlines', 'join', 'startswith', 'endswith', 'format', 'lower', 'upper',
               'replace', 'find', 'rfind', 'index', 'count', 'partition', 'rpartition', 'removeprefix', 'removesuffix', 'expandtabs',
               'isspace', 'isdigit', 'isalnum', 'isidentifier', 'title', 'capitalize', 'ljust', 'rjust', 'zfill', 'encode'}
SEQ_METHODS = {'index', 'count', 'copy', 'get', 'keys', 'values', 'items', 'union', 'intersection', 'difference', 'issubset'}
MUT_METHODS = {'append', 'extend', 'add', 'update', 'insert', 'discard', 'setdefault'}
MATCH_METHODS = {'group', 'groups', 'groupdict', 'start', 'end', 'span'}
BUILTINS: T.Dict[str, T.Any] = {'str': str, 'int': int, 'bool': bool, 'len': len, 'repr': repr, 'list': list, 'tuple': tuple, 'sorted': sorted,
                                'set': set, 'dict': dict, 'min': min, 'max': max, 'any': any, 'all': all, 'enumerate': enumerate, 'reversed': reversed,
                                'float': float, 'abs': abs, 'zip': zip, 'range': range, 'frozenset': frozenset, 'bytes': bytes}
TYPES = {'str': str, 'int': int, 'bool': bool, 'list': list, 'dict': dict, 'tuple': tuple, 'float': float, 'set': set, 'bytes': bytes}
EXC_NAMES = {'KeyError', 'IndexError', 'ValueError', 'TypeError', 'AttributeError', 'Exception', 'LookupError', 'BaseException'}
EXC_PARENTS = {'KeyError': {'LookupError', 'Exception', 'BaseException'}, 'IndexError': {'LookupError', 'Exception', 'BaseException'},
               'ValueError': {'Exception', 'BaseException'}, 'TypeError': {'Exception', 'BaseException'},
               'AttributeError': {'Exception', 'BaseException'}, 'ZeroDivisionError': {'ArithmeticError', 'Exception', 'BaseException'}}


def _guard(f: T.Callable[[], T.Any]) -> T.Any:
    try:
        return f()
    except (Undecided, FoldRaise):
        raise
    except RecursionError:
        raise
    except Exception as e:  # the *sample* raises: that is a fact about the folded expression
        raise FoldRaise(type(e).__name__, str(e))


class Folder:
    def __init__(self, hooks: T.Optional[T.Dict[str, T.Callable[..., T.Any]]] = None):
        self.hooks = dict(hooks or {})
        self.effects: T.List[T.Tuple[str, T.Tuple[T.Any, ...]]] = []
        self.depth = 0

    # -- expressions -----------------------------------------------------
    def expr(self, e: ast.AST, env: T.Dict[str, T.Any]) -> T.Any:
        m = getattr(self, 'e_' + e.__class__.__name__, None)
        if m is None:
            raise Undecided(f'cannot fold {e.__class__.__name__}: {short(e)}')
        return m(e, env)

    def e_Constant(self, e: ast.Constant, env: T.Dict[str, T.Any]) -> T.Any:
        return e.value

    def e_Name(self, e: ast.Name, env: T.Dict[str, T.Any]) -> T.Any:
        if e.id in env:
            return env[e.id]
        if e.id in ('True', 'False', 'None'):
            return {'True': True, 'False': False, 'None': None}[e.id]
        raise Undecided(f'sample folding: unbound name {e.id}')

    def e_Tuple(self, e: ast.Tuple, env: T.Dict[str, T.Any]) -> T.Any:
        return tuple(self._elts(e.elts, env))

    def e_List(self, e: ast.List, env: T.Dict[str, T.Any]) -> T.Any:
        return list(self._elts(e.elts, env))

    def e_Set(self, e: ast.Set, env: T.Dict[str, T.Any]) -> T.Any:
        return set(self._elts(e.elts, env))

    def _elts(self, elts: T.List[ast.expr], env: T.Dict[str, T.Any]) -> T.List[T.Any]:
        out: T.List[T.Any] = []
        for x in elts:
            if isinstance(x, ast.Starred):
                out.extend(self.expr(x.value, env))
            else:
                out.append(self.expr(x, env))
        return out

    def e_Dict(self, e: ast.Dict, env: T.Dict[str, T.Any]) -> T.Any:
        out: T.Dict[T.Any, T.Any] = {}
        for k, v in zip(e.keys, e.values):
            if k is None:
                out.update(self.expr(v, env))
            else:
                out[self.expr(k, env)] = self.expr(v, env)
        return out

    def e_JoinedStr(self, e: ast.JoinedStr, env: T.Dict[str, T.Any]) -> T.Any:
        parts: T.List[str] = []
        for v in e.values:
            if isinstance(v, ast.Constant):
                parts.append(str(v.value))
            elif isinstance(v, ast.FormattedValue):
                val = self.expr(v.value, env)
                self._plain(val, v)
                if v.conversion == ord('r'):
                    val = repr(val)
                elif v.conversion == ord('s'):
                    val = str(val)
                elif v.conversion == ord('a'):
                    val = ascii(val)
                spec = ''
                if v.format_spec is not None:
                    spec = self.expr(v.format_spec, env)
                parts.append(_guard(lambda: format(val, spec)))
            else:  # pragma: no cover
                raise Undecided(f'cannot fold f-string part {short(v)}')
        return ''.join(parts)

    def _plain(self, val: T.Any, where: ast.AST) -> None:
        """Only plain data may be rendered into text."""
        if isinstance(val, (Recorder, SampleConf, Closure)) or isinstance(val, re.Match):
            raise Undecided(f'sample folding: {val!r} rendered into text in {short(where)}')
        if isinstance(val, (list, tuple, set, dict)):
            for x in (val.values() if isinstance(val, dict) else val):
                self._plain(x, where)

    def e_BinOp(self, e: ast.BinOp, env: T.Dict[str, T.Any]) -> T.Any:
        l, r = self.expr(e.left, env), self.expr(e.right, env)
        for x in (l, r):
            self._plain(x, e)
        op = e.op
        if isinstance(op, ast.Add):
            return _guard(lambda: l + r)
        if isinstance(op, ast.Mod):
            return _guard(lambda: l % r)
        if isinstance(op, ast.Mult):
            return _guard(lambda: l * r)
        if isinstance(op, ast.Sub):
            return _guard(lambda: l - r)
        if isinstance(op, ast.FloorDiv):
            return _guard(lambda: l // r)
        if isinstance(op, ast.BitOr):
            return _guard(lambda: l | r)
        if isinstance(op, ast.BitAnd):
            return _guard(lambda: l & r)
        raise Undecided(f'cannot fold operator in {short(e)}')

    def e_UnaryOp(self, e: ast.UnaryOp, env: T.Dict[str, T.Any]) -> T.Any:
        v = self.expr(e.operand, env)
        if isinstance(e.op, ast.Not):
            return not self.truth(v)
        if isinstance(e.op, ast.USub):
            return _guard(lambda: -v)
        raise Undecided(f'cannot fold {short(e)}')

    def truth(self, v: T.Any) -> bool:
        if isinstance(v, SampleConf):
            return bool(v.values)
        if isinstance(v, (Recorder, Closure)):
            return True
        return bool(v)

    def e_BoolOp(self, e: ast.BoolOp, env: T.Dict[str, T.Any]) -> T.Any:
        is_and = isinstance(e.op, ast.And)
        v: T.Any = None
        for x in e.values:
            v = self.expr(x, env)
            if self.truth(v) != is_and:
                return v
        return v

    def e_IfExp(self, e: ast.IfExp, env: T.Dict[str, T.Any]) -> T.Any:
        return self.expr(e.body, env) if self.truth(self.expr(e.test, env)) else self.expr(e.orelse, env)

    def e_Compare(self, e: ast.Compare, env: T.Dict[str, T.Any]) -> T.Any:
        left = self.expr(e.left, env)
        for op, c in zip(e.ops, e.comparators):
            right = self.expr(c, env)
            ok = self._cmp(op, left, right, e)
            if not ok:
                return False
            left = right
        return True

    def _cmp(self, op: ast.cmpop, l: T.Any, r: T.Any, e: ast.AST) -> bool:
        if isinstance(op, (ast.In, ast.NotIn)):
            if isinstance(r, SampleConf):
                res = l in r.values
            elif isinstance(r, (str, list, tuple, set, frozenset, dict)) or hasattr(r, 'keys'):
                res = _guard(lambda: l in r)
            else:
                raise Undecided(f'cannot fold membership in {short(e)}')
            return res if isinstance(op, ast.In) else not res
        if isinstance(op, ast.Is):
            return l is r
        if isinstance(op, ast.IsNot):
            return l is not r
        if isinstance(op, ast.Eq):
            return bool(_guard(lambda: l == r))
        if isinstance(op, ast.NotEq):
            return bool(_guard(lambda: l != r))
        if isinstance(op, ast.Lt):
            return bool(_guard(lambda: l < r))
        if isinstance(op, ast.LtE):
            return bool(_guard(lambda: l <= r))
        if isinstance(op, ast.Gt):
            return bool(_guard(lambda: l > r))
        if isinstance(op, ast.GtE):
            return bool(_guard(lambda: l >= r))
        raise Undecided(f'cannot fold {short(e)}')

    def e_Subscript(self, e: ast.Subscript, env: T.Dict[str, T.Any]) -> T.Any:
        v = self.expr(e.value, env)
        if isinstance(v, re.Match):
            k = self.expr(e.slice, env)
            return _guard(lambda: v[k])
        if not isinstance(v, (str, list, tuple, dict)):
            raise Undecided(f'cannot fold subscript of {type(v).__name__} in {short(e)}')
        if isinstance(e.slice, ast.Slice):
            lo = self.expr(e.slice.lower, env) if e.slice.lower else None
            hi = self.expr(e.slice.upper, env) if e.slice.upper else None
            st = self.expr(e.slice.step, env) if e.slice.step else None
            return _guard(lambda: v[lo:hi:st])
        k = self.expr(e.slice, env)
        return _guard(lambda: v[k])

    def e_Attribute(self, e: ast.Attribute, env: T.Dict[str, T.Any]) -> T.Any:
        v = self.expr(e.value, env)
        if isinstance(v, SampleConf) and e.attr == 'values':
            return v.values
        if isinstance(v, re.Match) and e.attr in ('lastgroup', 'string', 'lastindex'):
            return getattr(v, e.attr)
        if isinstance(v, Recorder):
            return Recorder(f'{v._name}.{e.attr}', v._log)
        if isinstance(v, Namespace):
            if e.attr in v:
                return v[e.attr]
            raise Undecided(f'sample folding: no model for {short(e)}')
        raise Undecided(f'cannot fold attribute {short(e)}')

    def e_Lambda(self, e: ast.Lambda, env: T.Dict[str, T.Any]) -> T.Any:
        return Closure(e, env)

    def _comp(self, gens: T.List[ast.comprehension], env: T.Dict[str, T.Any], emit: T.Callable[[T.Dict[str, T.Any]], None], i: int = 0) -> None:
        if i == len(gens):
            emit(env)
            return
        g = gens[i]
        it = self.expr(g.iter, env)
        for item in self._iterate(it, g.iter):
            env2 = dict(env)
            self.bind(g.target, item, env2)
            if all(self.truth(self.expr(c, env2)) for c in g.ifs):
                self._comp(gens, env2, emit, i + 1)

    def _iterate(self, it: T.Any, where: ast.AST) -> T.List[T.Any]:
        if isinstance(it, (list, tuple, str, dict, set, frozenset)) or type(it).__name__ in ('dict_keys', 'dict_values', 'dict_items', 'enumerate', 'zip', 'range', 'reversed', 'list_reverseiterator'):
            return list(it)
        raise Undecided(f'sample folding: cannot iterate {type(it).__name__} in {short(where)}')

    def e_ListComp(self, e: ast.ListComp, env: T.Dict[str, T.Any]) -> T.Any:
        out: T.List[T.Any] = []
        self._comp(e.generators, env, lambda en: out.append(self.expr(e.elt, en)))
        return out

    e_GeneratorExp = e_ListComp  # type: ignore[assignment]

    def e_SetComp(self, e: ast.SetComp, env: T.Dict[str, T.Any]) -> T.Any:
        out: T.Set[T.Any] = set()
        self._comp(e.generators, env, lambda en: out.add(self.expr(e.elt, en)))
        return out

    def e_DictComp(self, e: ast.DictComp, env: T.Dict[str, T.Any]) -> T.Any:
        out: T.Dict[T.Any, T.Any] = {}

        def emit(en: T.Dict[str, T.Any]) -> None:
            out[self.expr(e.key, en)] = self.expr(e.value, en)
        self._comp(e.generators, env, emit)
        return out

    def e_Call(self, e: ast.Call, env: T.Dict[str, T.Any]) -> T.Any:
        if isinstance(e.func, ast.Name) and e.func.id == 'isinstance' and 'isinstance' not in env and len(e.args) == 2 and not e.keywords:
            return self._isinstance(self.expr(e.args[0], env), e.args[1], env)
        args: T.List[T.Any] = []
        for a in e.args:
            if isinstance(a, ast.Starred):
                args.extend(self.expr(a.value, env))
            else:
                args.append(self.expr(a, env))
        kws = {}
        for k in e.keywords:
            if k.arg is None:
                raise Undecided(f'cannot fold **kwargs in {short(e)}')
            kws[k.arg] = self.expr(k.value, env)
        f = e.func
        if isinstance(f, ast.Name):
            if f.id in env:
                return self.call_value(env[f.id], args, kws, e)
            if f.id in self.hooks:
                return self.hooks[f.id](*args, **kws)
            if f.id in BUILTINS:
                for x in args:
                    self._plain(x, e)
                return _guard(lambda: BUILTINS[f.id](*args, **kws))
            raise Undecided(f'sample folding: unknown callee {f.id} in {short(e)}')
        if isinstance(f, ast.Attribute):
            chain = norm(f)
            if chain in self.hooks:
                return self.hooks[chain](*args, **kws)
            recv = self.expr(f.value, env)
            return self.method(recv, f.attr, args, kws, e)
        raise Undecided(f'cannot fold call {short(e)}')

    def _isinstance(self, v: T.Any, t: ast.AST, env: T.Dict[str, T.Any]) -> bool:
        names = [norm(x) for x in (t.elts if isinstance(t, ast.Tuple) else [t])]
        for n in names:
            if n not in TYPES:
                raise Undecided(f'sample folding: isinstance against {n}')
        return isinstance(v, tuple(TYPES[n] for n in names))

    def call_value(self, fv: T.Any, args: T.List[T.Any], kws: T.Dict[str, T.Any], where: ast.AST) -> T.Any:
        if isinstance(fv, Closure):
            return self.call_closure(fv, args, kws, where)
        if isinstance(fv, Recorder):
            fv._log.append((fv._name, tuple(args)))
            return None
        if callable(fv) and getattr(fv, '_c14_hook', False):
            return fv(*args, **kws)
        raise Undecided(f'sample folding: cannot call {fv!r} in {short(where)}')

    def call_closure(self, c: Closure, args: T.List[T.Any], kws: T.Dict[str, T.Any], where: ast.AST) -> T.Any:
        node = c.node
        a = node.args
        names = [x.arg for x in a.posonlyargs + a.args]
        if a.vararg or a.kwarg or len(args) > len(names):
            raise Undecided(f'cannot bind arguments in {short(where)}')
        env = dict(c.env)
        defaults = a.defaults
        for i, n in enumerate(names):
            if i < len(args):
                env[n] = args[i]
            elif n in kws:
                env[n] = kws[n]
            else:
                j = i - (len(names) - len(defaults))
                if j < 0:
                    raise FoldRaise('TypeError', f'missing argument {n}')
                env[n] = self.expr(defaults[j], c.env)
        if isinstance(node, ast.Lambda):
            return self.expr(node.body, env)
        self.depth += 1
        if self.depth > 6:
            raise Undecided('sample folding: call depth')
        try:
            res = replay(node.body, env, self)
        finally:
            self.depth -= 1
        if res.kind == 'raise':
            raise FoldRaise(res.value, 'raised by ' + node.name)
        if res.kind == 'pyraise':
            raise FoldRaise(res.value, 'in ' + node.name)
        return res.value

    def method(self, recv: T.Any, name: str, args: T.List[T.Any], kws: T.Dict[str, T.Any], e: ast.AST) -> T.Any:
        if isinstance(recv, Recorder):
            recv._log.append((f'{recv._name}.{name}', tuple(args)))
            return None
        if isinstance(recv, Namespace):
            if name not in recv:
                raise Undecided(f'sample folding: no model for {short(e)}')
            return self.call_value(recv[name], args, kws, e)
        if isinstance(recv, SampleConf):
            if name == 'get' and len(args) == 1:
                return _guard(lambda: recv.values[args[0]])
            if name == 'keys' and not args:
                return recv.values.keys()
            raise Undecided(f'sample folding: ConfigurationData.{name}')
        if isinstance(recv, re.Match):
            if name in MATCH_METHODS:
                return _guard(lambda: getattr(recv, name)(*args, **kws))
            raise Undecided(f'sample folding: Match.{name}')
        if isinstance(recv, re.Pattern):
            if name in ('search', 'match', 'fullmatch'):
                return _guard(lambda: getattr(recv, name)(*args, **kws))
            raise Undecided(f'sample folding: Pattern.{name}')
        if isinstance(recv, str):
            if name in STR_METHODS:
                for x in args:
                    self._plain(x, e)
                return _guard(lambda: getattr(recv, name)(*args, **kws))
            raise Undecided(f'sample folding: str.{name}')
        if isinstance(recv, (list, tuple, dict, set, frozenset)) or type(recv).__name__ in ('dict_keys', 'dict_items', 'dict_values'):
            if name in SEQ_METHODS:
                return _guard(lambda: getattr(recv, name)(*args, **kws))
            if name in MUT_METHODS and isinstance(recv, (list, dict, set)):
                self.effects.append((f'{norm(e.func.value)}.{name}', tuple(args)))  # type: ignore[attr-defined]
                return _guard(lambda: getattr(recv, name)(*args, **kws))
            raise Undecided(f'sample folding: {type(recv).__name__}.{name}')
        raise Undecided(f'sample folding: method {name} of {type(recv).__name__} in {short(e)}')

    # -- statements --------------------------------------------------------
    def bind(self, target: ast.AST, val: T.Any, env: T.Dict[str, T.Any]) -> None:
        if isinstance(target, ast.Name):
            env[target.id] = val
        elif isinstance(target, (ast.Tuple, ast.List)):
            vals = _guard(lambda: list(val))
            if any(isinstance(t, ast.Starred) for t in target.elts):
                raise Undecided(f'cannot bind starred target {short(target)}')
            if len(vals) != len(target.elts):
                raise FoldRaise('ValueError', 'unpack')
            for t, v in zip(target.elts, vals):
                self.bind(t, v, env)
        elif isinstance(target, ast.Subscript):
            base = self.expr(target.value, env)
            k = self.expr(target.slice, env)
            if not isinstance(base, (list, dict)):
                raise Undecided(f'cannot bind {short(target)}')

            def st() -> None:
                base[k] = val
            _guard(st)
        else:
            raise Undecided(f'cannot bind {short(target)}')

    def stmt(self, st: ast.AST, env: T.Dict[str, T.Any]) -> None:
        if isinstance(st, ast.Assign):
            v = self.expr(st.value, env)
            for t in st.targets:
                self.bind(t, v, env)
        elif isinstance(st, ast.AnnAssign):
            if st.value is not None:
                self.bind(st.target, self.expr(st.value, env), env)
        elif isinstance(st, ast.AugAssign):
            cur = self.expr(ast.copy_location(_load(st.target), st.target), env)
            new: T.Any = None
            r = self.expr(st.value, env)
            op = st.op
            if isinstance(op, ast.Add):
                if isinstance(cur, list):
                    new = _guard(lambda: cur + list(r))
                else:
                    new = _guard(lambda: cur + r)
            elif isinstance(op, ast.Sub):
                new = _guard(lambda: cur - r)
            elif isinstance(op, ast.Mult):
                new = _guard(lambda: cur * r)
            else:
                raise Undecided(f'cannot fold {short(st)}')
            self.bind(st.target, new, env)
        elif isinstance(st, ast.Expr):
            self.expr(st.value, env)
        elif isinstance(st, (ast.Import, ast.ImportFrom)):
            for a in st.names:
                nm = a.asname or a.name.split('.')[0]
                env[nm] = Recorder(nm, self.effects)
        elif isinstance(st, (ast.FunctionDef,)):
            env[st.name] = Closure(st, env)
        elif isinstance(st, (ast.Pass, ast.Global, ast.Nonlocal)):
            pass
        else:
            raise Undecided(f'sample folding: statement {st.__class__.__name__}: {short(st)}')


def _load(t: ast.AST) -> ast.AST:
    import copy
    t2 = copy.deepcopy(t)
    for n in ast.walk(t2):
        if hasattr(n, 'ctx'):
            n.ctx = ast.Load()  # type: ignore[attr-defined]
    return t2


def hook(f: T.Callable[..., T.Any]) -> T.Callable[..., T.Any]:
    f._c14_hook = True  # type: ignore[attr-defined]
    return f


class Result(T.NamedTuple):
    kind: str          # return | raise | fall | pyraise
    value: T.Any       # folded return value / exception class name
    path: T.Optional[Path]
    env: T.Dict[str, T.Any]


def _handler_names(h: ast.ExceptHandler) -> T.Optional[T.Set[str]]:
    if h.type is None:
        return None
    ts = h.type.elts if isinstance(h.type, ast.Tuple) else [h.type]
    return {norm(t).split('.')[-1] for t in ts}


def _catches(h: ast.ExceptHandler, exc: str) -> bool:
    names = _handler_names(h)
    if names is None:
        return True
    return exc in names or bool(EXC_PARENTS.get(exc, {'Exception', 'BaseException'}) & names)


class _Infeasible(Exception):
    pass


def _clone(v: T.Any) -> T.Any:
    """Sample containers are copied per attempted path so that an abandoned attempt leaves no trace."""
    if isinstance(v, Namespace):
        return v
    if isinstance(v, list):
        return [_clone(x) for x in v]
    if isinstance(v, set):
        return {_clone(x) for x in v}
    if isinstance(v, dict):
        return {k: _clone(x) for k, x in v.items()}
    if isinstance(v, SampleConf):
        return SampleConf(v.values)
    return v


_PATH_CACHE: T.Dict[int, T.Tuple[T.Any, T.List[Path], T.Dict[int, ast.Try], T.Dict[int, ast.Try]]] = {}


def _paths_of(body: T.List[ast.stmt], unroll: int) -> T.Tuple[T.List[Path], T.Dict[int, ast.Try], T.Dict[int, ast.Try]]:
    key = id(body) * 8 + unroll
    hit = _PATH_CACHE.get(key)
    if hit is not None and hit[0] is body:
        return hit[1], hit[2], hit[3]
    paths = enumerate_paths(body, unroll=unroll, handlers=True)
    owner: T.Dict[int, ast.Try] = {}       # id(handler) -> Try
    inside: T.Dict[int, ast.Try] = {}      # id(stmt directly or indirectly in a try body) -> innermost Try
    holder = ast.Module(body=body, type_ignores=[])
    for n in ast.walk(holder):
        if isinstance(n, ast.Try):
            for h in n.handlers:
                owner[id(h)] = n
    # innermost try first (inner bodies are registered before the enclosing one)
    def mark_inner(stmts: T.List[ast.stmt]) -> None:
        for s in stmts:
            if isinstance(s, (ast.FunctionDef, ast.AsyncFunctionDef, ast.ClassDef)):
                continue
            if isinstance(s, ast.Try):
                mark_inner(s.body)
                for st in s.body:
                    for n in ast.walk(st):
                        inside.setdefault(id(n), s)
                for h in s.handlers:
                    mark_inner(h.body)
                mark_inner(s.orelse)
                mark_inner(s.finalbody)
            else:
                for field in ('body', 'orelse'):
                    sub = getattr(s, field, None)
                    if isinstance(sub, list) and sub and isinstance(sub[0], ast.stmt):
                        mark_inner(sub)
    mark_inner(body)
    _PATH_CACHE[key] = (body, paths, owner, inside)
    return paths, owner, inside


def replay(body: T.List[ast.stmt], env0: T.Dict[str, T.Any], folder: Folder, unroll: int = 2) -> Result:
    """Which enumerated path of `body` is consistent with the sample bindings `env0`, and what does it yield.
    Exactly one path must be consistent; otherwise Undecided."""
    paths, owner, inside = _paths_of(body, unroll)
    feasible: T.List[Result] = []
    for p in paths:
        env = {k: _clone(v) for k, v in env0.items()}
        saved_effects = list(folder.effects)
        try:
            res = _run_path(p, env, folder, owner, inside)
        except _Infeasible:
            folder.effects[:] = saved_effects
            continue
        feasible.append(res)
        if len(feasible) == 1:
            first_effects = list(folder.effects)
        folder.effects[:] = saved_effects
    if not feasible:
        raise Undecided('sample replay: no enumerated path is consistent with the sample (more loop iterations than the unrolling?)')
    kinds = {(r.kind, repr(r.value)) for r in feasible}
    if len(kinds) > 1:
        raise Undecided(f'sample replay: {len(feasible)} paths are consistent with the sample and disagree: {sorted(kinds)}')
    folder.effects[:] = first_effects
    return feasible[0]


def _run_path(p: Path, env: T.Dict[str, T.Any], folder: Folder, owner: T.Dict[int, ast.Try], inside: T.Dict[int, ast.Try]) -> Result:
    loops: T.Dict[int, T.List[T.Any]] = {}
    pos: T.Dict[int, int] = {}

    def escaped(fr: FoldRaise, node: ast.AST) -> Result:
        t = inside.get(id(node))
        while t is not None:
            if any(_catches(h, fr.exc) for h in t.handlers):
                raise _Infeasible()   # a handler path takes over
            t = inside.get(id(t))
        return Result('pyraise', fr.exc, p, env)

    for ev in p.events:
        node = ev.node
        try:
            if ev.kind == 'cond':
                if folder.truth(folder.expr(node, env)) != bool(ev.val):  # type: ignore[arg-type]
                    raise _Infeasible()
            elif ev.kind == 'stmt':
                if isinstance(node, (ast.Return, ast.Raise)):
                    continue
                folder.stmt(node, env)  # type: ignore[arg-type]
            elif ev.kind == 'iter':
                assert isinstance(node, (ast.For, ast.AsyncFor))
                k = id(node)
                if k not in loops:
                    loops[k] = folder._iterate(folder.expr(node.iter, env), node.iter)
                    pos[k] = 0
                if ev.val == 'iter':
                    if pos[k] >= len(loops[k]):
                        raise _Infeasible()
                    folder.bind(node.target, loops[k][pos[k]], env)
                    pos[k] += 1
                else:
                    if pos[k] < len(loops[k]):
                        raise _Infeasible()
                    del loops[k]
            elif ev.kind == 'exc':
                assert isinstance(node, ast.ExceptHandler)
                t = owner.get(id(node))
                if t is None:
                    raise Undecided('sample replay: handler without try')
                raised: T.Optional[FoldRaise] = None
                for st in t.body:
                    if not isinstance(st, (ast.Assign, ast.AnnAssign, ast.AugAssign, ast.Expr)):
                        raise Undecided(f'sample replay: compound statement in a try body: {short(st)}')
                    try:
                        folder.stmt(st, env)
                    except FoldRaise as fr:
                        raised = fr
                        break
                if raised is None:
                    raise _Infeasible()
                # the first handler that catches it is the one entered
                first = None
                for h in t.handlers:
                    if _catches(h, raised.exc):
                        first = h
                        break
                if first is not node:
                    raise _Infeasible()
                if node.name:
                    env[node.name] = raised
            elif ev.kind == 'with':
                raise Undecided('sample replay: with statement')
        except FoldRaise as fr:
            return escaped(fr, node) if node is not None else Result('pyraise', fr.exc, p, env)
    if p.outcome == 'return':
        try:
            val = folder.expr(p.value, env) if p.value is not None else None
        except FoldRaise as fr:
            return escaped(fr, p.value)  # type: ignore[arg-type]
        return Result('return', val, p, env)
    if p.outcome == 'raise':
        exc = p.value
        if isinstance(exc, ast.Call):
            exc = exc.func
        return Result('raise', norm(exc).split('.')[-1] if exc is not None else '<reraise>', p, env)
    if p.outcome == 'fall':
        return Result('fall', None, p, env)
    raise Undecided(f'sample replay: path ends with {p.outcome}')
